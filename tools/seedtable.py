#!/venv/bin/python
"""Markdown table of one seeding round from seeded/<ID>-<round>m<k>/meta.json:  tools/seedtable.py r6"""
import json
import os
import sys

HERE = os.path.dirname(os.path.dirname(os.path.abspath(__file__)))
rnd = sys.argv[1]
first = {}
fp = os.path.join(HERE, "seeded", f"{rnd}_first_evaluation.json")
if os.path.exists(fp):
    first = json.load(open(fp))
print("| seeded change (summary from its author) | caught at first evaluation | keys now |")
print("|---|---|---|")
for d in sorted(os.listdir(os.path.join(HERE, "seeded"))):
    if f"-{rnd}m" not in d:
        continue
    m = json.load(open(os.path.join(HERE, "seeded", d, "meta.json")))
    det = m.get("detected_by", {})
    keys = []
    for p, v in det.items():
        if v.get("exit") == 1:
            pre = "" if p == m["property"] else p + ": "
            keys += [pre + "`" + k.replace("key=", "").split(" (")[0] + "`" for k in v.get("keys", [])[:2]]
    f = first.get(d, {})
    at_once = "yes" if f.get("first_exit") == 1 else ("no -> extended" if keys else "no")
    if f.get("note"):
        at_once += f" ({f['note']})"
    summ = m.get("summary", "").replace("|", "/").replace("\n", " ")
    print(f"| {d} {summ[:330]} | {at_once} | {', '.join(dict.fromkeys(keys)) or '-'} |")
