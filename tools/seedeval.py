#!/venv/bin/python
"""Confirm a seeded change and run the checks against it.

  tools/seedeval.py <dir with patch.diff, demo.py, meta.json> <name> [--props C01,C05] [--skip-tests]

Steps (all in a scratch git worktree of /repo under /tmp, removed afterwards):
  1. demo.py passes on the unchanged tree;  2. patch applies;  3. the repository's test suite passes with
  the patch;  4. demo.py fails with the patch;  5. each listed property's quick check is run with VERIF_REPO
  pointing at the patched worktree (evidence/replays redirected).  If 1-4 hold the change is stored
  as /verif/seeded/<name>/ with meta.json extended by what was run and which checks caught it.
"""
import argparse
import json
import os
import shutil
import subprocess
import sys
import time

HERE = os.path.dirname(os.path.dirname(os.path.abspath(__file__)))


def sh(cmd, cwd=None, env=None, timeout=1800):
    r = subprocess.run(cmd, cwd=cwd, env=env, capture_output=True, text=True, timeout=timeout)
    return r.returncode, r.stdout + r.stderr


def main():
    ap = argparse.ArgumentParser()
    ap.add_argument("src")
    ap.add_argument("name")
    ap.add_argument("--props", default="")
    ap.add_argument("--skip-tests", action="store_true")
    ap.add_argument("--scale", default="1")
    a = ap.parse_args()
    a.src = os.path.abspath(a.src)
    meta = json.load(open(os.path.join(a.src, "meta.json")))
    props = [p for p in a.props.split(",") if p] or [meta["property"]]
    wt = f"/tmp/sv_{a.name}_{os.getpid()}"
    sh(["git", "-C", "/repo", "worktree", "add", "--detach", wt, "HEAD"])
    ran = {}
    try:
        env = dict(os.environ, PYTHONPATH=os.path.join(wt, "src"))
        demo = os.path.join(a.src, "demo.py")
        rc0, out0 = sh(["/venv/bin/python", demo], cwd=wt, env=env, timeout=300)
        ran["demo_without_patch"] = rc0
        rc, out = sh(["git", "-C", wt, "apply", os.path.join(os.path.abspath(a.src), "patch.diff")])
        if rc:
            # the repository moved on since the patch was written: try a three-way merge against the blobs it names
            rc3, out3 = sh(["git", "-C", wt, "apply", "--3way", os.path.join(os.path.abspath(a.src), "patch.diff")])
            unmerged = sh(["git", "-C", wt, "diff", "--name-only", "--diff-filter=U"])[1].strip()
            if rc3 == 0 and not unmerged:
                merged = sh(["git", "-C", wt, "diff", "HEAD"])[1]
                sh(["git", "-C", wt, "reset", "-q"])
                orig = os.path.join(a.src, "patch.orig-%s.diff" % meta.get("repo_head", "earlier"))
                if not os.path.exists(orig):
                    shutil.copy(os.path.join(a.src, "patch.diff"), orig)
                open(os.path.join(a.src, "patch.diff"), "w").write(merged)
                meta["note"] = (meta.get("note", "") + " Re-based by three-way merge onto the current /repo; original kept as "
                                + os.path.basename(orig) + ".").strip()
                ran["patch_rebased_3way"] = True
                rc = 0
            else:
                sh(["git", "-C", wt, "reset", "-q", "--hard", "HEAD"])
        ran["patch_applies"] = rc == 0
        if rc:
            print("patch does not apply:", out)
            return 2
        if not a.skip_tests:
            rc, out = sh(["/venv/bin/python", "-m", "pytest", "-q", "-p", "no:cacheprovider", "--timeout=900", "tests",
                          "--deselect", "tests/test_encoding.py::TestEncoding::test_message_encoding"], cwd=wt, env=env)
            if rc:  # the suite binds random localhost ports: retry once to rule out a collision with a concurrent run
                rc, out = sh(["/venv/bin/python", "-m", "pytest", "-q", "-p", "no:cacheprovider", "--timeout=900", "tests",
                              "--deselect", "tests/test_encoding.py::TestEncoding::test_message_encoding"], cwd=wt, env=env)
                ran["tests_retried"] = True
            ran["tests_with_patch"] = rc
            ran["tests_tail"] = out.strip().splitlines()[-1] if out.strip() else ""
        rc1, out1 = sh(["/venv/bin/python", demo], cwd=wt, env=env, timeout=300)
        ran["demo_with_patch"] = rc1
        confirmed = rc0 == 0 and rc1 != 0 and (a.skip_tests or ran["tests_with_patch"] == 0)
        print(f"{a.name}: demo without patch rc={rc0}, with patch rc={rc1}, tests rc={ran.get('tests_with_patch')} ({ran.get('tests_tail')}) -> confirmed={confirmed}")
        det = {}
        for p in props:
            outdir = f"/tmp/sv_out_{a.name}_{p}"
            env2 = dict(os.environ, VERIF_REPO=wt, VERIF_OUT=outdir, VERIF_SCALE=a.scale)
            t0 = time.time()
            rc, out = sh(["/venv/bin/python", os.path.join(HERE, "run.py"), p, "--tier", "quick"], cwd=HERE, env=env2, timeout=3600)
            keys = [l.strip() for l in out.splitlines() if l.strip().startswith("key=")]
            det[p] = {"exit": rc, "keys": keys[:4], "wall_s": round(time.time() - t0, 1)}
            print(f"   check {p}: exit={rc} {keys[:3]} {det[p]['wall_s']}s")
            if rc not in (0, 1):
                print(out[-1500:])
            shutil.rmtree(outdir, ignore_errors=True)
        if confirmed:
            dst = os.path.join(HERE, "seeded", a.name)
            os.makedirs(dst, exist_ok=True)
            old_meta = os.path.join(dst, "meta.json")
            if a.skip_tests and os.path.exists(old_meta):
                # re-evaluation after a check was strengthened: keep the recorded result of the earlier test-suite run
                prev = json.load(open(old_meta)).get("confirmed_by", {}).get("ran", {})
                for k in ("tests_with_patch", "tests_tail", "tests_retried"):
                    if k in prev:
                        ran[k] = prev[k]
                ran["first_evaluation_missed_by_check"] = True
            elif os.path.exists(old_meta):
                if json.load(open(old_meta)).get("confirmed_by", {}).get("ran", {}).get("first_evaluation_missed_by_check"):
                    ran["first_evaluation_missed_by_check"] = True
            if os.path.abspath(a.src) != os.path.abspath(dst):
                shutil.copy(os.path.join(a.src, "patch.diff"), dst)
                shutil.copy(demo, dst)
                for f in os.listdir(a.src):
                    if f.startswith("patch.orig"):
                        shutil.copy(os.path.join(a.src, f), dst)
            meta["confirmed_by"] = {"ran": ran, "how": "scratch git worktree of /repo HEAD; demo.py run without and with patch.diff; "
                                    "repository test suite with the patch; then `VERIF_REPO=<worktree> run.py <ID> --tier quick`"}
            meta["repo_head"] = sh(["git", "-C", "/repo", "log", "--format=%h", "-1"])[1].strip()
            meta["detected_by"] = det
            json.dump(meta, open(os.path.join(dst, "meta.json"), "w"), indent=1)
        return 0
    finally:
        sh(["git", "-C", "/repo", "worktree", "remove", "--force", wt])
        shutil.rmtree(wt, ignore_errors=True)


if __name__ == "__main__":
    sys.exit(main())
