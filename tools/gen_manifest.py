#!/usr/bin/env python3
"""Regenerate MANIFEST.json from the table below (keeps it schema-valid and consistent)."""
import json
import os
import subprocess

HERE = os.path.dirname(os.path.dirname(os.path.abspath(__file__)))

ENGINES = {
    "simnet": ("vlib/simnet.py, vlib/world.py, vlib/mgen.py",
               "deterministic in-memory network; the real MessageManager lock-stepped one select round at a time; "
               "independent reference model; Hypothesis-generated histories/schedules"),
    "msgpbt": ("vlib/msgs.py", "in-process Hypothesis property tests over message classes and field validators"),
    "scripted-peer": ("vlib/peer.py", "real pyrtma.Client on a socketpair, scripted server side, reference reader"),
    "defgen": ("vlib/defgen.py", "generator of YAML definition closures + per-language extractors (python/ctypes, gcc, node, MATLAB mini-interpreter)"),
    "sched": ("vlib/sched.py", "harness-owned cooperative scheduler for the data logger's recording/writer threads"),
}

# id -> (engine, technique, level text, level note, design ref)
CHECKS = {}


def add(pid, engine, technique, text, note, ref):
    CHECKS[pid] = (engine, technique, text, note, ref)


SIM_NOTE = ("Trusted base: the in-memory socket/select model of vlib/simnet.py (FIFO streams, FIN/RST, MSG_WAITALL), "
            "the reference model in vlib/world.py written from the property text and core_defs.yaml, Hypothesis. "
            "Histories, service orders and writable sets are sampled, not exhausted.")

add("C01", "simnet", "model-based property testing (Hypothesis-generated histories + schedules against a reference router)",
    "Generated client histories and manager schedules; after every select round each live connection must have received "
    "exactly the multiset of published frames the reference model predicts, field- and byte-identical (profiles with refused / second-instance connects and with publishes that leave the source id 0). Exploration level: "
    "strong evidence over tens of thousands of histories, no proof of absence.", SIM_NOTE, "DESIGN.md 4 C01")

add("C05", "simnet", "model-based property testing (generated publisher interleavings; stream-framing, sequence-number and order invariants)",
    "Generated histories with bursts, maximum-size payloads, unwritable subscribers and clock jumps; after every round every byte "
    "stream parses into whole frames with msg_count 1,2,3,...; at the end per-sender order and pairwise receiver agreement are checked "
    "on the received logs (failure notices about client publishes included). Slow readers are modelled (a write on a socket with a timeout hands over part of a frame and times out; blocking writes complete). Exploration level.", SIM_NOTE, "DESIGN.md 4 C05")
add("C07", "simnet", "model-based property testing with fault injection (generated departures at generated protocol stages / byte offsets / write-side failures)",
    "Generated departures (DISCONNECT, FIN, RST, truncated frames, refusal, write-side discovery with EPIPE/ECONNRESET/delayed failure, "
    "injected failure at a byte offset) in generated service orders; monitors must see exactly one CLIENT_CLOSED per departed "
    "connection, the socket is closed, ids/names are reusable (also when the holder is found dead while the newcomer's request is being checked: 432-case table), survivors' deliveries equal the routing model. Exploration level.",
    SIM_NOTE + " Logging silenced and clock frozen in this profile so that all manager-originated frames are predicted.", "DESIGN.md 4 C07")
add("C14", "simnet", "model-based property testing with fault injection (generated writable subsets and write failures; FAILED_MESSAGE oracle in both directions)",
    "Generated writable snapshots and write failures; every required FAILED_MESSAGE must reach both monitors with the right subscriber "
    "and original header; no notice may be invented or describe a notice/log message; loggers are waited for; a subscriber that stays unwritable for up to 1200 (thorough 70000) consecutive messages is reported for every one of them. Exploration level.",
    SIM_NOTE + " Logging silenced and clock frozen in this profile.", "DESIGN.md 4 C14")
add("C19", "simnet", "model-based property testing (generated control/data histories; per-round ACK accounting and logger copy order)",
    "Generated control and data frames incl. repeats, no-ops, refused and repeated handshakes with 0-3 loggers; after every round the "
    "ACK frames on each connection equal the acknowledged requests processed in that round, logger copies follow processing order; one module with hundreds of distinct subscriptions is acknowledged for every further request. "
    "Exploration level.", SIM_NOTE, "DESIGN.md 4 C19")

add("C02", "simnet", "stateful property testing of the real Client against the real manager (probe-based delivered-set oracle) + exhaustive enumeration of the 3-type abstract state space",
    "Real pyrtma.Client on the simulated network; after every API call a probe publishes one message per type and the delivered set read "
    "from the client's connection must equal the reported subscribed set, exclude paused types, be unchanged by refused requests and be "
    "restored after scoped contexts (left normally or by an exception), also while the manager is momentarily not reading (send waits with a finite timeout expire). Type ids are also mapped onto the ends of the defined range and of int32. The sub-domain (28 reachable abstract states over 3 types + ALL) x 9 operations x argument lists of "
    "<=3 entries is enumerated completely in both tiers; longer histories over 6 types are sampled. Exploration level.",
    SIM_NOTE + " The client's module-level socket/select/time names are substituted the same way.", "DESIGN.md 4 C02")
add("C06", "simnet", "model-based property testing + exhaustive enumeration of connect pairs + generated id-churn + wire capture of the public entry points",
    "Three-valued identity oracle on generated connect/disconnect histories; all 17424 ordered pairs of consecutive connects and all 9984 triples around one name (second step a connect or a rename) enumerated; "
    ">=110 dynamic connects with churn and exhaustion of all 100 dynamic ids; Client.connect / client_context keyword arguments compared "
    "with the CONNECT/CONNECT_V2 frames on the wire and with CLIENT_INFO at a monitor. Exploration level.", SIM_NOTE, "DESIGN.md 4 C06")

add("C18", "simnet", "property-based testing with an independent counting oracle (all-seeing logger monitor) over generated reporting intervals",
    "Generated intervals with 0/1/63/64/65/128/129/300 distinct types, counts up to 65535 (thorough), out-of-range types and destinations, "
    "module churn and three kinds of report steps; TIMING_MESSAGE and the aggregated MESSAGE_TRAFFIC sub-messages must equal the "
    "monitor's own count in both directions, also when a subscriber of the reports is outside the writable snapshot (the notices about the reports it misses are counted like any forwarded message). Exploration level.", SIM_NOTE, "DESIGN.md 4 C18")

add("C03", "simnet", "model-based fuzzing with hostile-input generators (Hypothesis; failures bucketed by root cause) + exhaustive disconnect-offset table",
    "Generated hostile connections (header-field boundary values, impossible payload lengths, crafted/garbage control frames, non-ASCII "
    "names, cut frames, dead peers, hundreds of connections, clock jumps) next to a well-behaved conversation that must keep "
    "satisfying the routing/framing/acknowledgement oracles, plus liveness probes; FIN/RST after every byte offset of every protocol "
    "frame enumerated completely; tables of requests whose log line cannot be delivered and of 40-300 subscribers of the manager's own notices reset in the same instant. Exploration level: crash paths are found by search, absence is not proved.",
    SIM_NOTE + " Hostile clients use types and ids disjoint from the conversation so the model can ignore them.", "DESIGN.md 4 C03")

MSG_NOTE = ("Trusted base: ctypes, struct (float32 round trip), Hypothesis, the domain model in vlib/msgs.py written from the property text and "
            "tests/test_validators.py. Don't-cares (bool for ints, NaN for floats, '' for Char, exception types) are never asserted.")
add("C09", "msgpbt", "property-based testing of every validator family with a domain model (soundness, completeness, atomicity via byte snapshots) + generated forests of disable blocks",
    "Thirteen independent Hypothesis campaigns (one per validator family, disable-validation forests, and harness-scheduled threads / asyncio tasks / copied contexts around disable blocks) over core, hand-written and generated "
    "message classes: every assignment either reads back equal and touches only its field, or raises and leaves all bytes unchanged; "
    "out-of-domain values must raise at every position of a sequence; validation must be on after every exit from a disable block. "
    "Exploration level.", MSG_NOTE, "DESIGN.md 4 C09")
add("C10", "msgpbt", "round-trip property testing (bytes / dict / JSON / Message JSON / copy) over core, hand-written and generated message classes",
    "Five independent Hypothesis campaigns, one per serialisation route; instances built through the validated field API with extremes, "
    "-0.0, NaN, control characters, full-length strings and all-0x00/0xFF byte arrays; byte-for-byte identity after each round trip, "
    "storage-disjoint copies, refusal of a foreign version hash; definitions whose fields are named like the conversion methods go through the real compiler (refused, or converting like any other). Exploration level.", MSG_NOTE, "DESIGN.md 4 C10")

add("C08", "scripted-peer", "model-based property testing of Client.read_message against a reference reader on a real socket pair; exhaustive adjacency and disconnect-offset tables + generated scripts",
    "A real pyrtma.Client on socketpair()/loopback TCP reads scripted frame sequences (good, unsubscribed, ACK, unknown type, wrong size, "
    "wrong version, zero length, an older-style local definition without a hash) with subscription changes and re-registrations of a type's definition between reads; a reference reader written from the documentation decides what "
    "each call must return or raise, byte-exactly; all ordered pairs/triples of frame kinds and every disconnect byte offset are "
    "enumerated, longer scripts are generated. Exploration level.",
    "Trusted base: the kernel's AF_UNIX/TCP stream sockets, the reference reader in checks/c08.py, Hypothesis. The client's _sock and "
    "_connected are set directly to install the scripted connection (the only private pokes).", "DESIGN.md 4 C08")
add("C17", "sched", "schedule-exploring property testing: harness-owned cooperative scheduler over the data logger's synchronisation operations (generated tapes + exhaustive DFS of small histories)",
    "The recording thread and the real writer thread run under a scheduler that picks the next runnable thread before every Event/Thread "
    "operation from a generated tape; histories of update/pause/resume/restart/stop with virtual time crossing flush and subdivision "
    "deadlines, data-set configuration histories (add / update / remove before and between recordings) and selections mixing ALL_MESSAGE_TYPES with explicit, repeated and padded types; after stop the raw/JSON/quicklogger files must contain exactly the selected messages once, in order. All schedules of "
    "small histories are enumerated by DFS (thorough: every history of <= 4 updates with <= 2 flush deadlines). Exploration level.",
    "Trusted base: the scheduler shim replacing data_collection.threading/time (granularity = synchronisation operations, as the "
    "property states; races between plain field accesses inside one interval are not explored), the package's own QLReader for the "
    "quicklogger format.", "DESIGN.md 4 C17")

DEF_NOTE = ("Trusted base: the program generator and its expectation model (vlib/defgen.py, built by construction, independent of the parser), "
            "gcc 12 (sizeof/offsetof/_Alignof/_Generic probe), node 20, ctypes, and - because no MATLAB/Octave exists in the sandbox - a small interpreter for "
            "the statement subset the MATLAB back end emits (vlib/langs.py); JavaScript output carries no element widths, so agreement there is on names, "
            "order, lengths and kind.")
add("C04", "defgen", "differential property testing of the four language outputs (generated definition closures; gcc/ctypes/node/MATLAB-interpreter signatures compared with each other and with the generator's expectation)",
    "Generated definition closures (covering family for all 26 native type names as scalar, array element and alias target + random programs with "
    "aliases, nesting, arrays, signals, reuse, padding, import graphs, operator-rich and inexact-division length expressions, control characters in strings, and a stream of near-miss programs that must be refused or agree) are compiled for real; ids, hashes, constants, field names/order/lengths/element "
    "types and gcc sizeof/offsetof vs ctypes vs recorded type_size vs MATLAB element sizes must agree. Exploration level.", DEF_NOTE, "DESIGN.md 4 C04")
add("C15", "defgen", "grammar-based property testing: every generated well-formed closure must compile and load in Python, C (gcc), JavaScript (node) and the MATLAB interpreter; failures bucketed by (language, kind, construct class)",
    "Generated well-formed programs over every documented construct (incl. expressions over more than ten constants, every arithmetic / bitwise operator, control characters in string constants), biased towards cross-file references; compile() must not raise, the Python "
    "module must import in a fresh interpreter and register every message, gcc must accept the header, node must import the module and every "
    "factory must return fresh objects with pairwise distinct array elements, the MATLAB script must only reference defined fields. "
    "Exploration level.", DEF_NOTE, "DESIGN.md 4 C15")
add("C16", "defgen", "metamorphic property testing (compile twice in separate processes with different cwd / output dir / hash seed; combined-YAML round trip through the CLI; shipped core_defs.py vs fresh compilation, with generated one-token edits as sensitivity cases)",
    "Byte-identical outputs of repeated compilations, signature equality after recompiling NAME_combined.yaml through the command line, and AST + "
    "signature equality of the shipped core_defs.py with a fresh compilation of the shipped YAML; sequences of name-re-using closures compiled in one process, compiler options in root and imported files, core-embedding closures and long type texts are part of the domain. Three open findings (combined YAML cannot express "
    "three cross-file constructs) are listed in KNOWN_FINDINGS.txt. Exploration level.", DEF_NOTE, "DESIGN.md 4 C16")

PARSER_NOTE = ("Trusted base: the program generator with its by-construction expectation model and independent natural-layout model (vlib/defgen.py), "
               "ctypes and gcc 12 as independent layout oracles, Hypothesis.")
add("C11", "defgen", "property-based testing of the layout validator against an independent natural-layout model (+ctypes, gcc) with exhaustive enumeration of all field sequences of <= 4 fields",
    "All 22 620 sequences of <= 4 fields over 1/2/4/8-byte scalars and length-1/3 arrays (auto_pad on and off, also as array element), a 512-case "
    "size-boundary table around 65535, generated layout programs with nested structs/struct arrays/reuse; accepted definitions must be naturally "
    "aligned with only char padding inserted, user fields unchanged, size = sum of fields = natural sizeof (ctypes, gcc); auto_pad off accepts "
    "exactly the layouts that need no padding; > 65535 bytes rejected; histories of closures on one Parser object equal fresh parses; explicit switches win over compiler_options; padding is identified by position (user fields may be named like padding). Exploration level (exhaustive for the enumerated sub-domain).",
    PARSER_NOTE, "DESIGN.md 4 C11")
add("C12", "defgen", "property-based testing with single injected conflicts (complete kinds x placements table) and generated conflict-free import graphs",
    "The complete table of 804 (conflict kind x placement x variant) cases - each must raise the corresponding error class - plus generated "
    "conflict-free closures over every import-graph shape (chains, trees, diamonds, repeats, alternative spellings, cycles), which must parse and "
    "register exactly the union of their definitions once; parse histories on one Parser object and user files named like the package's core definition file are included. Exploration level.", PARSER_NOTE, "DESIGN.md 4 C12")
add("C13", "defgen", "metamorphic property testing of the version hash (relocation / noise invariance, single-edit sensitivity, cross-process determinism) + differential comparison of the hash constants in the four outputs + wire capture of Client.send_message",
    "Generated closures with single edits (rename, id, field rename/type/insert/delete/reorder, signal<->message) must change the digest; relocation, "
    "import reordering, comments and unrelated definitions must not; two fresh processes with different hash seeds and directories agree; the "
    "8 hex digits in the Python/C/JavaScript/MATLAB outputs equal the parser's digest; headers sent by a real Client carry type_hash in the "
    "version field (send_message and send_signal, also after the id was registered again). One open finding (a message written `fields: OTHER` does not follow edits of OTHER) is listed in KNOWN_FINDINGS.txt. Exploration level.", PARSER_NOTE + " The client's _sock/_connected are set directly to capture sent headers on a socketpair.", "DESIGN.md 4 C13")

PLANNED = {}


def main():
    props = [json.loads(l)["id"] for l in open(os.path.join(HERE, "properties.jsonl"))]
    checks = []
    for pid in props:
        if pid not in CHECKS:
            continue
        engine, technique, text, note, ref = CHECKS[pid]
        checks.append({
            "property_id": pid,
            "quick_cmd": f"/venv/bin/python run.py {pid} --tier quick",
            "thorough_cmd": f"/venv/bin/python run.py {pid} --tier thorough",
            "evidence_file": f"/verif/evidence/{pid}.json",
            "replay_cmd_template": f"/venv/bin/python run.py {pid} --replay {{path}}",
            "engine": engine,
            "level_claimed": {"category": "exploration", "text": text, "design_ref": ref},
            "level_note": note,
            "technique": technique,
        })
    na = [{"property_id": p, "reason": PLANNED.get(p, "check not implemented yet in this revision of /verif (planned, see DESIGN.md section 4); nothing is claimed for it")}
          for p in props if p not in CHECKS]
    used = sorted({c["engine"] for c in checks})
    fixes = []
    kf = os.path.join(HERE, "KNOWN_FINDINGS.txt")
    if os.path.exists(kf):
        for line in open(kf):
            if line.startswith("fixed:"):
                fixes.append(line.split()[2])
    man = {
        "version": 1,
        "setup_cmd": "/venv/bin/python tools/setup.py",
        "hooks": {
            "guard": "PYRTMA_VERIF",
            "enable": "none needed: instrumentation is run-time substitution of module attributes "
                      "(pyrtma.manager.socket/select/random/time, ...) from /verif; the repository carries no hook code",
            "baseline_off_cmd": "cd /repo && /venv/bin/python -m pytest -ra -q -p no:cacheprovider --timeout=900 --continue-on-collection-errors",
            "source_commits": [],
            "add_only": True,
        },
        "engines": [{"name": e, "path": ENGINES[e][0], "serves_properties": [c["property_id"] for c in checks if c["engine"] == e],
                     "kind_free_text": ENGINES[e][1]} for e in used],
        "checks": checks,
        "notes": "All checks: property-based testing / fuzzing (Hypothesis; bounded exhaustive enumeration of small finite sub-domains; "
                 "atheris for byte-level robustness). Exit 0 held / 1 VIOLATION / 2 harness error. Genuine defects repaired in /repo by "
                 "'fix:' commits are listed as 'fixed:' lines in KNOWN_FINDINGS.txt: " + ", ".join(fixes),
        "not_applicable": na,
    }
    with open(os.path.join(HERE, "MANIFEST.json"), "w") as f:
        json.dump(man, f, indent=1)
        f.write("\n")
    try:
        import jsonschema

        jsonschema.validate(man, json.load(open("/root/.vp/MANIFEST.schema.json")))
        print("MANIFEST.json valid;", len(checks), "checks,", len(na), "not claimed")
    except ImportError:
        print("written (jsonschema not available for validation)")


if __name__ == "__main__":
    main()
