#!/venv/bin/python
"""Sensitivity self-test (not a registered check; DESIGN.md 2.6).

For every entry of the catalogue: copy /repo/src to a scratch directory outside /repo and /verif,
apply one small semantic patch (string replacement; the patched module must still import), run
the property's quick check with VERIF_REPO pointing at the copy and VERIF_OUT at a scratch
directory, require exit status 1 with a VIOLATION line, delete the copy.  With --seeded the
patches under /verif/seeded/<id>/patch.diff are used instead (applied with `patch -p1`).

  tools/mutants.py [--only C01[,C05..]] [--seeded] [--jobs N] [--scale X]
"""
import argparse
import json
import os
import shutil
import subprocess
import sys
import tempfile
import time

HERE = os.path.dirname(os.path.dirname(os.path.abspath(__file__)))
M = "src/pyrtma/manager.py"
C = "src/pyrtma/client.py"

# (property, name, file, old, new)
CATALOGUE = [
    ("C01", "logger-clause-dropped", M, "                        or module.is_logger\n", "                        or False\n"),
    ("C01", "max-modules-off-by-one", M, "dest_mod_id > cd.MAX_MODULES:", "dest_mod_id >= cd.MAX_MODULES:"),
    ("C01", "all-subscribers-omitted", M, "                self.subscriptions[ALL_MESSAGE_TYPES],\n", "                [],\n"),
    ("C01", "payload-slice-off-by-one", M, "data = self.data_view[: hdr.num_data_bytes]", "data = self.data_view[: max(hdr.num_data_bytes - 1, 0)] if hdr.num_data_bytes > 4000 else self.data_view[: hdr.num_data_bytes]"),
    ("C01", "unsubscribe-all-keeps-individual", M, "            # Clear out the individual subs\n            for sub_type in src_module.subs:\n                self.subscriptions[sub_type].discard(src_module)\n            src_module.subs.clear()\n\n            self.logger.debug(f\"UNSUBSCRIBE-", "            src_module.subs.discard(ALL_MESSAGE_TYPES)\n\n            self.logger.debug(f\"UNSUBSCRIBE-"),
    ("C05", "count-after-stamp", M, "        self.msg_count += 1\n        header.msg_count = self.msg_count\n\n        self.conn.sendall(header)\n        self.conn.sendall(payload)", "        header.msg_count = self.msg_count\n        self.msg_count += 1\n\n        self.conn.sendall(header)\n        self.conn.sendall(payload)"),
    ("C05", "payload-before-header", M, "        self.conn.sendall(header)\n        self.conn.sendall(payload)", "        self.conn.sendall(payload)\n        self.conn.sendall(header)"),
    ("C05", "ack-not-counted", M, "        try:\n            src_module.send_message(header, b\"\")", "        try:\n            src_module.conn.sendall(header)"),
    ("C19", "no-ack-for-pause", M, "            self.pause_subscription(src_module, self.message)\n            self.send_ack(src_module)", "            self.pause_subscription(src_module, self.message)"),
    ("C19", "ack-on-module-ready", M, "            self.register_module_ready(src_module, self.message)\n", "            self.register_module_ready(src_module, self.message)\n            self.send_ack(src_module)\n"),
    ("C19", "ack-dest-zero", M, "        header.dest_mod_id = src_module.mod_id\n        header.num_data_bytes = 0\n\n        try:", "        header.dest_mod_id = 0\n        header.num_data_bytes = 0\n\n        try:"),
    ("C19", "no-ack-when-unchanged", M, "            self.add_subscription(src_module, self.message)\n            self.send_ack(src_module)", "            _before = set(src_module.subs)\n            self.add_subscription(src_module, self.message)\n            if set(src_module.subs) != _before:\n                self.send_ack(src_module)"),
    ("C07", "subscription-not-discarded", M, "        for msg_type in module.subs:\n            self.subscriptions[msg_type].discard(module)\n", "        for msg_type in list(module.subs)[1:]:\n            self.subscriptions[msg_type].discard(module)\n"),
    ("C07", "module-entry-not-deleted", M, "        self.send_client_close(module)\n        del self.modules[module.conn]", "        self.send_client_close(module)\n        if module.is_logger:\n            del self.modules[module.conn]"),
    ("C07", "client-closed-twice-on-disconnect", M, "        self.remove_module(src_module)\n\n    def add_subscription", "        self.send_client_close(src_module)\n        self.remove_module(src_module)\n\n    def add_subscription"),
    ("C07", "no-client-closed-on-read-error", M, "                                except ConnectionError as err:\n                                    self.disconnect_module(src)", "                                except ConnectionError as err:\n                                    for _t in src.subs:\n                                        self.subscriptions[_t].discard(src)\n                                    self.logger_modules.discard(src)\n                                    src.close()\n                                    del self.modules[src.conn]"),
    ("C14", "drop-without-notice", M, "                module.drops += 1\n                print(\"x\", end=\"\", flush=True)\n                dropped.append(module)", "                module.drops += 1\n                print(\"x\", end=\"\", flush=True)\n                if module.drops < 3:\n                    dropped.append(module)"),
    ("C14", "failed-write-without-notice", M, "                except ConnectionError as err:\n                    failed_writes.append((module, err))\n            elif module.is_logger:", "                except BrokenPipeError as err:\n                    failed_writes.append((module, err))\n                except ConnectionError as err:\n                    self.remove_module(module)\n            elif module.is_logger:"),
    ("C05", "notices-before-fanout-ends", M, "                except ConnectionError as err:\n                    failed_writes.append((module, err))\n            elif module.is_logger:", "                except ConnectionError as err:\n                    self.remove_module(module)\n                    self.send_failed_message(module, header, time.perf_counter())\n            elif module.is_logger:"),
    ("C14", "logger-skipped", M, "            elif module.is_logger:\n                # Block until logger is ready", "            elif module.is_logger and header.msg_type != cd.MT_FAILED_MESSAGE:\n                # Block until logger is ready"),
    ("C14", "recursion-guard-narrowed", M, "            cd.MT_FAILED_MESSAGE,\n            cd.MT_RTMA_LOG,\n", "            cd.MT_FAILED_MESSAGE,\n"),
    ("C14", "failed-header-dest-missing", M, "        for fname, ftype, *_ in data.msg_header._fields_:\n            setattr", "        for fname, ftype, *_ in data.msg_header._fields_[:7]:\n            setattr"),
    ("C18", "count-after-range-check", M, "        if not self.sending_traffic.get():\n            if self.b_send_msg_timing:\n                self.message_counts[header.msg_type] += 1\n            self.traffic_counter[header.msg_type] += 1\n\n        dest_mod_id = header.dest_mod_id\n        dest_host_id = header.dest_host_id\n", "        dest_mod_id = header.dest_mod_id\n        dest_host_id = header.dest_host_id\n"),
    ("C18", "traffic-not-cleared", M, "        self.traffic_counter.clear()\n", "        pass\n"),
    ("C18", "traffic-last-chunk-dropped", M, "            if i > 0:\n                data.seqno = self.traffic_seqno", "            if i > 0 and sub_seqno == 1:\n                data.seqno = self.traffic_seqno"),
    ("C18", "timing-off-by-one-type", M, "            if 0 <= mt < cd.MAX_MESSAGE_TYPES:\n                data.timing[mt] = count", "            if 0 < mt < cd.MAX_MESSAGE_TYPES:\n                data.timing[mt] = count"),
    ("C06", "unique-flag-inverted", M, "module.unique = msg.data.allow_multiple == 0", "module.unique = msg.data.allow_multiple != 0"),
    ("C06", "name-check-removed", M, "                    if (m.unique or module.unique) and (m.name == module.name):", "                    if False and (m.name == module.name):"),
    ("C06", "dynamic-id-not-skipping-used", M, "            if mod_id not in current_ids:\n                return mod_id", "            return mod_id"),
    ("C06", "lower-bound-removed", M, "            if module.mod_id < 1 or module.mod_id > cd.DYN_MOD_ID_START:", "            if module.mod_id > cd.DYN_MOD_ID_START:"),
    ("C06", "client-connect-drops-logger-flag", C, "        msg2.logger_status = int(logger_status)\n", "        msg2.logger_status = int(logger_status and not allow_multiple)\n"),
    ("C02", "client-subscribe-keeps-paused", C, "                self._subscribed_types |= msg_set\n                self._paused_types -= msg_set\n        elif ctrl_msg == \"Unsubscribe\":", "                self._subscribed_types |= msg_set\n        elif ctrl_msg == \"Unsubscribe\":"),
    ("C02", "client-unsubscribe-all-keeps-flag", C, "                self._subscribed_types.clear()\n                self._paused_types.clear()\n                self._sub_all = False\n            else:\n                self._subscribed_types -= msg_set\n                self._paused_types -= msg_set\n        elif ctrl_msg == \"PauseSubscription\":", "                self._subscribed_types.clear()\n                self._paused_types.clear()\n            else:\n                self._subscribed_types -= msg_set\n                self._paused_types -= msg_set\n        elif ctrl_msg == \"PauseSubscription\":"),
    ("C02", "manager-ignores-pause", M, "        self.remove_subscription(src_module, msg)\n\n    def register_module_ready", "        pass\n\n    def register_module_ready"),
    ("C02", "context-exit-resubscribes-paused", C, "        if was_paused:\n            self.pause_subscription(was_paused)", "        if len(was_paused) > 1:\n            self.pause_subscription(was_paused)"),
    ("C03", "except-narrowed", M, "                                except ConnectionError as err:\n                                    self.disconnect_module(src)", "                                except BrokenPipeError as err:\n                                    self.disconnect_module(src)"),
    ("C07", "short-payload-read-accepted", M, "            if nbytes != data_size:\n                mod = self.modules[sock]", "            if nbytes == 0 and data_size:\n                mod = self.modules[sock]"),
    ("C03", "size-check-upper-only", M, "        if data_size < 0 or data_size > len(self.data_buffer):", "        if data_size > len(self.data_buffer):"),
    ("C03", "setname-decode-unguarded", M, "        try:\n            src_module.name = name_msg.name or \"\"\n        except UnicodeDecodeError:", "        try:\n            src_module.name = name_msg.name or \"\"\n        except UnicodeEncodeError:"),
]


def run_one(entry, scale, seeded_dir=None):
    prop, name = entry[0], entry[1]
    tmp = tempfile.mkdtemp(prefix=f"verif_mut_{prop}_")
    try:
        shutil.copytree("/repo/src", os.path.join(tmp, "src"), ignore=shutil.ignore_patterns("__pycache__", "*.egg-info"))
        if seeded_dir:
            r = subprocess.run(["patch", "-p1", "-s", "-i", os.path.join(seeded_dir, "patch.diff")], cwd=tmp, capture_output=True, text=True)
            if r.returncode:
                return prop, name, "PATCH-FAILED", r.stdout + r.stderr, 0.0
        else:
            _, _, rel, old, new = entry
            path = os.path.join(tmp, rel)
            s = open(path).read()
            if s.count(old) != 1:
                return prop, name, f"PATTERN-COUNT-{s.count(old)}", "", 0.0
            open(path, "w").write(s.replace(old, new))
        r = subprocess.run([sys.executable, "-c", "import sys; sys.path.insert(0, sys.argv[1]); import pyrtma.manager, pyrtma.client, pyrtma.compile",
                            os.path.join(tmp, "src")], capture_output=True, text=True)
        if r.returncode:
            return prop, name, "IMPORT-FAILED", r.stderr[-400:], 0.0
        env = dict(os.environ, VERIF_REPO=tmp, VERIF_OUT=os.path.join(tmp, "out"), VERIF_SCALE=str(scale))
        t0 = time.time()
        r = subprocess.run(["/venv/bin/python", os.path.join(HERE, "run.py"), prop, "--tier", "quick"], cwd=HERE, env=env,
                           capture_output=True, text=True)
        wall = time.time() - t0
        viol = [l for l in r.stdout.splitlines() if l.startswith("VIOLATION")]
        keys = [l.strip() for l in r.stdout.splitlines() if l.strip().startswith("key=")]
        if r.returncode == 1 and viol:
            return prop, name, "CAUGHT", "; ".join(keys[:3]), wall
        if r.returncode == 0:
            return prop, name, "MISSED", r.stdout.strip().splitlines()[-1] if r.stdout.strip() else "", wall
        return prop, name, f"EXIT-{r.returncode}", (r.stdout + r.stderr)[-600:], wall
    finally:
        shutil.rmtree(tmp, ignore_errors=True)


def main():
    ap = argparse.ArgumentParser()
    ap.add_argument("--only", default="")
    ap.add_argument("--seeded", action="store_true")
    ap.add_argument("--scale", type=float, default=1.0)
    ap.add_argument("--names", default="")
    args = ap.parse_args()
    only = set(filter(None, args.only.split(",")))
    names = set(filter(None, args.names.split(",")))
    entries = []
    if args.seeded:
        root = os.path.join(HERE, "seeded")
        for d in sorted(os.listdir(root)):
            meta = os.path.join(root, d, "meta.json")
            if os.path.exists(meta):
                m = json.load(open(meta))
                if m.get("superseded_by"):
                    continue  # applies to an earlier /repo only (see its meta.json)
                entries.append(((m["property"], d), os.path.join(root, d)))
    else:
        entries = [(e, None) for e in CATALOGUE]
    results = []
    for e, sd in entries:
        if only and e[0] not in only:
            continue
        if names and e[1] not in names:
            continue
        res = run_one(e, args.scale, sd)
        print(f"{res[0]} {res[1]:<40} {res[2]:<14} {res[4]:6.1f}s  {res[3]}", flush=True)
        results.append(res)
    bad = [r for r in results if r[2] != "CAUGHT"]
    print(f"{len(results) - len(bad)}/{len(results)} caught")
    return 1 if bad else 0


if __name__ == "__main__":
    sys.exit(main())
