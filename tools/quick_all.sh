#!/bin/bash
# run every claimed quick check once (VERIF_SEED honoured), print one line per check
cd "$(dirname "$0")/.."
for p in $(python3 -c "import json;print(' '.join(c['property_id'] for c in json.load(open('MANIFEST.json'))['checks']))"); do
  t0=$(date +%s)
  out=$(/venv/bin/python run.py $p --tier ${1:-quick} 2>&1); rc=$?
  echo "$p rc=$rc $(( $(date +%s) - t0 ))s $(echo "$out" | grep -E "^(VIOLATION|KNOWN-FINDING|HARNESS)" | head -3 | tr '\n' ' ') $(echo "$out" | tail -1 | cut -c1-120)"
done
