#!/venv/bin/python
"""Prepare a seeding round: one scratch git worktree of /repo and one prompt file per property.

  tools/seedprep.py <round-name> [--props C01,C02,...] [--root /tmp/seed]

For every property it creates  <root>/<round>/<ID>/wt  (git worktree of /repo HEAD, detached) and
<root>/<round>/<ID>/prompt.txt  holding the property text (from properties.jsonl), the one-line summaries of the
changes earlier rounds produced for that property (written by those rounds' authors; so that a new author looks for a
different mechanism) and the output format.  Nothing else of /verif reaches the author.
"""
import argparse
import json
import os
import subprocess

HERE = os.path.dirname(os.path.dirname(os.path.abspath(__file__)))

PLACES = """Places that earlier authors found fruitful (pick others if you see them): resource lifetimes; numeric width / sign /
truncation; the order of two effects of one operation; counters that wrap; rarely used switches and keyword arguments; interaction
with logging, periodic messages and timers; state that survives an error path; caches and memoisation; class-level (shared) mutable
state; behaviour that differs between the two header layouts (plain / timecode); behaviour that depends on what was done EARLIER on
the same object or in the same process; two cooperating edits in different functions that each look harmless alone."""


def main():
    ap = argparse.ArgumentParser()
    ap.add_argument("round")
    ap.add_argument("--props", default="")
    ap.add_argument("--root", default="/tmp/seed")
    a = ap.parse_args()
    props = {}
    for line in open(os.path.join(HERE, "properties.jsonl")):
        p = json.loads(line)
        props[p["id"]] = p
    want = [x for x in a.props.split(",") if x] or sorted(props)
    earlier = {}
    sd = os.path.join(HERE, "seeded")
    for d in sorted(os.listdir(sd)):
        mp = os.path.join(sd, d, "meta.json")
        if os.path.exists(mp):
            m = json.load(open(mp))
            earlier.setdefault(m.get("property"), []).append(m.get("summary", "")[:420])
    for pid in want:
        p = props[pid]
        base = os.path.join(a.root, a.round, pid)
        os.makedirs(base, exist_ok=True)
        wt = os.path.join(base, "wt")
        if not os.path.isdir(wt):
            subprocess.run(["git", "-C", "/repo", "worktree", "add", "--detach", wt, "HEAD"], check=True,
                           stdout=subprocess.DEVNULL, stderr=subprocess.DEVNULL)
        out = os.path.join(base, "out")
        os.makedirs(out, exist_ok=True)
        text = []
        text.append(f"PROPERTY {pid}: {p['title']}\n")
        text.append("Statement:\n" + p["statement"] + "\n")
        text.append("Quantified over:\n" + p["quantifier"]["text"] + "\n")
        text.append("Why the existing tests cannot settle it:\n" + p["why_tests_cant"] + "\n")
        text.append("Anchors (files / state / mechanisms the property lives in):\n" + json.dumps(p["anchors"], indent=1) + "\n")
        text.append("Changes that earlier authors already produced for this property (do NOT repeat these mechanisms; find "
                    "different ones):\n" + "\n".join(f" - {s}" for s in earlier.get(pid, [])) + "\n")
        text.append(PLACES + "\n")
        open(os.path.join(base, "prompt.txt"), "w").write("\n".join(text))
        print(pid, wt)


if __name__ == "__main__":
    main()
