#!/venv/bin/python
"""MANIFEST.setup_cmd: offline preparation of /verif after a fresh restore.

Installs (from the local wheelhouse only) what the checks need beside the repository's own
packages: hypothesis (if /venv lacks it) and atheris, into /verif/.deps.  Every check repeats the
hypothesis part on demand, so a failure here is not fatal for them.
"""
import os
import subprocess
import sys

HERE = os.path.dirname(os.path.dirname(os.path.abspath(__file__)))
DEPS = os.path.join(HERE, ".deps")
WHEELS = "/opt/veriftools/wheels"


def have(mod):
    sys.path.append(DEPS)
    try:
        __import__(mod)
        return True
    except Exception:
        return False
    finally:
        sys.path.remove(DEPS)


def pip(pkg):
    return subprocess.run([sys.executable, "-m", "pip", "install", "-q", "--no-index", "--find-links", WHEELS,
                           "--target", DEPS, pkg], stdout=subprocess.DEVNULL, stderr=subprocess.DEVNULL).returncode


def main():
    os.makedirs(DEPS, exist_ok=True)
    for mod, pkg in (("hypothesis", "hypothesis"), ("atheris", "atheris")):
        if not have(mod):
            rc = pip(pkg)
            print(f"install {pkg}: rc={rc}")
        else:
            print(f"{pkg}: present")
    for d in ("evidence", "replays"):
        os.makedirs(os.path.join(HERE, d), exist_ok=True)
    return 0


if __name__ == "__main__":
    sys.exit(main())
