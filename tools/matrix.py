#!/venv/bin/python
"""Cross-detection matrix: every seeded change against every listed property's quick check.
  tools/matrix.py [--props C01,C05,...] [--scale 0.5] > matrix.json (progress on stderr)"""
import argparse
import json
import os
import shutil
import subprocess
import sys
import tempfile
import time

HERE = os.path.dirname(os.path.dirname(os.path.abspath(__file__)))


def main():
    ap = argparse.ArgumentParser()
    ap.add_argument("--props", default="C01,C02,C03,C05,C06,C07,C14,C18,C19")
    ap.add_argument("--scale", default="0.5")
    ap.add_argument("--only", default="")
    a = ap.parse_args()
    props = a.props.split(",")
    out = {}
    root = os.path.join(HERE, "seeded")
    for d in sorted(os.listdir(root)):
        if a.only and not d.startswith(tuple(a.only.split(","))):
            continue
        patch = os.path.join(root, d, "patch.diff")
        if not os.path.exists(patch):
            continue
        if json.load(open(os.path.join(root, d, "meta.json"))).get("superseded_by"):
            continue  # applies to an earlier /repo only (see its meta.json)
        tmp = tempfile.mkdtemp(prefix="verif_matrix_")
        try:
            shutil.copytree("/repo/src", os.path.join(tmp, "src"), ignore=shutil.ignore_patterns("__pycache__", "*.egg-info"))
            r = subprocess.run(["patch", "-p1", "-s", "-i", patch], cwd=tmp, capture_output=True, text=True)
            if r.returncode:
                out[d] = {"error": "patch failed"}
                continue
            row = {}
            for p in props:
                env = dict(os.environ, VERIF_REPO=tmp, VERIF_OUT=os.path.join(tmp, "out"), VERIF_SCALE=a.scale)
                t0 = time.time()
                r = subprocess.run(["/venv/bin/python", os.path.join(HERE, "run.py"), p, "--tier", "quick"], cwd=HERE, env=env, capture_output=True, text=True)
                keys = [l.strip()[4:].split(" ")[0] for l in r.stdout.splitlines() if l.strip().startswith("key=")]
                row[p] = {"exit": r.returncode, "keys": sorted(set(keys))[:3], "s": round(time.time() - t0)}
                print(d, p, r.returncode, row[p]["keys"], file=sys.stderr, flush=True)
            out[d] = row
        finally:
            shutil.rmtree(tmp, ignore_errors=True)
    json.dump(out, sys.stdout, indent=1)


if __name__ == "__main__":
    main()
