#!/bin/bash
# usage: demo_check.sh <name> : applies patch in a private worktree and runs the demo; prints STALE/OK/NOAPPLY
n=$1; WT=/tmp/dc_$n
grep -q superseded_by /verif/seeded/$n/meta.json && { echo "SUPERSEDED $n"; exit 0; }
git -C /repo worktree add --detach $WT HEAD -q 2>/dev/null || { echo "WTFAIL $n"; exit 0; }
cd $WT
if git apply /verif/seeded/$n/patch.diff 2>/dev/null; then
  PYTHONPATH=$WT/src timeout 300 /venv/bin/python /verif/seeded/$n/demo.py >/dev/null 2>&1; rc=$?
  if [ $rc = 0 ]; then echo "STALE $n"; else echo "OK $n"; fi
else echo "NOAPPLY $n"; fi
cd /; git -C /repo worktree remove --force $WT 2>/dev/null
