"""History generator for Engine A.

Hypothesis draws a list of *raw* operations (small integer tuples).  `resolve` maps a raw
operation onto the current state of the World (construction, not rejection: selectors are taken
modulo the number of available choices) and returns a *concrete* operation, which is what gets
executed, recorded in the trace and written to replay files.
"""
from __future__ import annotations

from dataclasses import dataclass, field
from typing import List, Optional

from hypothesis import strategies as st

from . import proto as P
from .common import HarnessError
from .world import World

OPEN, CONNECT, SUB, PUB, READY, SETNAME, DISCONNECT, CLOSE, STEP, FAULT, BURST, HFRAME, HCTRL, HGARBAGE, HCLOSE, HMASS, PROBE, SLOW = range(18)

TYPES_U = [1234, 5000, 33, 8, 0, 2, 100, 9999, 10000, 65536, -1, 2 ** 31 - 2, -(2 ** 31), 42, 80]
SIZES = [0, 8, 1, 7, 64, 4096, 65535]
NAMES = ["", "alpha", "beta", "alpha", "gamma"]


@dataclass
class Profile:
    name: str
    oracles: set
    weights: dict
    max_conns: int = 6
    types: List[int] = field(default_factory=lambda: list(TYPES_U))
    sizes: List[int] = field(default_factory=lambda: list(SIZES))
    static_ids: List[int] = field(default_factory=lambda: [10, 11, 12, 50, 99, 1])
    dts: List[float] = field(default_factory=lambda: [0.0, 0.0, 0.0, 0.5, 2.0, 6.0])
    close_modes: List[str] = field(default_factory=lambda: ["silent"])
    partial_close: bool = False
    writable_all_bias: int = 3  # of 4 draws, how many make everybody writable
    p_logger: int = 5  # 1 in p_logger connects is a logger
    clash_ids: bool = False  # may request ids that collide / are out of range
    clash_extra: tuple = (100, 101, 199, 200, -1, 32767)  # requested ids besides 0, the static ids and ids held by live modules
    dyn_ratio: int = 3  # 1 in dyn_ratio connects asks for a dynamic id
    pipelining: bool = True
    max_pending_pubs: int = 6
    setup_ops: list = field(default_factory=list)  # concrete ops executed first (monitors ...)
    protected: tuple = ()  # connection indices that never leave, never fail and are always writable
    fault_exact_only: bool = True  # inject write faults only where the model can predict the victim frame
    allow_all: bool = True  # well-behaved clients may subscribe to ALL_MESSAGE_TYPES
    allow_dynamic: bool = True
    max_hostile: int = 6
    zero_source: bool = False  # connected modules sometimes publish with source id 0 (payloads >= 8 bytes only)
    preconnect_subs: int = 8  # 1 in N subscription requests comes from a connection that has not sent CONNECT yet (0 = never)

    def codes(self):
        out = []
        for code, w in self.weights.items():
            out += [code] * w
        return out


def raw_ops(profile: Profile, max_len: int, min_len: int = 12, min_clients: int = 2):
    """(setup connects, random operations).  The setup opens and connects a few clients and lets
    the manager process that (so that histories start in a populated state by construction)."""
    codes = profile.codes()
    arg = st.integers(0, 65535)
    setup = st.lists(st.tuples(st.just(CONNECT), arg, arg, arg, arg, arg), min_size=min_clients,
                     max_size=profile.max_conns)
    subs = st.lists(st.tuples(st.just(SUB), arg, st.just(0), arg, arg, arg), min_size=min_clients, max_size=8)
    body = st.lists(st.tuples(st.sampled_from(codes), arg, arg, arg, arg, arg), min_size=min_len, max_size=max_len)
    return st.tuples(setup, subs, body)


def _usable(w: World, well_behaved=True) -> list:
    """Connections that may send protocol traffic now."""
    out = []
    for m in w.mods:
        if m.client_closed or getattr(m, "h_disconnect", False) or getattr(m, "h_refused", False):
            continue
        if not getattr(m, "h_connect", False):
            continue
        if m.id_pending or (getattr(m, "h_dynamic", False) and not m.connected):
            continue  # a dynamic-id client learns its id from the ACK before it does anything else
        if m.conn.manager_closed:
            continue
        out.append(m)
    return out


def _pick_type(pf: Profile, sel: int, with_all: bool) -> int:
    """Three of four draws come from the first four types so that subscriptions and publishes
    collide; ALL_MESSAGE_TYPES only for subscription control."""
    main = pf.types[:4]
    if sel % 4 != 3:
        return main[(sel // 4) % len(main)]
    sel //= 4
    pool = pf.types + ([P.ALL_MESSAGE_TYPES] * 3 if (with_all and pf.allow_all) else [])
    return pool[sel % len(pool)]


def _perm(items: list, code: int) -> list:
    items = list(items)
    out = []
    while items:
        k = code % len(items)
        code //= len(items)
        out.append(items.pop(k))
    return out


def resolve(w: World, raw, pf: Profile) -> Optional[dict]:
    code, a, b, c, d, e = raw
    if code == OPEN:
        live = [m for m in w.mods if not m.client_closed]
        if len(live) >= pf.max_conns or len(w.mods) >= pf.max_conns * 3:
            return None
        return {"op": "open"}
    if code == CONNECT and e % 6 == 5:
        # a module that has completed its handshake sends a connect frame again (a retrying raw client):
        # it must be ignored - not acknowledged, nothing re-assigned
        again = [m for m in _usable(w) if m.connected and m.idx not in pf.protected]
        if again:
            m = again[a % len(again)]
            rid = [m.mod_id, 0, m.mod_id, 55][b % 4]
            return {"op": "connect", "c": m.idx, "ver": ["v2", "v1", "v2v1"][c % 3], "id": rid, "logger": (c // 3) % 2,
                    "daemon": 0, "multi": (c // 6) % 2, "name": ["", "again"][d % 2], "pid": 3000 + m.idx}
    if code == CONNECT:
        fresh = [m for m in w.mods if not m.client_closed and not getattr(m, "h_connect", False)]
        if not fresh:
            if len([m for m in w.mods if not m.client_closed]) < pf.max_conns and len(w.mods) < pf.max_conns * 3:
                return {"op": "open"}
            return None
        m = fresh[a % len(fresh)]
        held = [x.mod_id for x in w.mods if x.tracked and x.mod_id > 0]
        if pf.clash_ids:
            pool = [0] + pf.static_ids + held[:3] + list(pf.clash_extra)
            rid = pool[b % len(pool)]
        else:
            if pf.allow_dynamic and b % pf.dyn_ratio == 0:
                rid = 0
            else:
                queued = {getattr(x, "h_id", None) for x in w.mods if not x.client_closed or x.tracked}
                free = [i for i in pf.static_ids if i not in held and i not in queued]
                if not free:
                    if not pf.allow_dynamic:
                        return None
                    rid = 0
                else:
                    rid = free[(b // pf.dyn_ratio) % len(free)]
        ver = ["v2v1", "v1", "v2"][c % 3]
        logger = 1 if (c // 3) % pf.p_logger == pf.p_logger - 1 else 0
        multi = 1 if (c // 64) % 4 == 3 and pf.clash_ids else 0
        daemon = (c // 256) % 2
        if pf.clash_ids:
            name = NAMES[d % len(NAMES)]
        else:
            name = "" if d % 2 == 0 else f"mod{m.idx}"
        m.h_connect = True
        m.h_dynamic = rid == 0
        m.h_id = rid
        op = {"op": "connect", "c": m.idx, "ver": ver, "id": rid, "logger": logger, "daemon": daemon,
              "multi": multi, "name": name, "pid": 1000 + m.idx}
        if ver != "v1" and e % 11 == 6:
            op["hdm"], op["hdh"] = [(201, 0), (0, 6), (-1, -1), (32767, 32767)][(e // 11) % 4]
        if ver != "v1" and name == "" and e % 7 == 3:
            op["short"] = 1
        if ver != "v1" and e % 6 == 5:
            # CONNECT_V2 names the requested id in its body; a foreign client may put anything into the header's source field
            op["hsrc"] = [0, 7, 150, 42, -1, 99][(e // 6) % 6]
        return op
    if code == SUB and pf.preconnect_subs and e % pf.preconnect_subs == 1:
        # a raw client may send subscription requests before it sends CONNECT (module id 0 until then)
        fresh = [m for m in w.mods if not m.client_closed and not getattr(m, "h_connect", False) and not m.conn.manager_closed]
        if fresh:
            m = fresh[a % len(fresh)]
            kind = ["SUBSCRIBE", "UNSUBSCRIBE", "PAUSE", "RESUME"][[0, 0, 0, 1, 2, 3, 0, 1][b % 8]]
            return {"op": "sub", "c": m.idx, "kind": kind, "type": _pick_type(pf, c, with_all=pf.allow_all), "pre": 1}
    if code in (SUB, PUB, READY, SETNAME, DISCONNECT, BURST):
        us = _usable(w)
        if not us:
            return None
        m = us[a % len(us)]
        if not pf.pipelining and not m.connected:
            return None
        if code == SUB:
            kind = ["SUBSCRIBE", "UNSUBSCRIBE", "PAUSE", "RESUME"][[0, 0, 0, 1, 2, 3, 0, 1][b % 8]]
            t = _pick_type(pf, c, with_all=True)
            op = {"op": "sub", "c": m.idx, "kind": kind, "type": t}
            if e % 9 == 4:
                op["hdm"], op["hdh"] = [(201, 0), (-1, 0), (0, 6), (0, 32767), (32767, 32767), (7, 3)][(e // 9) % 6]
            if d % 5 == 0:
                op["seg"] = [1, w.sim.hsize - 1, w.sim.hsize, w.sim.hsize + 2][(d // 5) % 4]
            return op
        if code == PUB:
            if sum(1 for u in m.queue if u["kind"] == "pub") >= pf.max_pending_pubs:
                return None
            t = _pick_type(pf, b, with_all=False)
            held = [x.mod_id for x in w.mods if x.tracked and x.mod_id > 0]
            dmpool = [0] * 6 + (held[:4] * 2) + [150, 199, 200, 201, -1]
            dm = dmpool[c % len(dmpool)]
            dhpool = [0] * 9 + [1, 5, 3, 6, -1, 32767]
            dh = dhpool[d % len(dhpool)]
            szpool = pf.sizes
            # the largest sizes at low weight
            size = szpool[e % len(szpool)] if (e // 16) % 4 == 0 else szpool[e % min(5, len(szpool))]
            src = m.mod_id if m.connected else m.h_id
            if pf.zero_source and m.connected and size >= 8 and t not in World.MGR_TYPES and (e // 1024) % 6 == 0:
                src = 0  # the source id is a header field like any other: a connected module may leave it 0
            op = {"op": "pub", "c": m.idx, "type": t, "dm": dm, "dh": dh, "size": size, "src": src}
            if (e // 64) % 4 == 0:
                # the frame reaches the manager in two pieces (only the first has arrived when it is served)
                hs = w.sim.hsize
                op["seg"] = [1, hs - 1, hs, hs + 1, hs + max(size // 2, 1), 4][(e // 256) % 6]
            return op
        if code == BURST:
            # many distinct message types from one sender within one statistics interval
            if not m.connected or m.queue:
                return None
            return {"op": "storm", "c": m.idx, "n": [66, 70, 130, 65][b % 4], "base": 20000 + (c % 40) * 200, "src": m.mod_id}
        if code == READY:
            return {"op": "ready", "c": m.idx, "pid": 2000 + (b % 50)}
        if code == SETNAME:
            return {"op": "setname", "c": m.idx, "name": f"n{b % 7}"}
        if code == DISCONNECT:
            if m.idx in pf.protected:
                return None
            m.h_disconnect = True
            return {"op": "disconnect", "c": m.idx}
    if code == CLOSE:
        live = [m for m in w.mods if not m.client_closed and m.idx not in pf.protected]
        if not live:
            return None
        m = live[a % len(live)]
        how = "fin" if b % 2 == 0 else "rst"
        gone = pf.close_modes[c % len(pf.close_modes)]
        part = 0
        if pf.partial_close and d % 3 == 0:
            part = 1 + (d // 3) % (w.sim.hsize + 63)
        op = {"op": "close", "c": m.idx, "how": how, "gone": gone}
        if part:
            op["partial"] = part
        return op
    if code == SLOW:
        # a live, connected client reads slowly: its window takes `after` more bytes, then it pauses (see FakeSocket.slow_after)
        vict = [m for m in _usable(w) if m.connected and m.idx not in pf.protected]
        if not vict:
            return None
        m = vict[a % len(vict)]
        hs = w.sim.hsize
        pool = [0, 1, hs - 1, hs, hs + 1, hs + 7, hs + 8, hs + 63, 2 * hs + 8, 3 * hs + 70, 4 + (c % 300)]
        return {"op": "slow", "c": m.idx, "after": pool[b % len(pool)]}
    if code == FAULT:
        # a write to a live, connected client fails after `after` more bytes.  Only clients whose next
        # incoming frame the model can predict: no acknowledgement pending, no manager-originated
        # subscriptions, not a logger.
        vict = [m for m in _usable(w) if m.idx not in pf.protected and m.connected and m.fault_left is None
                and not m.queue and not m.logger and not m.A and not (m.S & World.MGR_TYPES) and m.S]
        if not vict:
            return None
        m = vict[a % len(vict)]
        hs = w.sim.hsize
        pool = [0, 1, hs - 1, hs, hs + 1, hs + 7, hs + 8, hs + 63, hs + 64, 2 * hs + 8, 4 + (c % 200)]
        m.h_disconnect = True  # the client does nothing more: its connection is about to die
        return {"op": "fault", "c": m.idx, "after": pool[b % len(pool)], "exc": "epipe" if d % 2 == 0 else "reset"}
    if code == STEP:
        cand = w.ready_candidates()
        if not cand:
            return None
        mask = a
        sel = [x for i, x in enumerate(cand) if (mask >> i) & 1] if a % 3 else list(cand)
        if not sel:
            sel = [cand[a % len(cand)]]
        sel = _perm(sel, b)
        acc = [m.idx for m in w.mods if (m.accepted or m in w.backlog) and not (m.client_closed and not m.tracked)]
        acc += [f"h{h.idx}" for h in w.hmods if not h.conn.m.closed][:12]
        if c % 4 < pf.writable_all_bias:
            wr = acc
        else:
            wr = [x for i, x in enumerate(acc) if ((c >> 2) >> i) & 1]
        wr = sorted(set(wr) | {i for i in pf.protected if i < len(w.mods)}, key=str)
        dt = pf.dts[d % len(pf.dts)]
        return {"op": "step", "ready": sel, "writable": wr, "dt": dt}
    return None



# ---- hostile input -----------------------------------------------------------------------------
import hashlib as _hl
import struct as _st

INT32B = [-2 ** 31, -1, 0, 1, 2 ** 31 - 1, 2 ** 31 - 2, 65536, 10000, 9999, 777]
INT16B = [-32768, -1, 0, 1, 32767, 200, 201, 5, 6, 199]
UINT32B = [0, 1, 2 ** 32 - 1, 2 ** 31]
DBLB = [0.0, float("inf"), float("-inf"), float("nan"), 1e308, 5e-324, -0.0]
NBYTES = [-2 ** 31, -1, 2 ** 20 + 1, 2 ** 31 - 1, 2 ** 20, 70000, 0, 1]
HPOOL = [0, 60, 61, 62, 100, 101, 199, 200, -1, 32767, -32768, 0, 0]
HNAMES = [b"", b"hx", b"\xff\xfe\x80", b"A" * 32, b"caf\xc3\xa9", b"hx\x00junk", bytes(range(128, 160)),
          # text that means something to the console log formatter (rich markup), to str.format and to %-formatting
          b"[/b]", b"x[/]y", b"[bold red", b"\\[/]", b"{0}{name!r}", b"%s%d%(x)s", b"a\nb\r\x1b[31m"]
HTYPE = 777
HFIELDS = ["msg_type", "msg_count", "send_time", "recv_time", "src_host_id", "src_mod_id", "dest_host_id",
           "dest_mod_id", "num_data_bytes", "remaining_bytes", "is_dynamic", "reserved", "all"]
KW = dict(msg_type="msg_type", msg_count="msg_count", send_time="send_time", recv_time="recv_time", src_host_id="src_host",
          src_mod_id="src_mod", dest_host_id="dest_host", dest_mod_id="dest_mod", remaining_bytes="remaining",
          is_dynamic="is_dynamic", reserved="reserved")
VALS = dict(msg_type=INT32B, msg_count=INT32B, send_time=DBLB, recv_time=DBLB, src_host_id=INT16B, src_mod_id=INT16B,
            dest_host_id=INT16B, dest_mod_id=INT16B, remaining_bytes=INT32B, is_dynamic=INT32B, reserved=UINT32B)


def _prng(n: int, *key) -> bytes:
    out = b""
    i = 0
    while len(out) < n:
        out += _hl.sha256(repr((key, i)).encode()).digest()
        i += 1
    return out[:n]


def _safe_type(t, conv):
    """Hostile publishes never use a type a well-behaved client may subscribe to."""
    return HTYPE if t in conv else t


def protocol_frames(tc: bool, sel: int = 0):
    """The nine control frames (well-formed) and one data frame, as a hostile client would send them."""
    hid = HPOOL[1 + sel % 3]
    return [
        ("CONNECT_V2", P.build(P.MT_CONNECT_V2, P.CONNECT_V2.pack(0, 0, 0, hid, 5, P.cstr(b"hx")), src_mod=hid, timecode=tc)),
        ("CONNECT", P.build(P.MT_CONNECT, P.CONNECT.pack(0, 0), src_mod=hid, timecode=tc)),
        ("SUBSCRIBE", P.build(P.MT_SUBSCRIBE, P.SUBSCRIBE.pack(HTYPE), src_mod=hid, timecode=tc)),
        ("UNSUBSCRIBE", P.build(P.MT_UNSUBSCRIBE, P.SUBSCRIBE.pack(HTYPE), src_mod=hid, timecode=tc)),
        ("PAUSE", P.build(P.MT_PAUSE_SUBSCRIPTION, P.SUBSCRIBE.pack(HTYPE), src_mod=hid, timecode=tc)),
        ("RESUME", P.build(P.MT_RESUME_SUBSCRIPTION, P.SUBSCRIBE.pack(P.ALL_MESSAGE_TYPES), src_mod=hid, timecode=tc)),
        ("MODULE_READY", P.build(P.MT_MODULE_READY, P.MODULE_READY.pack(77), src_mod=hid, timecode=tc)),
        ("SET_NAME", P.build(P.MT_CLIENT_SET_NAME, P.cstr(b"hname"), src_mod=hid, timecode=tc)),
        ("DISCONNECT", P.build(P.MT_DISCONNECT, b"", src_mod=hid, timecode=tc)),
        ("DATA", P.build(HTYPE, _prng(64, "d"), src_mod=hid, timecode=tc)),
    ]


def _hostile_target(w: World, pf: Profile, sel: int):
    """Index of a live hostile connection; None => a new one has to be opened."""
    live = [h for h in w.hmods if not h.client_closed and not h.conn.m.closed]
    if not live or (sel % 5 == 0 and len(live) < pf.max_hostile):
        return None
    return live[sel % len(live)].idx


def resolve_hostile(w: World, raw, pf: Profile):
    """Returns a list of concrete ops."""
    code, a, b, c, d, e = raw
    tc = w.timecode
    conv = set(pf.types)
    tgt = _hostile_target(w, pf, a)
    pre = []
    if tgt is None:
        if len(w.hmods) >= 40:
            return []
        pre = [{"op": "hopen"}]
        tgt = len(w.hmods)
    if code == HFRAME:
        field = HFIELDS[b % len(HFIELDS)]
        size = [0, 8, 100][d % 3]
        payload = _prng(size, "p", c)
        kw = dict(src_mod=HPOOL[1 + e % 3])
        then = None
        if field == "num_data_bytes":
            n = NBYTES[c % len(NBYTES)]
            if 0 <= n <= 2 ** 20 + 1:
                payload = _prng(n, "n")
                fr = P.build(HTYPE, payload, timecode=tc, **kw)
            else:
                fr = P.build(HTYPE, payload, num_data_bytes=n, timecode=tc, **kw)
                then = "fin" if e % 2 else "rst"
            desc = f"field:num_data_bytes={n}"
        elif field == "all":
            vals = {KW[f]: VALS[f][(c + i) % len(VALS[f])] for i, f in enumerate(KW)}
            vals["msg_type"] = _safe_type(vals["msg_type"], conv)
            fr = P.build(vals.pop("msg_type"), payload, timecode=tc, **vals)
            desc = "field:all-boundaries"
        else:
            v = VALS[field][c % len(VALS[field])]
            if field == "msg_type":
                fr = P.build(_safe_type(v, conv), payload, timecode=tc, **kw)
            else:
                kw[KW[field]] = v
                fr = P.build(HTYPE, payload, timecode=tc, **kw)
            desc = f"field:{field}={v}"
        op = {"op": "hsend", "h": tgt, "hex": fr.hex(), "desc": desc}
        if then:
            op["then"] = then
        return pre + [op]
    if code == HCTRL:
        ctl = [P.MT_CONNECT_V2, P.MT_CONNECT, P.MT_SUBSCRIBE, P.MT_UNSUBSCRIBE, P.MT_PAUSE_SUBSCRIPTION,
               P.MT_RESUME_SUBSCRIPTION, P.MT_MODULE_READY, P.MT_CLIENT_SET_NAME, P.MT_DISCONNECT][b % 9]
        variant = c % 5  # 0 crafted, 1 long, 2 short, 3 garbage of exact size, 4 crafted with hostile name
        hid = HPOOL[d % len(HPOOL)]
        name = HNAMES[e % len(HNAMES)]
        sizes = {P.MT_CONNECT_V2: 44, P.MT_CONNECT: 4, P.MT_SUBSCRIBE: 4, P.MT_UNSUBSCRIBE: 4, P.MT_PAUSE_SUBSCRIPTION: 4,
                 P.MT_RESUME_SUBSCRIPTION: 4, P.MT_MODULE_READY: 4, P.MT_CLIENT_SET_NAME: 32, P.MT_DISCONNECT: 0}
        if ctl == P.MT_CONNECT_V2:
            flags = [0, 1, 2, -1, 32767]
            payload = P.CONNECT_V2.pack(flags[e % 5], flags[(e // 5) % 5], flags[(e // 25) % 5], hid, INT32B[e % len(INT32B)],
                                        name[:32].ljust(32, b"\0"))
        elif ctl == P.MT_CONNECT:
            flags = [0, 1, 2, -1, 32767]
            payload = P.CONNECT.pack(flags[e % 5], flags[(e // 5) % 5])
        elif ctl == P.MT_CLIENT_SET_NAME:
            payload = name[:32].ljust(32, b"\0")
        elif ctl == P.MT_MODULE_READY:
            payload = P.MODULE_READY.pack(INT32B[e % len(INT32B)])
        elif ctl == P.MT_DISCONNECT:
            payload = b""
        else:
            tsel = (INT32B + [P.ALL_MESSAGE_TYPES, 1234, 5000, 8, 33, 32])[e % (len(INT32B) + 6)]
            payload = P.SUBSCRIBE.pack(tsel)
        is_conn = ctl in (P.MT_CONNECT_V2, P.MT_CONNECT)
        if variant == 1:
            payload = payload + _prng(500, "long", e)
        elif variant == 2 and not is_conn:
            payload = payload[: e % 2]
        elif variant == 3 and not is_conn:
            payload = _prng(sizes[ctl], "g", e)
        fr = P.build(ctl, payload, src_mod=hid, timecode=tc)
        return pre + [{"op": "hsend", "h": tgt, "hex": fr.hex(), "desc": f"ctrl:{ctl}/v{variant}/id{hid}/name{e % len(HNAMES)}"}]
    if code == HGARBAGE:
        n = [1, 47, 48, 49, 56, 100, 1000, 5000][b % 8]
        return pre + [{"op": "hsend", "h": tgt, "hex": _prng(n, "junk", c).hex(), "then": "fin" if d % 2 else "rst",
                       "gone": ["silent", "epipe", "reset", "first-ok"][e % 4], "desc": f"garbage:{n}"}]
    if code == HCLOSE:
        frames = protocol_frames(tc, d)
        nm, fr = frames[b % len(frames)]
        k = c % (len(fr) + 1)
        return pre + [{"op": "hsend", "h": tgt, "hex": fr[:k].hex(), "then": "fin" if d % 2 else "rst",
                       "gone": ["silent", "epipe", "reset", "first-ok"][e % 4], "desc": f"cut:{nm}@{k}"}]
    if code == HMASS:
        if getattr(w, "mass_done", False):
            return []
        w.mass_done = True
        n = [50, 150, 300][b % 3]
        hello = P.build(P.MT_CONNECT, P.CONNECT.pack(0, 0), src_mod=0, timecode=tc) if c % 2 == 0 else b""
        return [{"op": "hopen", "n": n, "hex": hello.hex()}]
    return []


def probe(w: World):
    """A fresh well-behaved pair must still be served: connect -> ACK -> subscribe -> publish -> receive."""
    a = len(w.mods)
    for k, rid in enumerate((95, 96)):
        w.apply({"op": "open"})
        w.apply({"op": "connect", "c": a + k, "ver": "v2v1", "id": rid, "logger": 0, "daemon": 0, "multi": 0,
                 "name": f"probe{k}", "pid": 9500 + k})
    w.drain()
    w.apply({"op": "sub", "c": a, "kind": "SUBSCRIBE", "type": 4321})
    w.drain()
    w.apply({"op": "pub", "c": a + 1, "type": 4321, "dm": 0, "dh": 0, "size": 8, "src": 96})
    w.drain()
    if a not in w.pubs[w.seq]["recipients"]:
        raise HarnessError("probe: model did not expect the delivery")
    if w.seq not in w.received_log.get(a, []):
        # observed directly, whatever oracles are switched on
        w.viol("probe/not-delivered", f"a fresh pair of modules connected and subscribed, but the published probe message did not reach "
               f"the subscriber (conn {a})")
    w.apply({"op": "disconnect", "c": a})
    w.apply({"op": "disconnect", "c": a + 1})
    w.drain()
    w.stats["probes"] += 1


def run_history(cfg: dict, pf: Profile, raws, prop: str, setup_ops: Optional[list] = None) -> World:
    """Execute one generated history; raises Violation.  Returns the world (closed)."""
    w = World(cfg, pf.oracles, prop)
    try:
        for op in (setup_ops or []) + list(pf.setup_ops):
            w.apply(op)
            if op["op"] == "connect":
                m = w.mods[op["c"]]
                m.h_connect, m.h_dynamic, m.h_id = True, op["id"] == 0, op["id"]
        if pf.setup_ops:
            w.drain()
        setup, subs, raws = raws
        for raw in setup:
            w.apply({"op": "open"})
            op = resolve(w, raw, pf)
            if op is not None:
                w.apply(op)
        w.drain()
        for raw in subs:
            op = resolve(w, raw, pf)
            if op is not None:
                w.apply(op)
        w.drain()
        for raw in raws:
            if raw[0] in (HFRAME, HCTRL, HGARBAGE, HCLOSE, HMASS):
                for op in resolve_hostile(w, raw, pf):
                    w.apply(op)
                continue
            if raw[0] == PROBE:
                probe(w)
                continue
            op = resolve(w, raw, pf)
            if op is not None:
                w.apply(op)
        w.drain()
        if PROBE in pf.weights:
            probe(w)
        w.final_checks()
        return w
    finally:
        w.close()


def replay_history(trace: dict, prop: str) -> World:
    w = World(trace["cfg"], set(trace["oracles"]), prop)
    try:
        for op in trace["ops"]:
            w.apply(op)
        w.final_checks()
        return w
    finally:
        w.close()
