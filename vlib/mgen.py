"""History generator for Engine A.

Hypothesis draws a list of *raw* operations (small integer tuples).  `resolve` maps a raw
operation onto the current state of the World (construction, not rejection: selectors are taken
modulo the number of available choices) and returns a *concrete* operation, which is what gets
executed, recorded in the trace and written to replay files.
"""
from __future__ import annotations

from dataclasses import dataclass, field
from typing import List, Optional

from hypothesis import strategies as st

from . import proto as P
from .world import World

OPEN, CONNECT, SUB, PUB, READY, SETNAME, DISCONNECT, CLOSE, STEP, FAULT, BURST = range(11)

TYPES_U = [1234, 5000, 33, 8, 0, 2, 100, 9999, 10000, 65536, -1, 2 ** 31 - 2, -(2 ** 31), 42, 80]
SIZES = [0, 8, 1, 7, 64, 4096, 65535]
NAMES = ["", "alpha", "beta", "alpha", "gamma"]


@dataclass
class Profile:
    name: str
    oracles: set
    weights: dict
    max_conns: int = 6
    types: List[int] = field(default_factory=lambda: list(TYPES_U))
    sizes: List[int] = field(default_factory=lambda: list(SIZES))
    static_ids: List[int] = field(default_factory=lambda: [10, 11, 12, 50, 99, 1])
    dts: List[float] = field(default_factory=lambda: [0.0, 0.0, 0.0, 0.5, 2.0, 6.0])
    close_modes: List[str] = field(default_factory=lambda: ["silent"])
    partial_close: bool = False
    writable_all_bias: int = 3  # of 4 draws, how many make everybody writable
    p_logger: int = 5  # 1 in p_logger connects is a logger
    clash_ids: bool = False  # may request ids that collide / are out of range
    dyn_ratio: int = 3  # 1 in dyn_ratio connects asks for a dynamic id
    pipelining: bool = True
    max_pending_pubs: int = 6
    setup_ops: list = field(default_factory=list)  # concrete ops executed first (monitors ...)
    protected: tuple = ()  # connection indices that never leave, never fail and are always writable
    fault_exact_only: bool = True  # inject write faults only where the model can predict the victim frame

    def codes(self):
        out = []
        for code, w in self.weights.items():
            out += [code] * w
        return out


def raw_ops(profile: Profile, max_len: int, min_len: int = 12, min_clients: int = 2):
    """(setup connects, random operations).  The setup opens and connects a few clients and lets
    the manager process that (so that histories start in a populated state by construction)."""
    codes = profile.codes()
    arg = st.integers(0, 65535)
    setup = st.lists(st.tuples(st.just(CONNECT), arg, arg, arg, arg, arg), min_size=min_clients,
                     max_size=profile.max_conns)
    subs = st.lists(st.tuples(st.just(SUB), arg, st.just(0), arg, arg, arg), min_size=min_clients, max_size=8)
    body = st.lists(st.tuples(st.sampled_from(codes), arg, arg, arg, arg, arg), min_size=min_len, max_size=max_len)
    return st.tuples(setup, subs, body)


def _usable(w: World, well_behaved=True) -> list:
    """Connections that may send protocol traffic now."""
    out = []
    for m in w.mods:
        if m.client_closed or getattr(m, "h_disconnect", False) or getattr(m, "h_refused", False):
            continue
        if not getattr(m, "h_connect", False):
            continue
        if m.id_pending or (getattr(m, "h_dynamic", False) and not m.connected):
            continue  # a dynamic-id client learns its id from the ACK before it does anything else
        if m.conn.manager_closed:
            continue
        out.append(m)
    return out


def _pick_type(pf: Profile, sel: int, with_all: bool) -> int:
    """Three of four draws come from the first four types so that subscriptions and publishes
    collide; ALL_MESSAGE_TYPES only for subscription control."""
    main = pf.types[:4]
    if sel % 4 != 3:
        return main[(sel // 4) % len(main)]
    sel //= 4
    pool = pf.types + ([P.ALL_MESSAGE_TYPES] * 3 if with_all else [])
    return pool[sel % len(pool)]


def _perm(items: list, code: int) -> list:
    items = list(items)
    out = []
    while items:
        k = code % len(items)
        code //= len(items)
        out.append(items.pop(k))
    return out


def resolve(w: World, raw, pf: Profile) -> Optional[dict]:
    code, a, b, c, d, e = raw
    if code == OPEN:
        live = [m for m in w.mods if not m.client_closed]
        if len(live) >= pf.max_conns or len(w.mods) >= pf.max_conns * 3:
            return None
        return {"op": "open"}
    if code == CONNECT:
        fresh = [m for m in w.mods if not m.client_closed and not getattr(m, "h_connect", False)]
        if not fresh:
            if len([m for m in w.mods if not m.client_closed]) < pf.max_conns and len(w.mods) < pf.max_conns * 3:
                return {"op": "open"}
            return None
        m = fresh[a % len(fresh)]
        held = [x.mod_id for x in w.mods if x.tracked and x.mod_id > 0]
        if pf.clash_ids:
            pool = [0] + pf.static_ids + held[:3] + [100, 101, 199, 200, -1, 32767]
            rid = pool[b % len(pool)]
        else:
            if b % pf.dyn_ratio == 0:
                rid = 0
            else:
                queued = {getattr(x, "h_id", None) for x in w.mods if not x.client_closed or x.tracked}
                free = [i for i in pf.static_ids if i not in held and i not in queued]
                if not free:
                    rid = 0
                else:
                    rid = free[(b // pf.dyn_ratio) % len(free)]
        ver = ["v2v1", "v1", "v2"][c % 3]
        logger = 1 if (c // 3) % pf.p_logger == pf.p_logger - 1 else 0
        multi = 1 if (c // 64) % 4 == 3 and pf.clash_ids else 0
        daemon = (c // 256) % 2
        if pf.clash_ids:
            name = NAMES[d % len(NAMES)]
        else:
            name = "" if d % 2 == 0 else f"mod{m.idx}"
        m.h_connect = True
        m.h_dynamic = rid == 0
        m.h_id = rid
        return {"op": "connect", "c": m.idx, "ver": ver, "id": rid, "logger": logger, "daemon": daemon,
                "multi": multi, "name": name, "pid": 1000 + m.idx}
    if code in (SUB, PUB, READY, SETNAME, DISCONNECT, BURST):
        us = _usable(w)
        if not us:
            return None
        m = us[a % len(us)]
        if not pf.pipelining and not m.connected:
            return None
        if code == SUB:
            kind = ["SUBSCRIBE", "UNSUBSCRIBE", "PAUSE", "RESUME"][[0, 0, 0, 1, 2, 3, 0, 1][b % 8]]
            t = _pick_type(pf, c, with_all=True)
            return {"op": "sub", "c": m.idx, "kind": kind, "type": t}
        if code == PUB:
            if sum(1 for u in m.queue if u["kind"] == "pub") >= pf.max_pending_pubs:
                return None
            t = _pick_type(pf, b, with_all=False)
            held = [x.mod_id for x in w.mods if x.tracked and x.mod_id > 0]
            dmpool = [0] * 6 + (held[:4] * 2) + [150, 199, 200, 201, -1]
            dm = dmpool[c % len(dmpool)]
            dhpool = [0] * 9 + [1, 5, 3, 6, -1, 32767]
            dh = dhpool[d % len(dhpool)]
            szpool = pf.sizes
            # the largest sizes at low weight
            size = szpool[e % len(szpool)] if (e // 16) % 4 == 0 else szpool[e % min(5, len(szpool))]
            src = m.mod_id if m.connected else m.h_id
            return {"op": "pub", "c": m.idx, "type": t, "dm": dm, "dh": dh, "size": size, "src": src}
        if code == READY:
            return {"op": "ready", "c": m.idx, "pid": 2000 + (b % 50)}
        if code == SETNAME:
            return {"op": "setname", "c": m.idx, "name": f"n{b % 7}"}
        if code == DISCONNECT:
            if m.idx in pf.protected:
                return None
            m.h_disconnect = True
            return {"op": "disconnect", "c": m.idx}
    if code == CLOSE:
        live = [m for m in w.mods if not m.client_closed and m.idx not in pf.protected]
        if not live:
            return None
        m = live[a % len(live)]
        how = "fin" if b % 2 == 0 else "rst"
        gone = pf.close_modes[c % len(pf.close_modes)]
        part = 0
        if pf.partial_close and d % 3 == 0:
            part = 1 + (d // 3) % (w.sim.hsize + 63)
        op = {"op": "close", "c": m.idx, "how": how, "gone": gone}
        if part:
            op["partial"] = part
        return op
    if code == FAULT:
        # a write to a live, connected client fails after `after` more bytes.  Only clients whose next
        # incoming frame the model can predict: no acknowledgement pending, no manager-originated
        # subscriptions, not a logger.
        vict = [m for m in _usable(w) if m.idx not in pf.protected and m.connected and m.fault_left is None
                and not m.queue and not m.logger and not m.A and not (m.S & World.MGR_TYPES) and m.S]
        if not vict:
            return None
        m = vict[a % len(vict)]
        hs = w.sim.hsize
        pool = [0, 1, hs - 1, hs, hs + 1, hs + 7, hs + 8, hs + 63, hs + 64, 2 * hs + 8, 4 + (c % 200)]
        m.h_disconnect = True  # the client does nothing more: its connection is about to die
        return {"op": "fault", "c": m.idx, "after": pool[b % len(pool)], "exc": "epipe" if d % 2 == 0 else "reset"}
    if code == STEP:
        cand = w.ready_candidates()
        if not cand:
            return None
        mask = a
        sel = [x for i, x in enumerate(cand) if (mask >> i) & 1] if a % 3 else list(cand)
        if not sel:
            sel = [cand[a % len(cand)]]
        sel = _perm(sel, b)
        acc = [m.idx for m in w.mods if (m.accepted or m in w.backlog) and not (m.client_closed and not m.tracked)]
        if c % 4 < pf.writable_all_bias:
            wr = acc
        else:
            wr = [x for i, x in enumerate(acc) if ((c >> 2) >> i) & 1]
        wr = sorted(set(wr) | {i for i in pf.protected if i < len(w.mods)})
        dt = pf.dts[d % len(pf.dts)]
        return {"op": "step", "ready": sel, "writable": wr, "dt": dt}
    return None


def run_history(cfg: dict, pf: Profile, raws, prop: str, setup_ops: Optional[list] = None) -> World:
    """Execute one generated history; raises Violation.  Returns the world (closed)."""
    w = World(cfg, pf.oracles, prop)
    try:
        for op in (setup_ops or []) + list(pf.setup_ops):
            w.apply(op)
            if op["op"] == "connect":
                m = w.mods[op["c"]]
                m.h_connect, m.h_dynamic, m.h_id = True, op["id"] == 0, op["id"]
        if pf.setup_ops:
            w.drain()
        setup, subs, raws = raws
        for raw in setup:
            w.apply({"op": "open"})
            op = resolve(w, raw, pf)
            if op is not None:
                w.apply(op)
        w.drain()
        for raw in subs:
            op = resolve(w, raw, pf)
            if op is not None:
                w.apply(op)
        w.drain()
        for raw in raws:
            op = resolve(w, raw, pf)
            if op is not None:
                w.apply(op)
        w.drain()
        w.final_checks()
        return w
    finally:
        w.close()


def replay_history(trace: dict, prop: str) -> World:
    w = World(trace["cfg"], set(trace["oracles"]), prop)
    try:
        for op in trace["ops"]:
            w.apply(op)
        w.final_checks()
        return w
    finally:
        w.close()
