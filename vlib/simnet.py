"""Engine A: deterministic in-memory network with the *real* MessageManager lock-stepped on it.

The manager module reaches the outside world through the module attributes
`pyrtma.manager.socket / select / random / time` (and the builtin `print`).  They are replaced by
the shims below; the repository carries no hook code.  One `Sim.step(ready, writable, dt)` lets
the manager's `run()` loop execute exactly one iteration with a harness-chosen ordered ready list,
writable snapshot and clock.
"""
from __future__ import annotations

import errno
import os
import logging
import socket as _real_socket
import struct
import threading
import traceback
from typing import List, Optional

from .common import HarnessError

HDR = struct.Struct("<iiddhhhhiiiI")  # 48 bytes
HDR_TC = struct.Struct("<iiddhhhhiiiIII")  # 56 bytes (timecode)
OFF_NBYTES = 32

LISTENER = "L"


class Stall(BaseException):
    """The manager asked for bytes that no client owes it (it would block forever)."""


class FakeSocket:
    """One endpoint of an in-memory stream connection (or a listening socket)."""

    _ids = 0

    def __init__(self, net, label=""):
        FakeSocket._ids += 1
        self.sid = FakeSocket._ids
        self.net = net
        self.label = label
        self.peer: Optional[FakeSocket] = None
        self.rx = bytearray()
        self.inflight = bytearray()  # sent by the peer, still on the way: arrives while a blocking read waits
        self.rx_fin = False  # peer sent FIN
        self.rx_rst = False  # peer sent RST
        self.closed = False
        self.listening = False
        self.backlog: List[FakeSocket] = []
        self.addr = ("127.0.0.1", 0)
        # fault injection for writes performed *by this endpoint*
        self.fail_after: Optional[int] = None  # raise after this many more bytes were written
        self.fail_exc = BrokenPipeError
        # a slow reader: the peer's receive window has room for `slow_after` more bytes, then the reader pauses for longer
        # than any finite send timeout before it goes on reading.  A blocking write simply completes (later); a write on a
        # socket with a timeout hands over what fits and raises socket.timeout - once.
        self.slow_after: Optional[int] = None
        self.timeout: Optional[float] = None
        self.timeouts_raised = 0
        self.peer_gone_mode = "silent"  # what a write to a closed peer does: silent|epipe|reset|first-ok
        self._writes_to_gone = 0
        self.sent_total = 0
        self.blocking_waits = 0
        self.tx_log = bytearray() if label.startswith("cl") else None  # wire capture for real clients

    # -- server side -------------------------------------------------------------------------
    def bind(self, addr):
        self.addr = (addr[0] or "0.0.0.0", addr[1] or 7111)
        self.net.bound[self.addr[1]] = self

    def listen(self, n=0):
        self.listening = True

    def accept(self):
        if not self.backlog:
            raise Stall("accept() with empty backlog")
        conn = self.backlog.pop(0)
        conn.accepted = True
        return conn, conn.peer.addr

    def getsockname(self):
        return self.addr

    def setsockopt(self, *a):
        if self.closed:
            raise OSError(errno.EBADF, "Bad file descriptor")

    def fileno(self):
        return -1 if self.closed else self.sid + 1000

    def settimeout(self, t):
        self.timeout = t

    def gettimeout(self):
        return self.timeout

    def setblocking(self, b):
        self.timeout = None if b else 0.0

    # -- client side -------------------------------------------------------------------------
    def connect(self, addr):
        lst = self.net.bound.get(addr[1])
        if lst is None or lst.closed or not lst.listening:
            raise ConnectionRefusedError(errno.ECONNREFUSED, "Connection refused")
        self.net.port_ctr += 1
        self.addr = ("127.0.0.1", self.net.port_ctr)
        srv = FakeSocket(self.net, label=self.label + "/m")
        srv.addr = lst.addr
        srv.peer = self
        srv.accepted = False
        self.peer = srv
        lst.backlog.append(srv)
        self.net.on_connect(self, srv)

    # -- data --------------------------------------------------------------------------------
    def sendall(self, data, flags=0):
        if self.closed:
            raise OSError(errno.EBADF, "Bad file descriptor")
        data = bytes(data)
        peer = self.peer
        if peer is None:
            raise OSError(errno.ENOTCONN, "not connected")
        if self.tx_log is not None:
            self.tx_log += data
        if self.fail_after is not None:
            if len(data) > self.fail_after:
                part = data[: self.fail_after]
                if not peer.closed:
                    peer.rx += part
                self.sent_total += len(part)
                self.fail_after = 0
                raise self.fail_exc(errno.EPIPE if self.fail_exc is BrokenPipeError else errno.ECONNRESET, "injected write failure")
            self.fail_after -= len(data)
        if not data:
            return None  # a zero-length send does nothing on a stream socket
        if self.slow_after is not None and not peer.closed:
            if len(data) > self.slow_after:
                room, self.slow_after = self.slow_after, None
                if self.timeout is not None:
                    import socket as _real_socket

                    part = data[:room]
                    if peer.inflight:
                        peer.inflight += part
                    else:
                        peer.rx += part
                    self.sent_total += len(part)
                    self.timeouts_raised += 1
                    raise _real_socket.timeout("timed out")
                # blocking socket: the write completes once the reader has caught up
            else:
                self.slow_after -= len(data)
        if peer.closed:
            mode = self.peer_gone_mode
            self._writes_to_gone += 1
            if mode == "silent" or (mode == "first-ok" and self._writes_to_gone == 1):
                self.sent_total += len(data)
                return None
            if mode == "reset":
                raise ConnectionResetError(errno.ECONNRESET, "Connection reset by peer")
            raise BrokenPipeError(errno.EPIPE, "Broken pipe")
        if peer.inflight:
            peer.inflight += data  # keep the byte order behind data that is still on the way
        else:
            peer.rx += data
        self.sent_total += len(data)
        return None

    def send(self, data, flags=0):
        self.sendall(data)
        return len(data)

    def sendall_segmented(self, data, first: int):
        """The first `first` bytes arrive at once, the rest is still on the way (it arrives while the
        receiver blocks in a read, as the second TCP segment of a large or slowly written frame would)."""
        peer = self.peer
        data = bytes(data)
        if self.closed or peer is None or peer.closed or peer.inflight:
            return self.sendall(data)
        first = max(1, min(first, len(data)))
        if self.tx_log is not None:
            self.tx_log += data
        peer.rx += data[:first]
        peer.inflight += data[first:]
        self.sent_total += len(data)

    def _recv(self, n, flags):
        if self.closed:
            raise OSError(errno.EBADF, "Bad file descriptor")
        if n < 0:
            raise ValueError("negative buffersize in recv")
        waitall = bool(flags & _real_socket.MSG_WAITALL)
        if self.inflight and (waitall or not self.rx) and len(self.rx) < n:
            # a blocking read waits while the rest of the data arrives (MSG_WAITALL: until n bytes are
            # there; otherwise until something is there)
            k = (n - len(self.rx)) if waitall else len(self.inflight)
            self.rx += self.inflight[:k]
            del self.inflight[:k]
        if len(self.rx) >= n or (self.rx and not waitall):
            k = min(n, len(self.rx))
            out = bytes(self.rx[:k])
            del self.rx[:k]
            return out
        if self.rx_rst:
            # Linux semantics: data queued before the reset is still readable (a short read under
            # MSG_WAITALL), the error is reported once the queue is empty
            if self.rx:
                out = bytes(self.rx)
                del self.rx[:]
                return out
            raise ConnectionResetError(errno.ECONNRESET, "Connection reset by peer")
        if self.rx_fin:
            if self.inflight:
                self.rx += self.inflight
                del self.inflight[:]
            out = bytes(self.rx[:n])
            del self.rx[:n]
            return out
        if n == 0:
            return b""
        raise Stall(f"recv({n}) would block on {self.label}: {len(self.rx)} bytes queued")

    def recv(self, n, flags=0):
        return self._recv(n, flags)

    def recv_into(self, buf, nbytes=0, flags=0):
        mv = memoryview(buf).cast("B")
        if nbytes is None or nbytes == 0:
            nbytes = len(mv)
        if nbytes < 0:
            raise ValueError("negative buffersize in recv_into")
        if nbytes > len(mv):
            raise ValueError("buffer too small for requested bytes")
        out = self._recv(nbytes, flags)
        mv[: len(out)] = out
        return len(out)

    def close(self):
        if self.closed:
            return
        self.closed = True
        if self.listening:
            return
        peer = self.peer
        if peer is not None and not peer.closed:
            if self.rx or self.inflight:
                peer.rx_rst = True  # close with unread data -> RST
            else:
                peer.rx_fin = True
        del self.rx[:]
        del self.inflight[:]

    def abort(self):
        """Close with RST (SO_LINGER 0)."""
        if self.closed:
            return
        self.closed = True
        peer = self.peer
        if peer is not None and not peer.closed:
            peer.rx_rst = True
        del self.rx[:]

    def shutdown(self, how):
        # Linux: shutdown() on a closed descriptor is EBADF, on a connection the peer has reset it is ENOTCONN
        # (neither is a ConnectionError); after an orderly FIN it succeeds
        if self.closed:
            raise OSError(errno.EBADF, "Bad file descriptor")
        if self.rx_rst:
            raise OSError(errno.ENOTCONN, "Transport endpoint is not connected")

    def __hash__(self):
        return self.sid

    def __eq__(self, other):
        return self is other

    def __repr__(self):
        return f"<FakeSocket {self.label}#{self.sid}{' closed' if self.closed else ''}>"


class Net:
    def __init__(self):
        self.bound = {}
        self.port_ctr = 40000
        self.pairs = []  # (client_endpoint, manager_endpoint)

    def on_connect(self, cli, srv):
        self.pairs.append((cli, srv))


# ------------------------------------------------------------------------------------------------
# shims installed into pyrtma.manager


class SocketShim:
    """Stands in for the `socket` module inside pyrtma.manager / pyrtma.client."""

    def __init__(self):
        self.net: Optional[Net] = None
        for name in ("AF_INET", "SOCK_STREAM", "IPPROTO_TCP", "TCP_NODELAY", "SOL_SOCKET", "SO_REUSEADDR",
                     "SOMAXCONN", "INADDR_ANY", "MSG_WAITALL", "SHUT_RDWR", "error", "timeout", "gaierror"):
            setattr(self, name, getattr(_real_socket, name))
        self.label = "sock"

    def getprotobyname(self, name):
        return 6

    def socket(self, family=None, type=None, proto=None, *a, **k):
        if self.net is None:
            raise HarnessError("socket shim used with no active Net")
        return FakeSocket(self.net, label=self.label)


class VirtualTime:
    def __init__(self):
        self.now = 1000.0

    def perf_counter(self):
        return self.now

    def time(self):
        return 1.7e9 + self.now

    def sleep(self, dt):
        self.now += max(0.0, dt)

    def monotonic(self):
        return self.now


class RandomShim:
    def shuffle(self, lst):
        return None

    def __getattr__(self, name):
        import random

        return getattr(random, name)


class SelectShim:
    """select() as seen by the manager thread; the top-of-loop call is the parking point."""

    error = OSError

    def __init__(self):
        self.sim: Optional["Sim"] = None

    def select(self, rlist, wlist, xlist, timeout=None):
        sim = self.sim
        if sim is None:
            raise HarnessError("select shim used with no active Sim")
        rlist = list(rlist)
        wlist = list(wlist)
        if threading.current_thread() is not sim.thread:
            raise HarnessError("manager select shim called from a foreign thread")
        for s in rlist + wlist:
            if s.closed:
                raise ValueError("file descriptor cannot be a negative integer (-1)")
        if rlist and not wlist:
            # top of loop: park until the harness grants the next iteration
            sim._park()
            if sim.stopping:
                return [], [], []
            order = sim.next_ready
            sim.next_ready = []
            sim.now_rounds += 1
            for s in list(rlist):
                if s.closed:
                    raise ValueError("file descriptor cannot be a negative integer (-1)")
            rset = set(rlist)
            out = [s for s in order if s in rset]
            sim.last_served = list(out)
            return out, [], []
        if not rlist and timeout is None:
            # blocking wait for a logger connection to become writable
            for s in wlist:
                s.blocking_waits += 1
            sim.blocking_waits += 1
            return [], wlist, []
        if not rlist:
            sim.wsnapshots += 1
            w = [s for s in wlist if s in sim.next_writable]
            return [], w, []
        raise HarnessError(f"unexpected select() shape r={len(rlist)} w={len(wlist)} t={timeout}")


SOCK = SocketShim()
SEL = SelectShim()
VTIME = VirtualTime()
RAND = RandomShim()
_installed = False


def install():
    global _installed
    import pyrtma.manager as mm

    if _installed:
        return
    for name in ("socket", "select", "random", "time"):
        if not hasattr(mm, name):
            raise HarnessError(f"seam pyrtma.manager.{name} no longer exists")
    mm.socket = SOCK
    mm.select = SEL
    mm.random = RAND
    mm.time = VTIME
    mm.print = lambda *a, **k: None

    class QuietLogger(mm.RTMALogger):
        # same logger, but a check's stdout must carry only its own lines: the console handler is a null handler, or
        # (CONSOLE["mode"] == "sink") the repository's own rich console handler rendering into a sink, so that the
        # formatting of client-controlled text (module names) in log lines is exercised as in production
        def init_console_handler(self):
            if CONSOLE["mode"] == "sink":
                import io

                from rich.console import Console

                h = super().init_console_handler()
                h.console = Console(file=io.StringIO(), force_terminal=False, width=160)
                CONSOLE["handlers"] = CONSOLE.get("handlers", 0) + 1
                return h
            h = logging.NullHandler()
            h.name = "Console Handler"
            return h

    mm.RTMALogger = QuietLogger
    logging.raiseExceptions = False
    _installed = True


def uninstall():
    """Give pyrtma.manager its real socket/select/random/time back (the real-TCP tier runs in a forked shard
    whose parent may already have used the simulator, e.g. for the regression replays)."""
    global _installed
    import random as _random
    import select as _select
    import time as _time

    import pyrtma.manager as mm

    mm.socket = _real_socket
    mm.select = _select
    mm.random = _random
    mm.time = _time
    _installed = False


class Conn:
    """Harness-side handle of one client connection."""

    def __init__(self, idx, cli: FakeSocket):
        self.idx = idx
        self.c = cli
        self.m: FakeSocket = cli.peer
        self.rxbuf = bytearray()  # bytes received from the manager, not yet parsed

    @property
    def accepted(self):
        return getattr(self.m, "accepted", False)

    @property
    def manager_closed(self):
        """The manager closed its end (what the peer sees as FIN/RST; read from the simulated
        kernel so that it is also known for clients that have already gone away)."""
        return self.m.closed

    def send(self, data: bytes, seg: int = 0):
        if seg:
            self.c.sendall_segmented(data, seg)
        else:
            self.c.sendall(data)

    def take(self) -> bytes:
        out = bytes(self.c.rx)
        del self.c.rx[:]
        return out


_pinned = False


def pin_to_current_cpu():
    """The lock-stepped manager thread and the harness thread hand a baton back and forth; keeping both on
    one core avoids cross-core wake-up latency (2x faster when 16 shards run in parallel).  The core is the
    one the kernel's load balancer has currently placed this process on, so concurrent runs do not pile up
    on the same cores; if that core later becomes much busier than others the pin is released again."""
    global _pinned
    if _pinned or os.environ.get("VERIF_NO_PIN"):
        return
    try:
        with open("/proc/self/stat") as f:
            cpu = int(f.read().rsplit(")", 1)[1].split()[36])
        if cpu in os.sched_getaffinity(0):
            os.sched_setaffinity(0, {cpu})
        _pinned = True
    except Exception:
        _pinned = True


CONSOLE = {"mode": "null"}


class Sim:
    """One manager instance running on a fresh Net."""

    def __init__(self, timecode=False, send_msg_timing=True, log_level=logging.ERROR, console="null", debug=False):
        install()
        CONSOLE["mode"] = console
        import pyrtma.manager as mm

        FakeSocket._ids = 0  # socket identities (and thereby set iteration orders) are a function of the history
        self.net = Net()
        SOCK.net = self.net
        SOCK.label = "mgr"
        SEL.sim = self
        VTIME.now = 1000.0
        self.time = VTIME
        self.hdr = HDR_TC if timecode else HDR
        self.hsize = self.hdr.size
        self.timecode = timecode
        self.next_ready: List[FakeSocket] = []
        self.next_writable = set()
        self.last_served = []
        self.now_rounds = 0
        self.blocking_waits = 0
        self.wsnapshots = 0
        self.stopping = False
        self.dead: Optional[str] = None
        self.dead_exc: Optional[BaseException] = None
        self.exited = False
        self.conns: List[Conn] = []
        self._to_mgr = threading.Semaphore(0)
        self._to_har = threading.Semaphore(0)
        self.mgr = mm.MessageManager("127.0.0.1", 7111, timecode=timecode, log_level=log_level,
                                     debug=bool(debug), send_msg_timing=send_msg_timing)
        if console != "sink":
            try:
                self.mgr.logger.enable_console = False
            except Exception:
                pass
        self.listener = self.mgr.listen_socket
        self.thread = threading.Thread(target=self._main, daemon=True)
        self.thread.start()
        self._resume()  # run up to the first select

    # -- thread baton ------------------------------------------------------------------------
    def _main(self):
        self._to_mgr.acquire()
        try:
            self.mgr.run()
            self.exited = True
        except BaseException as e:  # noqa
            self.dead_exc = e
            self.dead = "".join(traceback.format_exception(e))
        finally:
            self._to_har.release()

    def _park(self):
        self._to_har.release()
        self._to_mgr.acquire()

    def _resume(self):
        self._to_mgr.release()
        self._to_har.acquire()

    # -- harness API -------------------------------------------------------------------------
    def open(self) -> Conn:
        SOCK.label = f"c{len(self.conns)}"
        cli = FakeSocket(self.net, label=f"c{len(self.conns)}")
        cli.connect(("127.0.0.1", 7111))
        SOCK.label = "mgr"
        conn = Conn(len(self.conns), cli)
        self.conns.append(conn)
        return conn

    def adopt(self, cli: FakeSocket) -> Conn:
        """Register a client endpoint that was created by a real pyrtma.Client."""
        conn = Conn(len(self.conns), cli)
        self.conns.append(conn)
        return conn

    def readable(self, conn: Conn) -> bool:
        """Would a well-behaved kernel report the manager's end readable with a *complete* unit
        (whole frame, FIN or RST)?"""
        m = conn.m
        if m.closed or not conn.accepted:
            return False
        if m.rx_rst or m.rx_fin:
            return True
        if not m.rx:
            return False  # nothing has arrived yet: select would not report the socket
        have = m.rx + m.inflight if m.inflight else m.rx
        if len(have) < self.hsize:
            return False
        (n,) = struct.unpack_from("<i", have, OFF_NBYTES)
        if n < 0 or n > 1024 ** 2:
            return True  # the manager decides from the header alone
        return len(have) >= self.hsize + n

    def step(self, ready, writable, dt=0.0):
        """Release one loop iteration.  ready: ordered list of Conn / LISTENER; writable: iterable of Conn."""
        if self.dead or self.exited:
            return
        self.time.now += dt
        socks = []
        for r in ready:
            if r is LISTENER or r == LISTENER:
                if self.listener.backlog:
                    socks.append(self.listener)
            else:
                socks.append(r.m)
        self.next_ready = socks
        self.next_writable = {c.m for c in writable}
        self._resume()

    def close(self):
        if not (self.dead or self.exited):
            self.stopping = True
            self.mgr._keep_running = False
            self._resume()
        self.thread.join(timeout=5)
        name = hex(id(self.mgr))
        lg = logging.Logger.manager.loggerDict.pop(name, None)
        if lg is not None and hasattr(lg, "handlers"):
            for h in list(lg.handlers):
                lg.removeHandler(h)
        if SEL.sim is self:
            SEL.sim = None
