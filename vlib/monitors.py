"""Setup operations shared by the departure / failure / identity profiles: two monitor modules that
are connected first, never leave and are always writable.  conn 0 = plain module (id 90) subscribed to
CLIENT_CLOSED, CLIENT_INFO and FAILED_MESSAGE; conn 1 = logger (id 91) with the same subscriptions."""
from . import proto as P


def monitor_setup(with_logger=True):
    ops = [
        {"op": "open"},
        {"op": "connect", "c": 0, "ver": "v2v1", "id": 90, "logger": 0, "daemon": 0, "multi": 0, "name": "monitor", "pid": 900},
    ]
    if with_logger:
        ops += [
            {"op": "open"},
            {"op": "connect", "c": 1, "ver": "v2v1", "id": 91, "logger": 1, "daemon": 0, "multi": 0, "name": "logmon", "pid": 901},
        ]
    for c in range(2 if with_logger else 1):
        for t in (P.MT_CLIENT_CLOSED, P.MT_CLIENT_INFO, P.MT_FAILED_MESSAGE):
            ops.append({"op": "sub", "c": c, "kind": "SUBSCRIBE", "type": t})
    return ops
