"""Engine E - a harness-owned cooperative scheduler for code that uses threading.Event / threading.Thread.

The code under test keeps using the names `threading` and `time` of *its own module*; the harness
replaces those two module attributes (never the real modules) by the shims below:

    sched = Scheduler(tape)
    mod.threading = ThreadingShim(sched)
    mod.time = VirtualClock(sched)

Model
-----
* Every thread created through the shim runs in a real OS thread, but only one managed thread
  (the thread that created the Scheduler = "main", or one shim thread) ever runs at a time: the
  baton is passed with one semaphore per thread.
* Scheduling points are exactly the synchronisation operations
  `Event.is_set/set/clear/wait` and `Thread.start/join/is_alive` (plus thread begin and thread exit).
  A point is taken BEFORE the operation executes: the thread announces the operation it is about
  to perform, the scheduler picks who runs next, and the operation executes when its thread is picked
  (so logs and oracles see effects, never intents).
* After-points (after_points=True, the default): a second scheduling point is taken immediately AFTER each
  operation has taken effect, so the plain code between two operations of a thread is attributed to the earlier
  or to the later operation by choice: "writer executed clear(), recorder runs update()/stop(), writer goes on
  with its file I/O" is a schedule.  Each operation's effect stays atomic.  An after-point consumes tape only
  when another thread is runnable.
* Sleep sets (sleep_sets=True, used by `enumerate_schedules` clients): blocks are either one operation or the plain
  code between two operations; an operation and a code block of different threads commute, so of the schedules
  that differ only in the order of such pairs one representative is enumerated.  A run in which every candidate
  is asleep is `pruned` (equivalent to a run enumerated earlier).  `plain_choices`/`normalised_tape()` give the
  same path as a tape for a scheduler without sleep sets, which is what traces store.
* Runnable: a thread whose announced operation cannot block (is_set/set/clear/start/is_alive/begin),
  a `wait` whose event is set, a `join` whose target has finished.
* Choice: the runnable threads are listed with the current thread first, the others by thread id;
  if there are k > 1 of them the next tape entry t selects `runnable[t % k]`; when the tape is exhausted
  the choice is 0 (= keep running the current thread when it can run).  Points with k == 1 consume no
  tape, so the sequence of (choice, k) pairs in `Scheduler.choices` is exactly the path in the
  schedule tree and `enumerate_schedules` can walk that tree exhaustively.
* Timed waits: a `wait(timeout)`/`join(timeout)` that cannot proceed times out only when no thread is
  runnable (virtual time, nobody sleeps).  Polling loops whose time-out branch has no side effect (all
  the loops of the data logger are of that kind) therefore do not blow up the schedule tree; a time-out
  taken earlier would only stutter.  If several timed waits are pending the tape picks which one expires
  (listed least-recently-run first, so the default choice 0 is fair to every waiter).
* Thread start (eager_start=True, the default): `Thread.start()` runs the new thread at once up to its first
  synchronisation operation and only then lets the tape decide again.  This removes one schedule-tree
  branch per operation of the starter; it is a sound reduction when the start-up segment of the thread
  function shares no state with the starter (DataCollection.write only reads `_close` there).
  eager_start=False makes thread begin an ordinary runnable operation.
* Polling loops without a time-out (`while ev.is_set(): other.wait(t)` with `other` set, sleep-and-poll): a thread
  that announces the same operation from the same instruction of the code under test twice although no
  synchronisation state changed in between (no flag flipped, no thread started/ended, no new API call announced by
  the harness through `progress()`) is *polling*; like a pending timed wait it runs only when nobody else can,
  until the state changes.  Same reduction as for time-outs, same assumption: the loop body has no side effect.
* Nothing runnable and no timed wait pending -> deadlock.  More than `idle_limit` time-outs/polls in a row
  without any change of synchronisation state in between -> livelock (a polling loop that nobody will ever satisfy).
  Both are reported by raising `Deadlock` in the main thread; no case ever hangs.
* `abort()` unwinds every shim thread that is still parked (by raising SchedAbort inside it) and joins
  the OS threads, so no thread runs code of the package after a case ended.
"""
from __future__ import annotations

import sys
import threading as _real_threading
import traceback
from typing import Callable, List, Optional, Tuple

from vlib.common import HarnessError


class SchedAbort(BaseException):
    """Raised inside a shim thread to unwind it when its case is abandoned."""


class Deadlock(BaseException):
    """Raised in the main thread when no managed thread can make progress (kind: deadlock|livelock)."""

    def __init__(self, kind: str, what: str):
        super().__init__(f"{kind}: {what}")
        self.kind = kind
        self.what = what


NONBLOCKING = ("is_set", "set", "clear", "start", "is_alive", "begin", "yield", "cont", "exit")


class _T:
    """Scheduler-side state of one managed thread."""

    __slots__ = ("tid", "name", "go", "pending", "done", "os_thread", "exc", "exc_tb", "started", "where",
                 "seen", "poll_epoch", "last_run")

    def __init__(self, tid: int, name: str):
        self.tid = tid
        self.name = name
        self.go = _real_threading.Semaphore(0)
        self.pending: Optional[tuple] = None  # (kind, obj, timeout)
        self.done = False
        self.started = False
        self.os_thread = None
        self.exc: Optional[BaseException] = None
        self.exc_tb: str = ""
        self.where: str = ""
        self.seen: dict = {}  # (code, instruction, kind, object) -> epoch in which this thread last announced it
        self.last_run = 0  # scheduling step at which the thread was last picked
        self.poll_epoch = -1  # epoch in which the thread was found to be polling (see Scheduler.point)


class Scheduler:
    def __init__(self, tape=(), idle_limit: int = 12, max_steps: int = 200000, eager_start: bool = True,
                 after_points: bool = True, sleep_sets: bool = False, max_after_switches: Optional[int] = None):
        self.eager_start = eager_start
        self.after_points = after_points
        # bound on the number of preemptions taken at after-points in one schedule (None = unbounded); switches at
        # before-points are never bounded.  Lets an enumeration stay finite and small: "all schedules with at most
        # n after-preemptions".
        self.max_after_switches = max_after_switches
        self.after_switches = 0
        # sleep sets (used by exhaustive enumeration only): the tape then indexes the *reduced* choice points
        self.sleep_sets = sleep_sets
        self.sleep: set = set()  # tids whose next block was already explored from an equivalent state
        self.pruned = False  # this run is equivalent to one enumerated earlier (every candidate asleep)
        self.plain_choices: List[Tuple[int, int]] = []  # the same path as a tape for sleep_sets=False
        self.tape = [int(x) for x in tape]
        self.pos = 0
        self.choices: List[Tuple[int, int]] = []  # (choice, number of alternatives) at every real choice
        self.log: List[tuple] = []  # effects, in execution order: (tid, kind, object name, result)
        self.threads: List[_T] = []
        self.main = self._new_thread("main")
        self.main.started = True
        self.main.os_thread = _real_threading.current_thread()
        self.current: _T = self.main
        self._by_ident = {_real_threading.get_ident(): self.main}
        self.failure: Optional[Deadlock] = None
        self.aborting = False
        self.idle = 0
        self.idle_limit = idle_limit
        self.epoch = 0  # number of changes of synchronisation state so far
        self.steps = 0
        self.max_steps = max_steps
        self.n_events = 0

    # ------------------------------------------------------------------ bookkeeping
    def _new_thread(self, name: str) -> _T:
        t = _T(len(self.threads), name)
        self.threads.append(t)
        return t

    def _me(self) -> _T:
        t = self._by_ident.get(_real_threading.get_ident())
        if t is None:
            raise HarnessError("scheduling point reached from a thread the scheduler does not manage")
        return t

    def _can_run(self, t: _T) -> bool:
        if t.done or not t.started or t.pending is None:
            return False
        if t.poll_epoch == self.epoch:
            return False  # polling: nothing it reads has changed since it last looked
        kind, obj, _timeout = t.pending
        if kind == "wait":
            return obj._flag
        if kind == "join":
            return obj._t is None or obj._t.done
        return True

    def _timed(self, t: _T) -> bool:
        """May run when nobody else can: a timed wait/join (it times out) or a polling thread (it polls again)."""
        if t.done or not t.started or t.pending is None:
            return False
        if t.pending[0] in ("wait", "join"):
            return t.pending[2] is not None
        return t.poll_epoch == self.epoch

    def _order(self, cur: _T) -> List[_T]:
        return [cur] + [t for t in self.threads if t is not cur]

    @staticmethod
    def _is_code(t: _T) -> bool:
        """Is the thread's next block plain code (it sits at an after-point) rather than a synchronisation op?"""
        return t.pending is not None and t.pending[0] == "cont"

    def _ran(self, t: _T, code: bool):
        """Thread t executes its next block (plain code or an operation): threads whose sleeping block does not
        commute with it wake up.  A code block and an operation of different threads always commute (operations
        touch only event flags / thread liveness, plain code never does); two operations or two code blocks may not."""
        if self.sleep:
            self.sleep = {x for x in self.sleep if x != t.tid and self._is_code(self.threads[x]) != code}

    def _choose(self, cands: List[_T]) -> _T:
        red = cands
        if self.sleep_sets and not self.pruned:
            red = [t for t in cands if t.tid not in self.sleep]
            if not red:
                self.pruned = True  # finish the run on default choices, no further branching
                red = cands
        k = len(red)
        if k == 1 or self.pruned:
            c = 0
        else:
            c = self.tape[self.pos] % k if self.pos < len(self.tape) else 0
            self.pos += 1
            self.choices.append((c, k))
        pick = red[c]
        if len(cands) > 1:
            self.plain_choices.append((cands.index(pick), len(cands)))
        code = self._is_code(pick)
        self._ran(pick, code)
        if self.sleep_sets and not self.pruned:
            for t in red[:c]:  # alternatives enumerated before this one stay asleep while they commute
                if self._is_code(t) != code:
                    self.sleep.add(t.tid)
        return pick

    def _pick(self, cur: _T) -> Optional[_T]:
        """Who runs next?  None = nobody can (self.failure is set)."""
        self.steps += 1
        if self.steps > self.max_steps:
            self.failure = Deadlock("livelock", f"more than {self.max_steps} scheduling steps in one case")
            return None
        nxt = self._pick2(cur)
        if nxt is not None:
            nxt.last_run = self.steps
        return nxt

    def _pick2(self, cur: _T) -> Optional[_T]:
        order = self._order(cur)
        runnable = [t for t in order if self._can_run(t)]
        if runnable:
            return self._choose(runnable)
        # nobody can run: a time-out expires / a polling thread polls again - the one that has not run for the
        # longest time first, so that the default schedule is fair to every waiter
        timed = sorted((t for t in order if self._timed(t)), key=lambda t: t.last_run)
        if timed:
            self.idle += 1
            if self.idle > self.idle_limit:
                self.failure = Deadlock(
                    "livelock",
                    f"{self.idle} consecutive time-outs/polls without any change of synchronisation state; pending: "
                    + self._pending_text(),
                )
                return None
            return self._choose(timed)
        self.failure = Deadlock("deadlock", "no thread can run; pending: " + self._pending_text())
        return None

    def _pending_text(self) -> str:
        out = []
        for t in self.threads:
            if t.done or not t.started:
                continue
            if t.pending is None:
                out.append(f"{t.name}:running")
            else:
                kind, obj, timeout = t.pending
                nm = getattr(obj, "name", "")
                out.append(f"{t.name}:{kind}({nm}{'' if timeout is None else ', ' + str(timeout)})")
        return "; ".join(out)

    # ------------------------------------------------------------------ the scheduling point
    def point(self, kind: str, obj=None, timeout=None):
        """Called by the running thread immediately before it performs a synchronisation operation."""
        me = self._me()
        if self.aborting:
            if me is self.main:
                return
            raise SchedAbort()
        if me is not self.current:
            raise HarnessError(f"thread {me.name} reached a scheduling point while {self.current.name} holds the baton")
        me.pending = (kind, obj, timeout)
        fr = sys._getframe(2)  # the frame of the code under test that called the shim method
        key = (fr.f_code, fr.f_lasti, kind, id(obj))
        del fr
        if me.seen.get(key) == self.epoch:
            me.poll_epoch = self.epoch
        me.seen[key] = self.epoch
        nxt = self._pick(me)
        if nxt is None:
            self._failed(me)  # raises in main, parks others
        elif nxt is not me:
            self.current = nxt
            nxt.go.release()
            self._park(me)
            self._woken(me)
        me.pending = None

    BATON_TIMEOUT = 300.0  # real seconds; only ever expires if the harness itself is broken

    def _park(self, me: _T):
        """Block until this thread is handed the baton."""
        if not me.go.acquire(timeout=self.BATON_TIMEOUT):
            if me is self.main:
                raise HarnessError("scheduler lost the baton: no managed thread handed control back")
            raise SchedAbort()

    def _woken(self, me: _T):
        if self.aborting and me is not self.main:
            raise SchedAbort()
        if me is self.main and self.failure is not None:
            me.pending = None
            raise self.failure

    def _failed(self, me: _T):
        if me is self.main:
            me.pending = None
            raise self.failure
        # hand the failure to the main thread and stay parked until abort()
        self.current = self.main
        self.main.go.release()
        me.go.acquire()
        raise SchedAbort()

    def executed(self, kind: str, name: str, result=None):
        """Record the effect of an operation (called after it executed) and take the scheduling point AFTER it:
        the thread may be preempted once the operation has taken effect, before the plain code that follows."""
        self.log.append((self.current.tid, kind, name, result))
        if self.after_points and not self.aborting:
            self._after()

    def _after(self):
        me = self.current
        me.pending = ("cont", None, None)  # always runnable: it only has to continue with plain code
        others = [t for t in self.threads if t is not me and self._can_run(t)]
        if not others or (self.max_after_switches is not None and self.after_switches >= self.max_after_switches):
            if others:
                self.plain_choices.append((0, 1 + len(others)))  # an unbounded scheduler has a choice here
            self._ran(me, True)
            me.pending = None
            return  # nobody to switch to (or the preemption budget is spent): no choice, no tape
        self.steps += 1
        if self.steps > self.max_steps:
            self.failure = Deadlock("livelock", f"more than {self.max_steps} scheduling steps in one case")
            self._failed(me)
        nxt = self._choose([me] + others)
        if nxt is not me:
            self.after_switches += 1
            nxt.last_run = self.steps
            self.current = nxt
            nxt.go.release()
            self._park(me)
            self._woken(me)
        me.pending = None

    def changed(self):
        """The synchronisation state changed (or the harness started a new API call): polling threads look again."""
        self.epoch += 1
        self.idle = 0

    progress = changed

    # ------------------------------------------------------------------ threads
    def start_thread(self, st: "SThread"):
        t = self._new_thread(st.name or f"T{len(self.threads)}")
        st._t = t
        t.pending = ("begin", st, None)

        def boot():
            self._by_ident[_real_threading.get_ident()] = t
            t.go.acquire()
            try:
                if self.aborting:
                    return
                t.pending = None
                self.changed()
                self.log.append((t.tid, "begin", t.name, None))
                try:
                    st._target(*st._args, **st._kwargs)
                except SchedAbort:
                    raise
                except BaseException as e:  # noqa: the writer died - the harness reports it
                    t.exc = e
                    tb = traceback.extract_tb(e.__traceback__)
                    t.where = tb[-1].name if tb else "?"
                    t.exc_tb = "".join(traceback.format_exception(e))
                self.point("exit", st, None)  # thread exit is an operation of its own (join/is_alive see it)
            except SchedAbort:
                pass
            finally:
                t.done = True
                t.pending = None
                if not self.aborting:
                    self.log.append((t.tid, "exit", t.name, type(t.exc).__name__ if t.exc else None))
                    self.changed()
                    nxt = self._pick(t)
                    if nxt is None:
                        nxt = self.main  # main raises self.failure when it wakes
                    self.current = nxt
                    nxt.go.release()

        t.os_thread = _real_threading.Thread(target=boot, name=f"sched-{t.name}", daemon=True)
        t.started = True
        t.os_thread.start()
        if self.eager_start and not self.aborting:
            # the new thread runs at once up to its first synchronisation operation (no choice here)
            me = self.current
            me.pending = ("yield", None, None)
            self._ran(t, False)
            self.current = t
            t.go.release()
            self._park(me)
            self._woken(me)
            me.pending = None

    def abort(self):
        """Unwind every parked shim thread and wait for the OS threads to end."""
        if _real_threading.current_thread() is not self.main.os_thread:
            raise HarnessError("abort() must be called from the main thread")
        self.aborting = True
        self.current = self.main
        for t in self.threads[1:]:
            if t.os_thread is None:
                continue
            if not t.done:
                t.go.release()
            t.os_thread.join(10.0)
            if t.os_thread.is_alive():
                raise HarnessError(f"managed thread {t.name} did not terminate on abort")

    def finish(self):
        """End of a case: every shim thread must have ended; their OS threads are joined."""
        alive = [t for t in self.threads[1:] if t.started and not t.done]
        if alive:
            self.abort()
            return [t.name for t in alive]
        for t in self.threads[1:]:
            if t.os_thread is not None:
                t.os_thread.join(10.0)
                if t.os_thread.is_alive():
                    raise HarnessError(f"OS thread of {t.name} still alive at the end of the case")
        return []

    def thread_errors(self):
        return [t for t in self.threads[1:] if t.exc is not None]

    def normalised_tape(self) -> List[int]:
        """The path of this run as a tape for a scheduler without sleep sets (trailing zeros trimmed)."""
        out = [c for c, _k in self.plain_choices]
        while out and out[-1] == 0:
            out.pop()
        return out


# ---------------------------------------------------------------------------------------------- shims


class SEvent:
    def __init__(self, sched: Scheduler):
        self._s = sched
        self._flag = False
        self.name = f"E{sched.n_events}"
        sched.n_events += 1

    def is_set(self) -> bool:
        self._s.point("is_set", self)
        r = self._flag
        self._s.executed("is_set", self.name, r)
        return r

    isSet = is_set

    def set(self):
        self._s.point("set", self)
        was = self._flag
        if not was:
            self._s.changed()
        self._flag = True
        self._s.executed("set", self.name, was)  # logged result: was the flag already set?

    def clear(self):
        self._s.point("clear", self)
        if self._flag:
            self._s.changed()
        self._flag = False
        self._s.executed("clear", self.name)

    def wait(self, timeout=None) -> bool:
        self._s.point("wait", self, timeout)
        r = self._flag
        if not r and timeout is None and not self._s.aborting:
            raise HarnessError("scheduler resumed an untimed wait on an unset event")
        self._s.executed("wait" if r else "timeout", self.name, r)
        return r


class SThread:
    def __init__(self, sched: Scheduler, group=None, target=None, name=None, args=(), kwargs=None, daemon=None):
        self._s = sched
        self._target = target if target is not None else (lambda: None)
        self._args = tuple(args)
        self._kwargs = dict(kwargs or {})
        self.name = name or f"Thread-{len(sched.threads)}"
        self.daemon = bool(daemon)
        self._t: Optional[_T] = None

    def start(self):
        if self._t is not None:
            raise RuntimeError("threads can only be started once")
        self._s.point("start", self)
        self._s.changed()
        self._s.start_thread(self)
        self._s.executed("start", self.name)

    def is_alive(self) -> bool:
        self._s.point("is_alive", self)
        r = self._t is not None and not self._t.done
        self._s.executed("is_alive", self.name, r)
        return r

    def join(self, timeout=None):
        if self._t is None:
            raise RuntimeError("cannot join thread before it is started")
        self._s.point("join", self, timeout)
        done = self._t.done
        self._s.executed("join" if done else "timeout", self.name, done)

    @property
    def ident(self):
        return None if self._t is None or self._t.os_thread is None else self._t.os_thread.ident

    def forget(self):
        """Break the reference cycle target -> owner -> thread after the case."""
        self._target = lambda: None
        self._args = ()
        self._kwargs = {}


class ThreadingShim:
    """Stands in for the name `threading` inside one module of the package."""

    def __init__(self, sched: Scheduler):
        self._s = sched

    def Event(self):
        return SEvent(self._s)

    def Thread(self, *a, **kw):
        return SThread(self._s, *a, **kw)

    def __getattr__(self, name):
        raise HarnessError(
            f"the code under test uses threading.{name}, which the Engine E scheduler does not model"
        )


class VirtualClock:
    """Stands in for the name `time` inside one module of the package."""

    EPOCH = 1_700_000_000.0

    def __init__(self, sched: Optional[Scheduler] = None):
        self.now = self.EPOCH
        self.reads = 0
        self._s = sched

    def advance(self, dt: float):
        self.now += float(dt)

    def time(self) -> float:
        self.reads += 1
        return self.now

    def monotonic(self) -> float:
        self.reads += 1
        return self.now - self.EPOCH + 1000.0

    perf_counter = monotonic

    def sleep(self, dt: float):
        # an ordinary (non-blocking) scheduling point, so that sleep-and-poll loops are seen by the scheduler
        if self._s is not None:
            self._s.point("sleep", None, None)
            self._s.executed("sleep", "", dt)
        self.now += max(0.0, float(dt))

    def __getattr__(self, name):
        raise HarnessError(f"the code under test uses time.{name}, which the virtual clock does not model")


# ---------------------------------------------------------------------------------------------- enumeration


def enumerate_schedules(run_with_tape: Callable[[List[int]], List[Tuple[int, int]]], limit: int):
    """Depth-first walk over the whole schedule tree of one deterministic case.

    run_with_tape(prefix) executes the case with the tape `prefix` (choices beyond it are 0) and returns
    Scheduler.choices.  Returns (number of schedules run, tree completely enumerated?).
    """
    prefix: List[int] = []
    n = 0
    while True:
        choices = run_with_tape(list(prefix))
        n += 1
        if len(choices) < len(prefix) or any(c != p for (c, _k), p in zip(choices, prefix)):
            raise HarnessError("schedule tree is not deterministic: a replayed prefix took a different path")
        i = len(choices) - 1
        while i >= 0 and choices[i][0] + 1 >= choices[i][1]:
            i -= 1
        if i < 0:
            return n, True
        if n >= limit:
            return n, False
        prefix = [c for c, _k in choices[:i]] + [choices[i][0] + 1]
