#!/venv/bin/python
"""atheris / libFuzzer target for C03 (run as a subprocess by checks/c03.py, thorough tier).

  fuzz_c03.py <artifact_dir> <corpus_dir> -runs=N -seed=S [libFuzzer flags]

Input decoding (structured, so that the fuzzer reaches protocol logic instead of dying in framing):
  byte 0 bit0: header layout (plain / timecode); bit1: mode
  mode 0 "stream": the remaining bytes are written verbatim to one hostile connection, split in two at a
          position taken from byte 1, with manager rounds in between, then the connection is closed (FIN or RST by byte 0 bit2)
  mode 1 "ops": the remaining bytes are a list of 11-byte raw operations (code, 5 x uint16) for the hostile profile of
          vlib.mgen (hostile frames, control frames, cuts, well-behaved publishes/subscribes, manager rounds)
Every input runs on a FRESH simulator next to a live well-behaved conversation (subscriber + publisher); the semantic
oracle is inside the target: manager alive, conversation routed exactly (World routing/framing/ack oracles), liveness
probe at the end.  A violation is written to <artifact_dir>/finding-*.json and then raised so libFuzzer keeps the input.
"""
import hashlib
import json
import os
import struct
import sys

HERE = os.path.dirname(os.path.dirname(os.path.abspath(__file__)))
sys.path.insert(0, os.path.join(os.environ.get("VERIF_REPO", "/repo"), "src"))
sys.path.insert(0, HERE)
sys.path.append(os.path.join(HERE, ".deps"))

import atheris  # noqa: E402

with atheris.instrument_imports(include=["pyrtma.manager"]):
    import pyrtma.manager  # noqa: F401,E402

from vlib import mgen  # noqa: E402
from vlib import proto as P  # noqa: E402
from vlib.common import HarnessError, Violation  # noqa: E402
from vlib.world import World  # noqa: E402

ART = sys.argv[1]
PF = None
CODES = [mgen.STEP, mgen.STEP, mgen.PUB, mgen.SUB, mgen.HFRAME, mgen.HCTRL, mgen.HGARBAGE, mgen.HCLOSE, mgen.STEP, mgen.PUB,
         mgen.HFRAME, mgen.HCTRL, mgen.HCLOSE, mgen.CLOSE, mgen.CONNECT, mgen.OPEN]


def profile():
    global PF
    if PF is None:
        from checks.c03 import HOSTILE

        PF = HOSTILE
    return PF


SETUP = [
    {"op": "open"}, {"op": "connect", "c": 0, "ver": "v2v1", "id": 10, "logger": 0, "daemon": 0, "multi": 0, "name": "a", "pid": 1},
    {"op": "open"}, {"op": "connect", "c": 1, "ver": "v2v1", "id": 11, "logger": 0, "daemon": 0, "multi": 0, "name": "b", "pid": 2},
]


def one(data: bytes):
    if len(data) < 2:
        return
    pf = profile()
    tc = bool(data[0] & 1)
    mode = (data[0] >> 1) & 1
    cfg = {"timecode": tc, "timing": True, "log": "error"}
    w = World(cfg, pf.oracles, "C03")
    try:
        for op in SETUP:
            w.apply(op)
            if op["op"] == "connect":
                m = w.mods[op["c"]]
                m.h_connect, m.h_dynamic, m.h_id = True, False, op["id"]
        w.drain()
        w.apply({"op": "sub", "c": 0, "kind": "SUBSCRIBE", "type": 1234})
        w.drain()
        if mode == 0:
            body = data[2:]
            cut = (data[1] * len(body)) // 255 if body else 0
            w.apply({"op": "hopen"})
            w.drain()
            w.apply({"op": "hsend", "h": 0, "hex": body[:cut].hex(), "desc": "stream"})
            w.apply({"op": "pub", "c": 1, "type": 1234, "dm": 0, "dh": 0, "size": 8, "src": 11})
            w.drain()
            w.apply({"op": "hsend", "h": 0, "hex": body[cut:].hex(), "then": "rst" if data[0] & 4 else "fin",
                     "gone": ["silent", "epipe", "reset", "first-ok"][(data[0] >> 3) & 3], "desc": "stream"})
            w.apply({"op": "pub", "c": 1, "type": 1234, "dm": 0, "dh": 0, "size": 0, "src": 11})
            w.drain()
        else:
            body = data[1:]
            for i in range(0, min(len(body), 11 * 60) - 10, 11):
                code = CODES[body[i] % len(CODES)]
                raw = (code,) + struct.unpack_from("<5H", body, i + 1)
                if code in (mgen.HFRAME, mgen.HCTRL, mgen.HGARBAGE, mgen.HCLOSE):
                    for op in mgen.resolve_hostile(w, raw, pf):
                        w.apply(op)
                else:
                    op = mgen.resolve(w, raw, pf)
                    if op is not None:
                        w.apply(op)
            w.drain()
        mgen.probe(w)
        w.final_checks()
    except Violation as v:
        blob = json.dumps({"property": "C03", "key": v.key, "what": v.what, "trace": v.trace}, default=str)
        name = "finding-" + hashlib.sha1(v.key.encode()).hexdigest()[:10] + ".json"
        with open(os.path.join(ART, name), "w") as f:
            f.write(blob)
        raise
    except HarnessError as e:
        with open(os.path.join(ART, "harness-error.txt"), "a") as f:
            f.write(repr(e) + "\n")
    finally:
        w.close()


def seed_corpus(d):
    os.makedirs(d, exist_ok=True)
    for tc in (False, True):
        for name, fr in mgen.protocol_frames(tc):
            with open(os.path.join(d, f"{name}-{int(tc)}"), "wb") as f:
                f.write(bytes([int(tc), 128]) + fr)


if __name__ == "__main__":
    os.makedirs(ART, exist_ok=True)
    corpus = sys.argv[2]
    if os.environ.get("FUZZ_SEED_CORPUS") == "1":
        seed_corpus(corpus)
    else:
        os.makedirs(corpus, exist_ok=True)
    atheris.Setup([sys.argv[0], corpus, f"-artifact_prefix={ART}/", "-max_len=700", "-timeout=60", "-rss_limit_mb=4096"] + sys.argv[3:], one)
    atheris.Fuzz()
