"""Scripted (enumerated) cases for Engine A: concrete operations plus the pseudo-operations
{"op": "_drain"} (serve everything pending, everybody writable) and {"op": "_probe"} (liveness probe)."""
from __future__ import annotations

from . import mgen
from .world import World


def run_script(cfg, ops, oracles, prop, res=None, harvest=None):
    w = World(cfg, set(oracles), prop)
    try:
        for op in ops:
            k = op["op"]
            if k == "_drain":
                w.drain()
            elif k == "_probe":
                mgen.probe(w)
            else:
                w.apply(op)
        w.drain()
        w.final_checks()
        if res is not None:
            if harvest:
                harvest(w, res)
            else:
                for s in w.shapes:
                    res.shape(*s)
            for k, n in w.stats.items():
                res.count(k, n)
        return w
    finally:
        w.close()
