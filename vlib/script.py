"""Scripted (enumerated) cases for Engine A: concrete operations plus the pseudo-operations
{"op": "_drain"} (serve everything pending, everybody writable) and {"op": "_probe"} (liveness probe)."""
from __future__ import annotations

from . import mgen
from .world import World


def run_script(cfg, ops, oracles, prop, res=None, harvest=None):
    w = World(cfg, set(oracles), prop)
    try:
        for op in ops:
            k = op["op"]
            if k == "_drain":
                w.drain()
            elif k == "_probe":
                mgen.probe(w)
            else:
                w.apply(op)
        w.drain()
        w.final_checks()
        if res is not None:
            if harvest:
                harvest(w, res)
            else:
                for s in w.shapes:
                    res.shape(*s)
            for k, n in w.stats.items():
                res.count(k, n)
        return w
    finally:
        w.close()


# ---- full dynamic-id pool: departures and reuse ----------------------------------------------------------
def _dyn_connect(c, ver="v2v1"):
    return [{"op": "open"}, {"op": "connect", "c": c, "ver": ver, "id": 0, "logger": 0, "daemon": 0, "multi": 0,
                             "name": "", "pid": 1}, {"op": "_drain"}]


def pool_cycle_ops(setup, first_conn, prefill, refusals, cycles):
    """All 100 dynamic ids get assigned (after `prefill` = list of ("c",)/("l", k) connect/leave steps that move the
    rotating start), `refusals` further requests arrive while the pool is full (they may be refused), then for each
    (pick, way, extra_refusals) in `cycles` the pick-th most recently assigned holder leaves (way 0 DISCONNECT, 1 FIN,
    2 RST) and a new request for a dynamic id arrives at once - it must be accepted, because an id is free - followed
    by `extra_refusals` requests against the full pool.  Returns (ops, number of connects that must be accepted)."""
    ops = list(setup) + [{"op": "_drain"}]
    live = []  # connection indices in order of assignment
    nxt = first_conn
    must = 0
    for step in prefill:
        if step[0] == "c" or not live:
            ops += _dyn_connect(nxt, ["v2v1", "v1", "v2"][nxt % 3])
            live.append(nxt)
            must += 1
            nxt += 1
        else:
            v = live.pop(step[1] % len(live))
            ops += [{"op": "disconnect", "c": v}, {"op": "_drain"}]
    while len(live) < 100:
        ops += _dyn_connect(nxt)
        live.append(nxt)
        must += 1
        nxt += 1
    for _ in range(refusals):
        ops += _dyn_connect(nxt)
        nxt += 1
    for pick, way, extra in cycles:
        v = live.pop(len(live) - 1 - (pick % len(live)))
        ops.append({"op": "disconnect", "c": v} if way == 0 else
                   {"op": "close", "c": v, "how": "fin" if way == 1 else "rst", "gone": "silent"})
        ops.append({"op": "_drain"})
        ops += _dyn_connect(nxt)
        live.append(nxt)
        must += 1
        nxt += 1
        for _ in range(extra):
            ops += _dyn_connect(nxt)
            nxt += 1
    ops.append({"op": "_probe"})
    return ops, must
