"""ManagerWorld: the real manager on the simulator + an independent reference model + oracles.

The reference model is written from the property statements, the protocol definition
(core_defs.yaml) and the client's mirror of the protocol; it never reads manager internals.
Observation is only what a client could see: the bytes that arrived on its connection and whether
the connection was closed.

Concrete operations (JSON dicts, replayable without Hypothesis):
  {"op":"open"}
  {"op":"connect","c":i,"ver":"v1"|"v2"|"v2v1","id":int,"logger":0/1,"daemon":0/1,"multi":0/1,"name":str,"pid":int}
  {"op":"sub","c":i,"kind":"SUBSCRIBE"|"UNSUBSCRIBE"|"PAUSE"|"RESUME","type":int}
  {"op":"pub","c":i,"type":int,"dm":int,"dh":int,"size":int}
  {"op":"ready","c":i,"pid":int} {"op":"setname","c":i,"name":str} {"op":"disconnect","c":i}
  {"op":"close","c":i,"how":"fin"|"rst","partial":int,"gone":"silent"|"epipe"|"reset"|"first-ok"}
  {"op":"fault","c":i,"seq":"next","after":k,"exc":"epipe"|"reset"}
  {"op":"step","ready":[i|"L",...],"writable":[i,...],"dt":float}
"""
from __future__ import annotations

import logging
import struct
from collections import Counter, deque
from typing import Dict, List, Optional

from . import proto as P
from .common import HarnessError, Violation
from .simnet import LISTENER, Sim

LOGLEVELS = {"error": logging.ERROR, "info": logging.INFO, "silent": logging.CRITICAL + 10, "debug": logging.DEBUG}


class MMod:
    """Model of one connection as the manager is specified to see it."""

    def __init__(self, idx, conn):
        self.idx = idx
        self.conn = conn
        self.accepted = False
        self.tracked = False  # manager holds the connection
        self.connected = False
        self.mod_id = 0
        self.name = b""
        self.pid = 0
        self.logger = False
        self.daemon = False
        self.unique = True
        self.S = set()
        self.A = False
        self.queue = deque()  # units the harness sent and the manager has not consumed
        self.client_closed = None  # None | "fin" | "rst": the harness closed its end
        self.gone_mode = "silent"
        self.uid = 0
        self.port = 0
        self.msg_count = 0  # next expected sequence number - 1
        self.since_logger_acks: List[int] = []
        self.id_pending = False  # dynamic id not yet learned from the ACK
        self.faulted = False  # a write fault was injected on the manager->client direction
        self.closed_notices = 0
        self.expect_closed_by_manager = False
        self.removed_at = None
        self.fault = None  # pending targeted write fault
        self.maybe_removed = False  # doomed: write-side discovery may have happened (observed)

    def subscribed(self, t):
        return self.A or t in self.S

    def brief(self):
        return dict(c=self.idx, id=self.mod_id, lg=int(self.logger), A=int(self.A), S=sorted(self.S)[:6],
                    trk=int(self.tracked), con=int(self.connected))


class World:
    def __init__(self, cfg: dict, oracles: set, prop: str):
        self.cfg = cfg
        self.prop = prop
        self.oracles = set(oracles)
        self.timecode = bool(cfg.get("timecode", False))
        self.sim = Sim(timecode=self.timecode, send_msg_timing=bool(cfg.get("timing", True)),
                       log_level=LOGLEVELS[cfg.get("log", "error")])
        self.mods: List[MMod] = []
        self.trace: List[dict] = []
        self.seq = 0
        self.pubs: Dict[int, dict] = {}
        self.W = set()  # model of the manager's current writable snapshot (MMod idx)
        self.backlog = deque()  # opened, not yet accepted
        self.uid_ctr = 0
        self.expected_now: Dict[int, list] = {}
        self.expected_acks: Dict[int, int] = {}
        self.expected_ackcopies: Dict[int, list] = {}
        self.expected_failed: list = []
        self.expected_closed: list = []
        self.stats = Counter()
        self.shapes = set()
        self.rounds = 0
        self.received_log: Dict[int, list] = {}  # per conn: tagged seqs in arrival order
        self.hooks = []  # callables(frame, mod) for profile specific observation
        self.closed_seen: Dict[int, list] = {}  # monitor idx -> list of client_closed dicts
        self.info_seen: Dict[int, list] = {}
        self.failed_seen: Dict[int, list] = {}
        self.mgr_frames: Dict[int, list] = {}
        self.interval_counts = Counter()  # C18: forwarded types since last TIMING
        self.traffic_counts = Counter()
        self.step_events: list = []

    # ------------------------------------------------------------------------------------------
    def viol(self, key, what):
        raise Violation(key, what, {"cfg": self.cfg, "oracles": sorted(self.oracles), "ops": list(self.trace)})

    def check_alive(self):
        if self.sim.dead:
            exc = self.sim.dead_exc
            import traceback as tb

            frames = tb.extract_tb(exc.__traceback__)
            inner = None
            for fr in frames:
                if fr.filename.endswith("manager.py"):
                    inner = fr
            where = f"{inner.name}" if inner else "?"
            self.viol(f"manager-died/{type(exc).__name__}/{where}",
                      f"manager run() terminated: {type(exc).__name__}: {exc} in {where}")

    # ------------------------------------------------------------------------------------------
    # operations
    def apply(self, op: dict):
        self.trace.append(op)
        k = op["op"]
        getattr(self, "op_" + k)(op)

    def _mod(self, op) -> MMod:
        return self.mods[op["c"]]

    def op_open(self, op):
        conn = self.sim.open()
        m = MMod(len(self.mods), conn)
        m.port = conn.c.addr[1]
        self.mods.append(m)
        self.backlog.append(m)
        self.received_log[m.idx] = []

    def _send(self, m: MMod, frame: bytes, unit: dict):
        if m.client_closed:
            raise HarnessError("send on a closed client")
        m.conn.send(frame)
        m.queue.append(unit)

    def hdr(self, m, msg_type, payload=b"", **kw):
        kw.setdefault("src_mod", m.mod_id if m.connected or m.mod_id else 0)
        return P.build(msg_type, payload, timecode=self.timecode, **kw)

    def op_connect(self, op):
        m = self._mod(op)
        name = op.get("name", "").encode("latin-1") if isinstance(op.get("name", ""), str) else op["name"]
        v2 = P.CONNECT_V2.pack(op["logger"], op["daemon"], op["multi"], op["id"], op.get("pid", 4242), P.cstr(name))
        v1 = P.CONNECT.pack(op["logger"], op["daemon"])
        info = dict(id=op["id"], logger=op["logger"], daemon=op["daemon"], multi=op["multi"], name=name,
                    pid=op.get("pid", 4242))
        if op["ver"] in ("v2", "v2v1"):
            self._send(m, P.build(P.MT_CONNECT_V2, v2, src_mod=op["id"], timecode=self.timecode),
                       dict(kind="connect", ver="v2", **info))
        if op["ver"] in ("v1", "v2v1"):
            self._send(m, P.build(P.MT_CONNECT, v1, src_mod=op["id"], timecode=self.timecode),
                       dict(kind="connect", ver="v1", **info))

    SUBK = {"SUBSCRIBE": P.MT_SUBSCRIBE, "UNSUBSCRIBE": P.MT_UNSUBSCRIBE, "PAUSE": P.MT_PAUSE_SUBSCRIPTION,
            "RESUME": P.MT_RESUME_SUBSCRIPTION}

    def op_sub(self, op):
        m = self._mod(op)
        self._send(m, self.hdr(m, self.SUBK[op["kind"]], P.SUBSCRIBE.pack(op["type"])),
                   dict(kind="sub", sk=op["kind"], type=op["type"]))

    def op_pub(self, op):
        m = self._mod(op)
        self.seq += 1
        seq = self.seq
        payload = P.tag_payload(seq, op["size"])
        src = op.get("src", m.mod_id)
        fr = P.build(op["type"], payload, src_mod=src, src_host=op.get("sh", 0), dest_mod=op["dm"],
                     dest_host=op["dh"], send_time=float(seq), msg_count=op.get("mc", seq & 0x7FFF),
                     reserved=op.get("ver", 0), timecode=self.timecode)
        unit = dict(kind="pub", seq=seq, type=op["type"], dm=op["dm"], dh=op["dh"], src=src,
                    sh=op.get("sh", 0), size=op["size"], payload=payload)
        self.pubs[seq] = unit
        self._send(m, fr, unit)

    def op_ready(self, op):
        m = self._mod(op)
        self._send(m, self.hdr(m, P.MT_MODULE_READY, P.MODULE_READY.pack(op.get("pid", 7))), dict(kind="ready", pid=op.get("pid", 7)))

    def op_setname(self, op):
        m = self._mod(op)
        name = op["name"].encode("latin-1")
        self._send(m, self.hdr(m, P.MT_CLIENT_SET_NAME, P.cstr(name)), dict(kind="setname", name=name))

    def op_disconnect(self, op):
        m = self._mod(op)
        self._send(m, self.hdr(m, P.MT_DISCONNECT), dict(kind="disconnect"))

    def op_raw(self, op):
        """Hostile bytes; unit describes how the manager side will see it."""
        m = self._mod(op)
        data = bytes.fromhex(op["hex"])
        m.conn.send(data)
        m.queue.append(dict(kind="raw", n=len(data), desc=op.get("desc", "")))

    def op_close(self, op):
        m = self._mod(op)
        part = op.get("partial", 0)
        if part:
            # a truncated frame: `part` bytes of a data frame header/payload
            fr = P.build(1234, b"\0" * 64, src_mod=m.mod_id, timecode=self.timecode)[:part]
            m.conn.send(fr)
        how = op.get("how", "fin")
        m.gone_mode = op.get("gone", "silent")
        m.conn.m.peer_gone_mode = m.gone_mode
        if how == "rst":
            m.conn.c.abort()
        else:
            m.conn.c.rx.clear()
            m.conn.c.close()
        m.client_closed = how
        m.queue.append(dict(kind="eof", how=how, partial=part))

    def op_fault(self, op):
        m = self._mod(op)
        m.fault = dict(after=op["after"], exc=op.get("exc", "epipe"))
        s = m.conn.m
        s.fail_after = op["after"]
        s.fail_exc = BrokenPipeError if op.get("exc", "epipe") == "epipe" else ConnectionResetError
        m.faulted = True

    # ------------------------------------------------------------------------------------------
    def ready_candidates(self) -> list:
        out = []
        if self.sim.listener.backlog:
            out.append("L")
        for m in self.mods:
            if m.tracked and self.sim.readable(m.conn):
                out.append(m.idx)
        return out

    def op_step(self, op):
        ready = op["ready"]
        writable = op["writable"]
        dt = float(op.get("dt", 0.0))
        # ---- model ----
        self.expected_now = {m.idx: [] for m in self.mods}
        self.expected_acks = {m.idx: 0 for m in self.mods}
        self.expected_ackcopies = {m.idx: [] for m in self.mods}
        self.step_events = []
        served = [r for r in ready if r != "L"]
        if ready:
            self.W = set()
        if "L" in ready and self.backlog:
            nm = self.backlog.popleft()
            nm.accepted = True
            nm.tracked = True
            self.uid_ctr += 1
            nm.uid = self.uid_ctr
        if served:
            self.W = {i for i in writable if self.mods[i].tracked}
        plan = []
        for i in served:
            m = self.mods[i]
            if not m.queue:
                raise HarnessError(f"step: conn {i} marked ready but nothing queued")
            plan.append(m)
        # ---- real ----
        rl = [LISTENER if r == "L" else self.mods[r].conn for r in ready]
        self.sim.step(rl, [self.mods[i].conn for i in writable], dt)
        self.rounds += 1
        # the model consumes after the real step so that "either" outcomes can be resolved by observation
        self.check_alive()
        for m in plan:
            if not m.tracked:
                continue  # removed earlier in this round: the manager skips it
            unit = m.queue.popleft()
            self._model_unit(m, unit)
        self._observe_all()
        self.check_alive()

    # ------------------------------------------------------------------------------------------
    # model of the manager's reaction to one unit from module m
    def _model_unit(self, m: MMod, u: dict):
        k = u["kind"]
        if k == "connect":
            self._model_connect(m, u)
        elif k == "sub":
            t = u["type"]
            if u["sk"] in ("SUBSCRIBE", "RESUME"):
                if t == P.ALL_MESSAGE_TYPES:
                    m.A = True
                    m.S = set()
                elif not m.A:
                    m.S.add(t)
            else:
                if t == P.ALL_MESSAGE_TYPES:
                    m.A = False
                    m.S = set()
                elif not m.A:
                    m.S.discard(t)
            self._ack_event(m)
            self.stats["sub"] += 1
        elif k == "pub":
            self._model_forward(m, u)
        elif k == "ready":
            m.pid = u["pid"]
        elif k == "setname":
            m.name = u["name"].split(b"\0")[0]
        elif k == "disconnect":
            self._model_remove(m, "disconnect")
        elif k == "eof":
            self._model_remove(m, "eof-" + u["how"])
        elif k == "raw":
            self._model_raw(m, u)
        else:
            raise HarnessError(f"unknown unit {k}")

    def _model_raw(self, m, u):
        # hostile input: the only specified outcome is that other clients are unaffected; whether
        # this connection survives is decided by observation
        if m.conn.manager_closed:
            self._model_remove(m, "hostile")

    def _ack_event(self, m: MMod):
        self.expected_acks[m.idx] += 1
        self.step_events.append(("ack", m.idx))
        for lg in self.mods:
            if lg.tracked and lg.logger and lg.connected:
                self.expected_ackcopies[lg.idx].append(m.idx)

    def _model_remove(self, m: MMod, why):
        m.tracked = False
        m.removed_at = self.rounds
        self.W.discard(m.idx)
        self.step_events.append(("removed", m.idx, why))
        self.expected_closed.append(dict(c=m.idx, mod_id=m.mod_id, name=m.name, logger=int(m.logger),
                                         unique=int(m.unique), port=m.port, uid=m.uid, pid=m.pid, why=why,
                                         round=self.rounds))
        if why not in ("eof-fin", "eof-rst"):
            m.expect_closed_by_manager = True

    def connect_verdict(self, m: MMod, u: dict) -> str:
        """must-accept / must-refuse / either, from the C06 statement."""
        rid = u["id"]
        multi = bool(u["multi"]) if u["ver"] == "v2" else False
        name = u["name"].split(b"\0")[0] if u["ver"] == "v2" else b""
        if rid == 0:
            used = {x.mod_id for x in self.mods if x.tracked and x is not m}
            free = [i for i in range(P.DYN_MOD_ID_START, P.MAX_MODULES) if i not in used]
            return "accept" if free else "either"
        if rid < 0 or rid > P.DYN_MOD_ID_START:
            return "refuse"
        verdict = "accept"
        if rid == P.DYN_MOD_ID_START:
            verdict = "either"  # client class forbids 100, manager's message allows it
        for x in self.mods:
            if x is m or not x.tracked:
                continue
            if x.mod_id == rid:
                if x.unique or not multi:
                    return "refuse"
            if name and x.name == name:
                if x.unique:
                    return "refuse"
                if not multi:
                    verdict = "either"  # only the newcomer is unique
        if name == b"message_manager":
            verdict = "either" if verdict == "accept" else verdict
        return verdict

    def _model_connect(self, m: MMod, u: dict):
        if m.connected:
            self.step_events.append(("connect-ignored", m.idx))
            return  # v1 after v2 (or any repeat): ignored, not acknowledged
        verdict = self.connect_verdict(m, u)
        closed = m.conn.manager_closed
        self.stats["connect-" + verdict] += 1
        if verdict == "refuse" or (verdict == "either" and closed):
            if "identity" in self.oracles and not closed:
                self.viol("identity/not-refused", f"connect request {self._u(u)} by conn {m.idx} must be refused "
                          f"(live modules: {[x.brief() for x in self.mods if x.tracked and x is not m]}) but the connection is still open")
            # fields are set before the check in any implementation; CLIENT_CLOSED may describe them
            m.mod_id_req = u["id"]
            self._model_remove(m, "refused")
            m.refused_req = u
            return
        if "identity" in self.oracles and closed and verdict == "accept":
            self.viol("identity/wrongly-refused", f"connect request {self._u(u)} by conn {m.idx} must be accepted "
                      f"(live modules: {[x.brief() for x in self.mods if x.tracked and x is not m]}) but the manager closed the connection")
        if closed:
            # accept expected but closed and identity oracle off: still a routing-relevant divergence
            self.viol("connect/closed-unexpectedly", f"manager closed conn {m.idx} on an acceptable connect {self._u(u)}")
        m.connected = True
        m.logger = u["logger"] == 1
        m.daemon = u["daemon"] == 1
        if u["ver"] == "v2":
            m.unique = u["multi"] == 0
            m.pid = u["pid"]
            m.name = u["name"].split(b"\0")[0]
        if u["id"] != 0:
            m.mod_id = u["id"]
        else:
            m.mod_id = -(1000 + m.idx)  # placeholder until the ACK tells the assigned id
            m.id_pending = True
        self._ack_event(m)

    @staticmethod
    def _u(u):
        return {k: (v.decode("latin-1") if isinstance(v, bytes) else v) for k, v in u.items() if k != "payload"}

    def _model_forward(self, src: MMod, u: dict):
        t, dm, dh = u["type"], u["dm"], u["dh"]
        self.interval_counts[t] += 1
        self.traffic_counts[t] += 1
        self.stats["pub"] += 1
        if dm < 0 or dm > P.MAX_MODULES or dh < 0 or dh > P.MAX_HOSTS:
            self.stats["pub-out-of-range"] += 1
            u["recipients"] = []
            return
        rec, failed, nonrec = [], [], 0
        for x in self.mods:
            if not x.tracked:
                continue
            if not x.subscribed(t):
                nonrec += 1
                continue
            passes = dm == 0 or x.mod_id == dm or x.logger
            able = x.idx in self.W or x.logger
            if not able:
                failed.append(x.idx)
                self.expected_failed.append(dict(seq=u["seq"], sub=x.idx, sub_id=x.mod_id, type=t, src=u["src"], dm=dm,
                                                 passes=passes, round=self.rounds))
                continue
            if passes:
                rec.append(x.idx)
                self.expected_now[x.idx].append(u["seq"])
            else:
                nonrec += 1
        u["recipients"] = rec
        u["unwritable"] = failed
        if rec and (nonrec or failed):
            self.stats["pub-nontrivial"] += 1
            self.shapes.add(("route", self._tclass(t), 0 if dm == 0 else 1, self._szclass(u["size"]),
                             min(len(rec), 3), min(nonrec, 3), min(len(failed), 2),
                             any(self.mods[i].logger for i in rec), any(self.mods[i].A for i in rec),
                             src.idx in rec))
        if failed:
            self.stats["pub-with-unwritable"] += 1

    @staticmethod
    def _tclass(t):
        if t < 0:
            return "neg"
        if t < 100:
            return "core"
        if t < 10000:
            return "user"
        return "big"

    @staticmethod
    def _szclass(n):
        return 0 if n == 0 else 1 if n < 8 else 2 if n < 1000 else 3 if n < 65535 else 4

    # ------------------------------------------------------------------------------------------
    # observation + oracles
    def _observe_conn(self, m: MMod, final=False):
        if m.client_closed:
            return []
        data = m.conn.take()
        if data:
            m.conn.rxbuf += data
        try:
            frames = P.parse_stream(m.conn.rxbuf, self.timecode)
        except ValueError as e:
            self.viol("framing/negative-size", f"conn {m.idx}: {e}")
        tagged = []
        for fr in frames:
            m.msg_count += 1
            if "framing" in self.oracles and fr.msg_count != m.msg_count:
                self.viol("seqno/gap-or-repeat", f"conn {m.idx}: frame #{m.msg_count} on this connection "
                          f"(type {fr.msg_type}) carries msg_count {fr.msg_count}")
            if fr.src_mod_id != 0:
                tagged.append(fr)
                self._on_tagged(m, fr)
            else:
                self._on_mgr_frame(m, fr)
        if "framing" in self.oracles and m.conn.rxbuf and not m.faulted:
            self.viol("framing/partial-frame", f"conn {m.idx}: {len(m.conn.rxbuf)} bytes of an incomplete frame "
                      f"left after the manager finished a round")
        return tagged

    def _on_tagged(self, m: MMod, fr: P.Frame):
        seq = P.tag_of(fr)
        u = self.pubs.get(seq) if seq is not None else None
        if u is None:
            self.viol("routing/invented-frame", f"conn {m.idx} received a client frame that was never published: {fr.brief()}")
        self.step_got.setdefault(m.idx, []).append(seq)
        self.received_log[m.idx].append(seq)
        if "routing" in self.oracles:
            bad = []
            if fr.msg_type != u["type"]:
                bad.append(("msg_type", u["type"], fr.msg_type))
            if fr.src_mod_id != u["src"]:
                bad.append(("src_mod_id", u["src"], fr.src_mod_id))
            if fr.src_host_id != u["sh"]:
                bad.append(("src_host_id", u["sh"], fr.src_host_id))
            if fr.dest_mod_id != u["dm"]:
                bad.append(("dest_mod_id", u["dm"], fr.dest_mod_id))
            if fr.dest_host_id != u["dh"]:
                bad.append(("dest_host_id", u["dh"], fr.dest_host_id))
            if fr.num_data_bytes != u["size"]:
                bad.append(("num_data_bytes", u["size"], fr.num_data_bytes))
            if fr.payload != u["payload"]:
                bad.append(("payload", len(u["payload"]), "differs"))
            if bad:
                self.viol("routing/modified", f"publish #{seq} arrived modified at conn {m.idx}: {bad}")

    def _on_mgr_frame(self, m: MMod, fr: P.Frame):
        t = fr.msg_type
        self.step_mgr.setdefault(m.idx, []).append(fr)
        if t == P.MT_ACKNOWLEDGE:
            if m.id_pending and m.connected:
                self._learn_dynamic_id(m, fr.dest_mod_id)
        for h in self.hooks:
            h(m, fr)

    def _learn_dynamic_id(self, m: MMod, mid: int):
        if True:
            if not (P.DYN_MOD_ID_START <= mid < P.MAX_MODULES):
                self.viol("identity/dynamic-out-of-range", f"conn {m.idx} asked for a dynamic id and was given {mid}")
            for x in self.mods:
                if x is not m and x.tracked and x.mod_id == mid:
                    self.viol("identity/dynamic-in-use", f"conn {m.idx} was given dynamic id {mid} which live conn {x.idx} holds")
        m.mod_id = mid
        m.id_pending = False

    def _observe_all(self):
        self.step_got: Dict[int, list] = {}
        self.step_mgr: Dict[int, list] = {}
        for m in self.mods:
            self._observe_conn(m)
        # routing: per step, per live connection, exactly the expected tagged frames
        if "routing" in self.oracles:
            for m in self.mods:
                if m.client_closed:
                    continue
                exp = self.expected_now.get(m.idx, [])
                got = self.step_got.get(m.idx, [])
                if Counter(exp) != Counter(got):
                    missing = list((Counter(exp) - Counter(got)).elements())
                    extra = list((Counter(got) - Counter(exp)).elements())
                    if missing:
                        u = self.pubs[missing[0]]
                        self.viol("routing/missing", f"conn {m.idx} {m.brief()} should have received publish "
                                  f"{self._u(u)} in round {self.rounds} but did not (W={sorted(self.W)})")
                    u = self.pubs[extra[0]]
                    dup = Counter(got)[extra[0]] > 1
                    self.viol("routing/duplicate" if dup and extra[0] in exp else "routing/extra",
                              f"conn {m.idx} {m.brief()} received publish {self._u(u)} "
                              f"{'twice' if dup else 'although it is not an eligible recipient'} in round {self.rounds} (W={sorted(self.W)})")
        if "order" in self.oracles:
            for m in self.mods:
                if m.client_closed:
                    continue
                exp = self.expected_now.get(m.idx, [])
                got = self.step_got.get(m.idx, [])
                if exp != got and Counter(exp) == Counter(got):
                    self.viol("order/reordered", f"conn {m.idx} received publishes {got} but they were processed in order {exp}")
        if "ack" in self.oracles:
            self._check_acks()
        for m in self.mods:
            if m.expect_closed_by_manager and not m.client_closed and not m.conn.manager_closed:
                self.viol("departure/not-closed", f"conn {m.idx} was refused or disconnected but the manager left its connection open")
            if "framing" in self.oracles and m.tracked and not m.client_closed and m.conn.manager_closed and not m.faulted:
                self.viol("departure/closed-unexpectedly", f"manager closed conn {m.idx} {m.brief()} although it did nothing wrong")

    def _check_acks(self):
        for m in self.mods:
            if m.client_closed:
                continue
            acks = [f for f in self.step_mgr.get(m.idx, []) if f.msg_type == P.MT_ACKNOWLEDGE]
            own = self.expected_acks.get(m.idx, 0)
            copies = [self.mods[i].mod_id for i in self.expected_ackcopies.get(m.idx, [])]
            for f in acks:
                if f.num_data_bytes != 0 or f.src_mod_id != 0:
                    self.viol("ack/malformed", f"conn {m.idx}: ACK with payload or wrong source {f.brief()}")
            got = [f.dest_mod_id for f in acks]
            is_logger = m.logger and m.connected
            if not is_logger:
                # removed in this very round after its ack was sent is still fine
                exp = [m.mod_id] * own
                if got != exp:
                    self.viol("ack/count-or-dest", f"conn {m.idx} {m.brief()}: expected ACKs addressed {exp} in round "
                              f"{self.rounds}, got {got}; events {self.step_events}")
            else:
                # a logger receives the copy of every ack; for its own requests answer + copy (1 or 2 frames)
                if not self._match_logger_acks(got, copies, m.mod_id):
                    self.viol("ack/logger-copies", f"logger conn {m.idx} (id {m.mod_id}): ACK copies {got} do not match the "
                              f"processing order of acknowledged requests {copies}")

    @staticmethod
    def _match_logger_acks(got, exp, own_id):
        # every e in exp consumes one frame; an own event may consume two
        from functools import lru_cache

        @lru_cache(maxsize=None)
        def go(i, j):
            if j == len(exp):
                return i == len(got)
            if i < len(got) and got[i] == exp[j]:
                if go(i + 1, j + 1):
                    return True
                if exp[j] == own_id and i + 1 < len(got) and got[i + 1] == own_id and go(i + 2, j + 1):
                    return True
            return False

        return go(0, 0)

    # ------------------------------------------------------------------------------------------
    def drain(self, max_rounds=200000):
        """Serve everything pending with everyone writable (quiescence)."""
        n = 0
        while True:
            cand = self.ready_candidates()
            if not cand:
                break
            live = [m.idx for m in self.mods if m.accepted and not m.client_closed]
            self.apply({"op": "step", "ready": cand, "writable": live, "dt": 0.0})
            n += 1
            if n > max_rounds:
                raise HarnessError("drain does not terminate")

    def close(self):
        self.sim.close()
