"""ManagerWorld: the real manager on the simulator + an independent reference model + oracles.

The reference model is written from the property statements, the protocol definition
(core_defs.yaml) and the client's mirror of the protocol; it never reads manager internals.
Observation is only what a client could see: the bytes that arrived on its connection and whether
the connection was closed.

Concrete operations (JSON dicts, replayable without Hypothesis):
  {"op":"open"}
  {"op":"connect","c":i,"ver":"v1"|"v2"|"v2v1","id":int,"logger":0/1,"daemon":0/1,"multi":0/1,"name":str,"pid":int}
  {"op":"sub","c":i,"kind":"SUBSCRIBE"|"UNSUBSCRIBE"|"PAUSE"|"RESUME","type":int}
  {"op":"pub","c":i,"type":int,"dm":int,"dh":int,"size":int}
  {"op":"ready","c":i,"pid":int} {"op":"setname","c":i,"name":str} {"op":"disconnect","c":i}
  {"op":"close","c":i,"how":"fin"|"rst","partial":int,"gone":"silent"|"epipe"|"reset"|"first-ok"}
  {"op":"fault","c":i,"seq":"next","after":k,"exc":"epipe"|"reset"}
  {"op":"step","ready":[i|"L",...],"writable":[i,...],"dt":float}
"""
from __future__ import annotations

import logging
import struct
from collections import Counter, deque
from typing import Dict, List, Optional

from . import proto as P
from .common import HarnessError, Violation
from .simnet import LISTENER, Sim

LOGLEVELS = {"error": logging.ERROR, "warning": logging.WARNING, "info": logging.INFO, "silent": logging.CRITICAL + 10, "debug": logging.DEBUG}


class MMod:
    """Model of one connection as the manager is specified to see it."""

    def __init__(self, idx, conn):
        self.idx = idx
        self.conn = conn
        self.accepted = False
        self.tracked = False  # manager holds the connection
        self.connected = False
        self.mod_id = 0
        self.name = b""
        self.pid = 0
        self.logger = False
        self.daemon = False
        self.unique = True
        self.S = set()
        self.A = False
        self.queue = deque()  # units the harness sent and the manager has not consumed
        self.client_closed = None  # None | "fin" | "rst": the harness closed its end
        self.gone_mode = "silent"
        self.uid = 0
        self.port = 0
        self.msg_count = 0  # next expected sequence number - 1
        self.since_logger_acks: List[int] = []
        self.id_pending = False  # dynamic id not yet learned from the ACK
        self.faulted = False  # a write fault was injected on the manager->client direction
        self.closed_notices = 0
        self.expect_closed_by_manager = False
        self.removed_at = None
        self.fault = None  # pending targeted write fault
        self.maybe_removed = False
        self.gone_writes = 0
        self.fault_left = None  # bytes the manager can still write before the injected failure
        self.monitor = False

    def subscribed(self, t):
        return self.A or t in self.S

    def brief(self):
        return dict(c=self.idx, id=self.mod_id, lg=int(self.logger), A=int(self.A), S=sorted(self.S)[:6],
                    trk=int(self.tracked), con=int(self.connected))


class HMod:
    """A hostile connection: invisible to the reference model (no well-behaved client subscribes to
    what it publishes, it uses ids of its own pool); only the simulated kernel knows about it."""

    def __init__(self, idx, conn):
        self.idx = idx
        self.conn = conn
        self.accepted = False
        self.client_closed = None
        self.hostile = True

    @property
    def alive(self):
        return self.accepted and not self.conn.m.closed


class World:
    def __init__(self, cfg: dict, oracles: set, prop: str):
        self.cfg = cfg
        self.prop = prop
        self.oracles = set(oracles)
        self.timecode = bool(cfg.get("timecode", False))
        self.sim = Sim(timecode=self.timecode, send_msg_timing=bool(cfg.get("timing", True)),
                       log_level=LOGLEVELS[cfg.get("log", "error")], console=cfg.get("console", "null"), debug=cfg.get("debug", False))
        self.mods: List[MMod] = []
        self.hmods: List[HMod] = []
        self.trace: List[dict] = []
        self.seq = 0
        self.pubs: Dict[int, dict] = {}
        self.W = set()  # model of the manager's current writable snapshot (MMod idx)
        self.backlog = deque()  # opened, not yet accepted
        self.uid_ctr = 0
        self.expected_now: Dict[int, list] = {}
        self.expected_acks: Dict[int, int] = {}
        self.expected_ackcopies: Dict[int, list] = {}
        self.expected_failed: list = []
        self.expected_closed: list = []
        self.stats = Counter()
        self.closed_uids: Dict[int, set] = {}
        self.shapes = set()
        self.rounds = 0
        self.received_log: Dict[int, list] = {}  # per conn: tagged seqs in arrival order
        self.hooks = []  # callables(frame, mod) for profile specific observation
        self.closed_seen: Dict[int, list] = {}  # monitor idx -> list of client_closed dicts
        self.info_seen: Dict[int, list] = {}
        self.failed_seen: Dict[int, list] = {}
        self.mgr_frames: Dict[int, list] = {}
        self.interval_counts = Counter()  # C18: forwarded types since last TIMING
        self.traffic_counts = Counter()
        self.step_events: list = []
        self.frames_per_conn: Dict[int, dict] = {}
        self.hostile_log: list = []
        self.hostile_since_delivery: list = []

    # ------------------------------------------------------------------------------------------
    def viol(self, key, what):
        raise Violation(key, what, {"cfg": self.cfg, "oracles": sorted(self.oracles), "ops": list(self.trace)})

    def check_alive(self):
        if self.sim.dead:
            exc = self.sim.dead_exc
            import traceback as tb

            frames = tb.extract_tb(exc.__traceback__)
            inner = None
            for fr in frames:
                if fr.filename.endswith("manager.py"):
                    inner = fr
            where = f"{inner.name}" if inner else "?"
            self.viol(f"manager-died/{type(exc).__name__}/{where}",
                      f"manager run() terminated: {type(exc).__name__}: {exc} in {where}")

    # ------------------------------------------------------------------------------------------
    # operations
    def apply(self, op: dict):
        self.trace.append(op)
        k = op["op"]
        getattr(self, "op_" + k)(op)

    def _mod(self, op) -> MMod:
        return self.mods[op["c"]]

    def op_open(self, op):
        conn = self.sim.open()
        m = MMod(len(self.mods), conn)
        m.port = conn.c.addr[1]
        self.mods.append(m)
        self.backlog.append(m)
        self.received_log[m.idx] = []

    def _send(self, m: MMod, frame: bytes, unit: dict, seg: int = 0):
        if m.client_closed:
            raise HarnessError("send on a closed client")
        m.conn.send(frame, seg)
        if seg:
            self.stats["segmented-frames"] += 1
        m.queue.append(unit)

    def hdr(self, m, msg_type, payload=b"", **kw):
        kw.setdefault("src_mod", m.mod_id if m.connected or m.mod_id else 0)
        return P.build(msg_type, payload, timecode=self.timecode, **kw)

    def op_connect(self, op):
        m = self._mod(op)
        name = op.get("name", "").encode("latin-1") if isinstance(op.get("name", ""), str) else op["name"]
        v2 = P.CONNECT_V2.pack(op["logger"], op["daemon"], op["multi"], op["id"], op.get("pid", 4242), P.cstr(name))
        v1 = P.CONNECT.pack(op["logger"], op["daemon"])
        info = dict(id=op["id"], logger=op["logger"], daemon=op["daemon"], multi=op["multi"], name=name,
                    pid=op.get("pid", 4242))
        if op.get("short"):
            # a client that leaves the (empty) name away: the frame ends after the pid
            v2 = v2[:12]
        if op["ver"] in ("v2", "v2v1"):
            self._send(m, P.build(P.MT_CONNECT_V2, v2, src_mod=op.get("hsrc", op["id"]), timecode=self.timecode,
                                  dest_mod=op.get("hdm", 0), dest_host=op.get("hdh", 0)),
                       dict(kind="connect", ver="v2", **info))
        if op["ver"] in ("v1", "v2v1"):
            self._send(m, P.build(P.MT_CONNECT, v1, src_mod=op["id"], timecode=self.timecode),
                       dict(kind="connect", ver="v1", **info))

    SUBK = {"SUBSCRIBE": P.MT_SUBSCRIBE, "UNSUBSCRIBE": P.MT_UNSUBSCRIBE, "PAUSE": P.MT_PAUSE_SUBSCRIPTION,
            "RESUME": P.MT_RESUME_SUBSCRIPTION}

    def op_sub(self, op):
        m = self._mod(op)
        kw = {}
        if "hdm" in op:
            # a control frame is addressed to the manager whatever its header's destination fields say
            kw = dict(dest_mod=op["hdm"], dest_host=op.get("hdh", 0))
        self._send(m, self.hdr(m, self.SUBK[op["kind"]], P.SUBSCRIBE.pack(op["type"]), **kw),
                   dict(kind="sub", sk=op["kind"], type=op["type"]), op.get("seg", 0))

    def op_pub(self, op):
        m = self._mod(op)
        self.seq += 1
        seq = self.seq
        payload = P.tag_payload(seq, op["size"])
        src = op.get("src", m.mod_id)
        fr = P.build(op["type"], payload, src_mod=src, src_host=op.get("sh", 0), dest_mod=op["dm"],
                     dest_host=op["dh"], send_time=float(seq), msg_count=op.get("mc", seq & 0x7FFF),
                     reserved=op.get("ver", 0), timecode=self.timecode)
        unit = dict(kind="pub", c=m.idx, seq=seq, type=op["type"], dm=op["dm"], dh=op["dh"], src=src,
                    sh=op.get("sh", 0), size=op["size"], payload=payload)
        self.pubs[seq] = unit
        self._send(m, fr, unit, op.get("seg", 0))

    def op_storm(self, op):
        """n publishes of n distinct (undefined) message types, 8 bytes each, to everybody."""
        for i in range(op["n"]):
            self.op_pub({"op": "pub", "c": op["c"], "type": op["base"] + i, "dm": 0, "dh": 0, "size": 8, "src": op["src"]})

    def op_ready(self, op):
        m = self._mod(op)
        self._send(m, self.hdr(m, P.MT_MODULE_READY, P.MODULE_READY.pack(op.get("pid", 7))), dict(kind="ready", pid=op.get("pid", 7)))

    def op_setname(self, op):
        m = self._mod(op)
        name = op["name"].encode("latin-1")
        self._send(m, self.hdr(m, P.MT_CLIENT_SET_NAME, P.cstr(name)), dict(kind="setname", name=name))

    def op_disconnect(self, op):
        m = self._mod(op)
        self._send(m, self.hdr(m, P.MT_DISCONNECT), dict(kind="disconnect"))

    def op_raw(self, op):
        """Hostile bytes; unit describes how the manager side will see it."""
        m = self._mod(op)
        data = bytes.fromhex(op["hex"])
        m.conn.send(data)
        m.queue.append(dict(kind="raw", n=len(data), desc=op.get("desc", "")))

    # ---- hostile connections ------------------------------------------------------------------
    def op_hopen(self, op):
        for _ in range(op.get("n", 1)):
            conn = self.sim.open()
            h = HMod(len(self.hmods), conn)
            self.hmods.append(h)
            self.backlog.append(h)
            if op.get("hex"):
                conn.send(bytes.fromhex(op["hex"]))

    def op_hsend(self, op):
        h = self.hmods[op["h"]]
        if h.client_closed:
            return
        if op.get("hex"):
            h.conn.send(bytes.fromhex(op["hex"]))
        then = op.get("then")
        if then:
            h.conn.m.peer_gone_mode = op.get("gone", "silent")
            if then == "rst":
                h.conn.c.abort()
            else:
                h.conn.c.rx.clear()
                h.conn.c.close()
            h.client_closed = then
        self.stats["hostile-" + op.get("desc", "send").split(":")[0]] += 1
        self.hostile_log.append(op.get("desc", "send"))

    def op_close(self, op):
        m = self._mod(op)
        part = op.get("partial", 0)
        if part:
            # a truncated frame: `part` bytes of a data frame header/payload
            fr = P.build(1234, b"\0" * 64, src_mod=m.mod_id, timecode=self.timecode)[:part]
            m.conn.send(fr)
        how = op.get("how", "fin")
        m.gone_mode = op.get("gone", "silent")
        m.conn.m.peer_gone_mode = m.gone_mode
        if how == "rst":
            m.conn.c.abort()
        else:
            m.conn.c.rx.clear()
            m.conn.c.close()
        m.client_closed = how
        m.queue.append(dict(kind="eof", how=how, partial=part))

    def op_fault(self, op):
        m = self._mod(op)
        m.fault = dict(after=op["after"], exc=op.get("exc", "epipe"))
        m.fault_left = op["after"]
        s = m.conn.m
        s.fail_after = op["after"]
        s.fail_exc = BrokenPipeError if op.get("exc", "epipe") == "epipe" else ConnectionResetError
        m.faulted = True

    def op_slow(self, op):
        """The client becomes a slow reader: after `after` more bytes its receive window is full for a while.  The manager
        writes with blocking sockets, so this changes nothing that a client can observe - every frame still arrives whole."""
        m = self._mod(op)
        m.conn.m.slow_after = op["after"]
        self.stats["slow-reader-ops"] += 1

    # ------------------------------------------------------------------------------------------
    def ready_candidates(self) -> list:
        out = []
        if self.sim.listener.backlog:
            out.append("L")
        for m in self.mods:
            if m.tracked and self.sim.readable(m.conn):
                out.append(m.idx)
        for h in self.hmods:
            if h.alive and self.sim.readable(h.conn):
                out.append(f"h{h.idx}")
        return out

    def op_step(self, op):
        ready = op["ready"]
        writable = op["writable"]
        dt = float(op.get("dt", 0.0))
        # ---- model ----
        self.expected_now = {m.idx: [] for m in self.mods}
        self.expected_acks = {m.idx: 0 for m in self.mods}
        self.expected_ackcopies = {m.idx: [] for m in self.mods}
        self.step_events = []
        self.step_failed = []
        self.step_failures = []
        self.step_msgs = set()
        self.step_failmods = []
        self.step_logger_waits = 0
        waits_before = self.sim.blocking_waits
        self.step_closed = []
        self.expected_mgr = {m.idx: [] for m in self.mods}
        served = [r for r in ready if r != "L"]
        if ready:
            self.W = set()
        if "L" in ready and self.backlog:
            nm = self.backlog.popleft()
            nm.accepted = True
            self.uid_ctr += 1
            if not getattr(nm, "hostile", False):
                nm.tracked = True
                nm.uid = self.uid_ctr
        if served:
            self.W = {i for i in writable if isinstance(i, int) and self.mods[i].tracked}
        plan = []
        for i in served:
            if not isinstance(i, int):
                continue  # hostile connection: not part of the model
            m = self.mods[i]
            if not m.queue:
                raise HarnessError(f"step: conn {i} marked ready but nothing queued")
            plan.append(m)
        # ---- real ----
        def conn_of(r):
            return self.mods[r].conn if isinstance(r, int) else self.hmods[int(r[1:])].conn

        rl = [LISTENER if r == "L" else conn_of(r) for r in ready]
        self.sim.last_served = None
        self.sim.step(rl, [conn_of(i) for i in writable], dt)
        if self.sim.last_served is not None and not self.sim.dead:
            # every connection is either still watched by the manager or has been closed by it
            watched = {id(s) for s in self.sim.last_served}
            for r in ready:
                if r == "L":
                    continue
                c = conn_of(r)
                if c.accepted and id(c.m) not in watched and not c.manager_closed:
                    self.viol("departure/abandoned-open", f"round {self.rounds + 1}: conn {r} has data (or an end-of-stream) pending and its "
                              f"socket is still open at the manager, but the manager no longer waits for it - the connection was "
                              f"dropped from the manager's tables without being closed (the descriptor leaks)")
        for h in self.hmods:
            if not h.client_closed:
                h.conn.take()  # never observed; keep memory flat
        self.rounds += 1
        # the model consumes after the real step so that "either" outcomes can be resolved by observation
        self.check_alive()
        for m in plan:
            if not m.tracked:
                continue  # removed earlier in this round: the manager skips it
            unit = m.queue.popleft()
            self._model_unit(m, unit)
        nacks = sum(1 for e in self.step_events if e[0] == "ack")
        if nacks >= 2:
            self.stats["rounds-multi-ack"] += 1
            self.shapes.add(("ack-round", min(nacks, 5), min(sum(1 for x in self.mods if x.tracked and x.logger), 3),
                             any(e[0] == "connect-ignored" for e in self.step_events),
                             any(e[0] == "removed" for e in self.step_events)))
        if "failed" in self.oracles and self.step_logger_waits and self.sim.blocking_waits == waits_before:
            self.viol("failed/logger-not-waited-for", f"round {self.rounds}: {self.step_logger_waits} deliveries to logger modules that "
                      f"were not in the writable snapshot, but the manager never waited for a logger connection to become writable")
        if self.step_logger_waits:
            self.stats["logger-waits"] += self.step_logger_waits
        self.step_units = len(plan)
        self._observe_all()
        self.check_alive()

    # ------------------------------------------------------------------------------------------
    # model of the manager's reaction to one unit from module m
    def _model_unit(self, m: MMod, u: dict):
        k = u["kind"]
        if k == "connect":
            self._model_connect(m, u)
        elif k == "sub":
            t = u["type"]
            before = (m.A, frozenset(m.S))
            self._sub_before = before
            if u["sk"] in ("SUBSCRIBE", "RESUME"):
                if t == P.ALL_MESSAGE_TYPES:
                    m.A = True
                    m.S = set()
                elif not m.A:
                    m.S.add(t)
            else:
                if t == P.ALL_MESSAGE_TYPES:
                    m.A = False
                    m.S = set()
                elif not m.A:
                    m.S.discard(t)
            if (m.A, frozenset(m.S)) == before:
                self.stats["sub-noop"] += 1
                self.shapes.add(("noop", u["sk"], t == P.ALL_MESSAGE_TYPES, before[0], min(len(before[1]), 2)))
            self._ack_event(m)
            self.stats["sub"] += 1
        elif k == "pub":
            self._model_forward(m, u)
        elif k == "ready":
            m.pid = u["pid"]
            self._model_client_info(m)
        elif k == "setname":
            m.name = u["name"].split(b"\0")[0]
            self._model_client_info(m)
        elif k == "disconnect":
            self._model_remove(m, "disconnect")
        elif k == "eof":
            self._model_remove(m, "eof-" + u["how"])
        elif k == "raw":
            self._model_raw(m, u)
        else:
            raise HarnessError(f"unknown unit {k}")

    def _model_raw(self, m, u):
        # hostile input: the only specified outcome is that other clients are unaffected; whether
        # this connection survives is decided by observation
        if m.conn.manager_closed:
            self._model_remove(m, "hostile")

    # ---- manager-side write attempts -------------------------------------------------------
    def _doomed(self, x: MMod) -> bool:
        return bool(x.client_closed) and x.gone_mode != "silent"

    def _lenient(self, x: MMod) -> bool:
        """A module whose first failing write cannot be predicted exactly (it receives
        manager-originated traffic the model does not enumerate)."""
        return x.logger or x.A or bool(x.S & self.MGR_TYPES)

    ORDER_TOKEN_TYPES = frozenset({40, 41, 42, 43, 44, 45, P.MT_CLIENT_CLOSED, P.MT_MESSAGE_TRAFFIC, P.MT_TIMING_MESSAGE})
    MGR_TYPES = frozenset({P.MT_FAILED_MESSAGE, P.MT_CLIENT_INFO, P.MT_CLIENT_CLOSED, P.MT_ACTIVE_CLIENTS,
                           P.MT_MESSAGE_TRAFFIC, P.MT_TIMING_MESSAGE, 40, 41, 42, 43, 44, 45})

    def _attempt(self, x: MMod, mtype: int, size: int, about: dict) -> bool:
        """The manager writes one frame (header, then payload) to tracked module x.
        Returns True when the frame went out completely; on a write failure x is removed and the
        failure notice bookkeeping is done."""
        hs = self.sim.hsize
        fail = False
        # the simulated socket applies an injected fault first, then the peer-gone behaviour,
        # to each of the two writes (header, payload; a zero-length write does nothing)
        for part in (hs, size):
            if part == 0 or fail:
                continue
            if x.fault_left is not None:
                if part > x.fault_left:
                    fail = True
                    continue
                x.fault_left -= part
            if self._doomed(x):
                if x.gone_mode in ("epipe", "reset"):
                    fail = True
                else:  # first-ok: the first write after the peer went away still succeeds
                    if x.gone_writes >= 1:
                        fail = True
                    else:
                        x.gone_writes += 1
        if not fail:
            return True
        x.fault_left = None
        self._note_failmod(x)
        self.stats["write-failure"] += 1
        self.step_events.append(("write-failed", x.idx, mtype))
        self.step_failures.append(dict(sub=x.idx, sub_id=x.mod_id, type=mtype, about=about))
        self._model_remove(x, "write-failure")
        if mtype not in (P.MT_FAILED_MESSAGE, 40, 41, 42, 43, 44, 45):
            self._model_failed_notice(x, mtype, about)
        return False

    def _note_failmod(self, x: MMod):
        self.step_failmods.append(dict(id=x.mod_id, A=x.A or x.logger, S=set(x.S)))

    def _model_failed_notice(self, x: MMod, mtype: int, about: dict):
        """FAILED_MESSAGE naming x about message `about` is forwarded to the FAILED_MESSAGE subscribers."""
        rec = dict(sub=x.idx, sub_id=x.mod_id, type=mtype, src=about.get("src", 0), dm=about.get("dm", 0),
                   seq=about.get("seq"), round=self.rounds, required=about.get("required", False))
        self._note_failmod(x)
        self.step_failed.append(rec)
        self._model_mgr_forward(P.MT_FAILED_MESSAGE, 64, dict(kind="failed", **rec))

    def _model_mgr_forward(self, mtype: int, size: int, about: dict):
        """A manager-originated message (dest 0) goes through the same routing as client messages."""
        self.interval_counts[mtype] += 1
        self.step_msgs.add((mtype, 0, 0))
        for x in list(self.mods):
            if not x.tracked or not x.subscribed(mtype):
                continue
            able = x.idx in self.W or x.logger
            if not able:
                if mtype not in (P.MT_FAILED_MESSAGE, 40, 41, 42, 43, 44, 45):
                    self._model_failed_notice(x, mtype, dict(src=0, dm=0))
                continue
            if x.idx not in self.W:
                self.step_logger_waits += 1
            if self._attempt(x, mtype, size, dict(src=0, dm=0)):
                self.expected_mgr[x.idx].append((mtype, about))

    def _ack_event(self, m: MMod):
        self.step_events.append(("ack", m.idx))
        self.stats["ack-events"] += 1
        self.step_msgs.add((P.MT_ACKNOWLEDGE, 0, m.mod_id))
        if self._attempt(m, P.MT_ACKNOWLEDGE, 0, dict(src=0, dm=m.mod_id)):
            self.expected_acks[m.idx] += 1
        for lg in list(self.mods):
            if lg.tracked and lg.logger and lg.connected:
                if lg.idx not in self.W:
                    self.step_logger_waits += 1
                if self._attempt(lg, P.MT_ACKNOWLEDGE, 0, dict(src=0, dm=m.mod_id)):
                    self.expected_ackcopies[lg.idx].append(m.idx)

    def _model_remove(self, m: MMod, why):
        if not m.tracked:
            return
        m.tracked = False
        m.removed_at = self.rounds
        self.W.discard(m.idx)
        self.step_events.append(("removed", m.idx, why))
        rec = dict(c=m.idx, mod_id=m.mod_id, name=m.name, logger=int(m.logger), unique=int(m.unique),
                   port=m.port, uid=m.uid, pid=m.pid, why=why, round=self.rounds)
        self.expected_closed.append(rec)
        self.step_closed.append(rec)
        self.stats["departure-" + why] += 1
        stage = ("logger" if m.logger else "all" if m.A else "mgr-subs" if (m.S & self.MGR_TYPES) else "subs" if m.S
                 else "connected" if m.connected else "accepted")
        m.departed_with = (set(m.S), m.A, why, stage)
        if why not in ("eof-fin", "eof-rst", "write-failure"):
            m.expect_closed_by_manager = True
        self._model_mgr_forward(P.MT_CLIENT_CLOSED, 80, dict(kind="closed", **rec))

    def _model_client_info(self, m: MMod, optional=False):
        self._model_mgr_forward(P.MT_CLIENT_INFO, 80, dict(kind="info", optional=optional, c=m.idx, mod_id=m.mod_id, name=m.name,
                                                            logger=int(m.logger), unique=int(m.unique), port=m.port,
                                                            pid=m.pid, uid=m.uid))

    def connect_verdict(self, m: MMod, u: dict) -> str:
        """must-accept / must-refuse / either, from the C06 statement."""
        rid = u["id"]
        multi = bool(u["multi"]) if u["ver"] == "v2" else False
        name = u["name"].split(b"\0")[0] if u["ver"] == "v2" else b""
        if rid == 0:
            used = {x.mod_id for x in self.mods if x.tracked and x is not m}
            free = [i for i in range(P.DYN_MOD_ID_START, P.MAX_MODULES) if i not in used]
            return "accept" if free else "either"
        if rid < 0 or rid > P.DYN_MOD_ID_START:
            return "refuse"
        verdict = "accept"
        if rid == P.DYN_MOD_ID_START:
            verdict = "either"  # client class forbids 100, manager's message allows it
        for x in self.mods:
            if x is m or not x.tracked:
                continue
            if x.mod_id == rid:
                if x.unique or not multi:
                    return "refuse"
            if name and x.name == name:
                if x.unique:
                    return "refuse"
                if not multi:
                    verdict = "either"  # only the newcomer is unique
        if name == b"message_manager":
            verdict = "either" if verdict == "accept" else verdict
        return verdict

    def _model_connect(self, m: MMod, u: dict):
        if m.connected:
            self.step_events.append(("connect-ignored", m.idx))
            return  # v1 after v2 (or any repeat): ignored, not acknowledged
        verdict = self.connect_verdict(m, u)
        closed = m.conn.manager_closed
        self.stats["connect-" + verdict] += 1
        others = [x for x in self.mods if x.tracked and x is not m]
        nm = u["name"].split(b"\0")[0] if u["ver"] == "v2" else b""
        same_id = [x for x in others if u["id"] and x.mod_id == u["id"]]
        same_name = [x for x in others if nm and x.name == nm]
        dyn_used = sum(1 for x in others if x.mod_id >= P.DYN_MOD_ID_START)
        if same_id or same_name or (u["id"] == 0 and dyn_used):
            rid = u["id"]
            idc = ("dyn" if rid == 0 else "neg" if rid < 0 else "low" if rid < 100 else "100" if rid == 100 else "dynrange" if rid < 200 else "high")
            self.shapes.add(("identity", idc, u["ver"], int(u["multi"]) if u["ver"] == "v2" else -1, bool(nm),
                             any(x.unique for x in same_id) if same_id else None,
                             any(x.unique for x in same_name) if same_name else None, min(dyn_used, 3) if rid == 0 else 0, verdict))
            self.stats["connect-nontrivial"] += 1
        if verdict == "refuse" or (verdict == "either" and closed):
            if "identity" in self.oracles and not closed:
                self.viol("identity/not-refused", f"connect request {self._u(u)} by conn {m.idx} must be refused "
                          f"(live modules: {[x.brief() for x in self.mods if x.tracked and x is not m]}) but the connection is still open")
            # fields are set before the check in any implementation; CLIENT_CLOSED may describe them
            m.mod_id_req = u["id"]
            self._model_remove(m, "refused")
            m.refused_req = u
            return
        if closed and (self._doomed(m) or m.fault_left is not None):
            closed = False  # accepted, then the acknowledgement could not be written: modelled below
        if "identity" in self.oracles and closed and verdict == "accept":
            self.viol("identity/wrongly-refused", f"connect request {self._u(u)} by conn {m.idx} must be accepted "
                      f"(live modules: {[x.brief() for x in self.mods if x.tracked and x is not m]}) but the manager closed the connection")
        if closed:
            # accept expected but closed and identity oracle off: still a routing-relevant divergence
            self.viol("connect/closed-unexpectedly", f"manager closed conn {m.idx} on an acceptable connect {self._u(u)}")
        m.connected = True
        m.logger = u["logger"] == 1
        m.daemon = u["daemon"] == 1
        if u["ver"] == "v2":
            m.unique = u["multi"] == 0
            m.pid = u["pid"]
            m.name = u["name"].split(b"\0")[0]
        if u["id"] != 0:
            m.mod_id = u["id"]
        else:
            m.mod_id = -(1000 + m.idx)  # placeholder until the ACK tells the assigned id
            m.id_pending = True
        self._ack_event(m)
        # CLIENT_INFO follows the acknowledgement; when the acknowledgement could not be written the module is gone
        # already and is not announced (a departed client is never described again after its CLIENT_CLOSED)
        if m.tracked:
            self._model_client_info(m)

    @staticmethod
    def _u(u):
        return {k: (v.decode("latin-1") if isinstance(v, bytes) else v) for k, v in u.items() if k != "payload"}

    def _model_forward(self, src: MMod, u: dict):
        t, dm, dh = u["type"], u["dm"], u["dh"]
        self.interval_counts[t] += 1
        self.stats["pub"] += 1
        if dm < 0 or dm > P.MAX_MODULES or dh < 0 or dh > P.MAX_HOSTS:
            self.stats["pub-out-of-range"] += 1
            u["recipients"] = []
            return
        rec, failed, nonrec, wfail = [], [], 0, []
        about = dict(src=u["src"], dm=dm, seq=u["seq"])
        self.step_msgs.add((t, u["src"], dm))
        for x in self.mods:
            dw = getattr(x, "departed_with", None)
            if dw and not x.tracked and (dw[1] or t in dw[0]):
                ndep = sum(1 for e in self.step_events if e[0] == "removed")
                self.shapes.add(("departure", dw[2], dw[3], min(ndep, 3), x.removed_at == self.rounds))
                self.stats["publish-after-departure"] += 1
        for x in list(self.mods):
            if not x.tracked:
                continue  # may have been removed by a nested failure while this message is delivered
            if not x.subscribed(t):
                nonrec += 1
                continue
            passes = dm == 0 or x.mod_id == dm or x.logger
            able = x.idx in self.W or x.logger
            if not able:
                failed.append(x.idx)
                if t not in (P.MT_FAILED_MESSAGE, 40, 41, 42, 43, 44, 45):
                    self._model_failed_notice(x, t, dict(about, required=passes))
                continue
            if passes:
                if x.idx not in self.W:
                    self.step_logger_waits += 1
                exact = not self._lenient(x)
                if self._attempt(x, t, u["size"], dict(about, required=exact)):
                    rec.append(x.idx)
                    self.expected_now[x.idx].append(u["seq"])
                else:
                    wfail.append(x.idx)
            else:
                nonrec += 1
        u["recipients"] = rec
        u["unwritable"] = failed
        if rec and (nonrec or failed or wfail):
            self.stats["pub-nontrivial"] += 1
            self.shapes.add(("route", self._tclass(t), 0 if dm == 0 else 1, self._szclass(u["size"]),
                             min(len(rec), 3), min(nonrec, 3), min(len(failed), 2), min(len(wfail), 2),
                             any(self.mods[i].logger for i in rec), any(self.mods[i].A for i in rec),
                             src.idx in rec))
        if failed:
            self.stats["pub-with-unwritable"] += 1
        if wfail:
            self.stats["pub-with-write-failure"] += 1
        if (failed or wfail) and rec:
            self.shapes.add(("undeliverable", min(len(failed), 2), min(len(wfail), 2), min(len(rec), 2),
                             self._tclass(t), any(self.mods[i].logger for i in rec)))

    @staticmethod
    def _tclass(t):
        if t < 0:
            return "neg"
        if t < 100:
            return "core"
        if t < 10000:
            return "user"
        return "big"

    @staticmethod
    def _szclass(n):
        return 0 if n == 0 else 1 if n < 8 else 2 if n < 1000 else 3 if n < 65535 else 4

    # ------------------------------------------------------------------------------------------
    # observation + oracles
    def _observe_conn(self, m: MMod, final=False):
        if m.client_closed:
            return []
        data = m.conn.take()
        if data:
            m.conn.rxbuf += data
        try:
            frames = P.parse_stream(m.conn.rxbuf, self.timecode)
        except ValueError as e:
            self.viol("framing/negative-size", f"conn {m.idx}: {e}")
        tagged = []
        for fr in frames:
            fc = self.frames_per_conn.setdefault(m.idx, {"n": 0, "kinds": set()})
            fc["n"] += 1
            client_frame = self._is_client_frame(fr)
            fc["kinds"].add(-1 if client_frame else fr.msg_type)
            m.msg_count += 1
            if "framing" in self.oracles and fr.msg_count != m.msg_count:
                self.viol("seqno/gap-or-repeat", f"conn {m.idx}: frame #{m.msg_count} on this connection "
                          f"(type {fr.msg_type}) carries msg_count {fr.msg_count}")
            if client_frame:
                tagged.append(fr)
                self._on_tagged(m, fr)
            else:
                self._on_mgr_frame(m, fr)
        if "framing" in self.oracles and m.conn.rxbuf and not m.faulted:
            self.viol("framing/partial-frame", f"conn {m.idx}: {len(m.conn.rxbuf)} bytes of an incomplete frame "
                      f"left after the manager finished a round")
        return tagged

    def _is_client_frame(self, fr: P.Frame) -> bool:
        """Client publishes carry a non-zero source id - or, when a connected module published with source id 0 (a header
        field like any other: it must arrive unchanged), the tag of such a publish in a payload of at least 8 bytes."""
        if fr.src_mod_id != 0:
            return True
        if len(fr.payload) < 8:
            return False
        u = self.pubs.get(P.tag_of(fr))
        return u is not None and u["src"] == 0 and u["type"] == fr.msg_type and u["size"] == fr.num_data_bytes

    def _on_tagged(self, m: MMod, fr: P.Frame):
        seq = P.tag_of(fr)
        u = self.pubs.get(seq) if seq is not None else None
        if u is None:
            self.viol("routing/invented-frame", f"conn {m.idx} received a client frame that was never published: {fr.brief()}")
        self.step_got.setdefault(m.idx, []).append(seq)
        self.received_log[m.idx].append(seq)
        if "routing" in self.oracles:
            bad = []
            if fr.msg_type != u["type"]:
                bad.append(("msg_type", u["type"], fr.msg_type))
            if fr.src_mod_id != u["src"]:
                bad.append(("src_mod_id", u["src"], fr.src_mod_id))
            if fr.src_host_id != u["sh"]:
                bad.append(("src_host_id", u["sh"], fr.src_host_id))
            if fr.dest_mod_id != u["dm"]:
                bad.append(("dest_mod_id", u["dm"], fr.dest_mod_id))
            if fr.dest_host_id != u["dh"]:
                bad.append(("dest_host_id", u["dh"], fr.dest_host_id))
            if fr.num_data_bytes != u["size"]:
                bad.append(("num_data_bytes", u["size"], fr.num_data_bytes))
            if fr.payload != u["payload"]:
                bad.append(("payload", len(u["payload"]), "differs"))
            if bad:
                self.viol("routing/modified", f"publish #{seq} arrived modified at conn {m.idx}: {bad}")

    def _on_mgr_frame(self, m: MMod, fr: P.Frame):
        t = fr.msg_type
        self.step_mgr.setdefault(m.idx, []).append(fr)
        if "order" in self.oracles and t in self.ORDER_TOKEN_TYPES:
            # manager-originated messages whose content is unique per message (log records carry their creation time,
            # CLIENT_CLOSED the connection's uid, MESSAGE_TRAFFIC its sequence numbers, TIMING its send time) are the same
            # message at every receiver: they take part in the "same relative order at any two receivers" check.
            # (CLIENT_INFO, FAILED_MESSAGE, ACTIVE_CLIENTS can be re-sent with identical content and are left out.)
            import hashlib

            self.received_log[m.idx].append(("M", t, hashlib.sha1(fr.payload).hexdigest()[:12]))
        elif "order" in self.oracles and t == P.MT_FAILED_MESSAGE and fr.src_mod_id == 0 and len(fr.payload) >= 16 + 48:
            # a failure notice about a CLIENT's publish is unique as well: it names the recipient and embeds the original
            # header, whose send_time the harness sets to the publish's sequence number (notices about manager-originated
            # messages can repeat with identical content and stay out; identical notices about two instances of one module
            # id are dropped by the "occurs once" rule of final_checks)
            import hashlib
            import struct

            emb_src = struct.unpack_from("<h", fr.payload, 16 + 26)[0]  # src_mod_id of the embedded header
            if emb_src != 0:
                self.received_log[m.idx].append(("M", t, hashlib.sha1(fr.payload).hexdigest()[:12]))
        if fr.src_mod_id == 0 and t in (P.MT_CLIENT_CLOSED, P.MT_CLIENT_INFO) and len(fr.payload) >= P.CLIENT_INFO.size:
            # a departed client leaves no trace: once a connection has been reported closed, the manager never describes it
            # again (the uid is unique per accepted connection)
            uid = P.parse_client_info(fr.payload)["uid"]
            seen = self.closed_uids.setdefault(m.idx, set())
            if t == P.MT_CLIENT_CLOSED:
                if uid in seen:
                    self.viol("closed/duplicate", f"conn {m.idx} received a second CLIENT_CLOSED notice for the connection with uid {uid} "
                              f"({P.parse_client_info(fr.payload)})")
                seen.add(uid)
            elif uid in seen:
                self.viol("closed/announced-after-closed", f"conn {m.idx} received CLIENT_INFO for the connection with uid {uid} "
                          f"({P.parse_client_info(fr.payload)}) after the CLIENT_CLOSED notice for that connection")
        if t == P.MT_ACKNOWLEDGE:
            if m.id_pending and m.connected:
                self._learn_dynamic_id(m, fr.dest_mod_id)
        for h in self.hooks:
            h(m, fr)

    def _learn_dynamic_id(self, m: MMod, mid: int):
        if True:
            if not (P.DYN_MOD_ID_START <= mid < P.MAX_MODULES):
                self.viol("identity/dynamic-out-of-range", f"conn {m.idx} asked for a dynamic id and was given {mid}")
            for x in self.mods:
                if x is not m and x.tracked and x.mod_id == mid:
                    self.viol("identity/dynamic-in-use", f"conn {m.idx} was given dynamic id {mid} which live conn {x.idx} holds")
        m.mod_id = mid
        m.id_pending = False

    def _observe_all(self):
        self.step_got: Dict[int, list] = {}
        self.step_mgr: Dict[int, list] = {}
        for m in self.mods:
            self._observe_conn(m)
        # routing: per step, per live connection, exactly the expected tagged frames
        if "routing" in self.oracles:
            for m in self.mods:
                if m.client_closed:
                    continue
                exp = self.expected_now.get(m.idx, [])
                got = self.step_got.get(m.idx, [])
                if Counter(exp) != Counter(got):
                    missing = list((Counter(exp) - Counter(got)).elements())
                    extra = list((Counter(got) - Counter(exp)).elements())
                    if missing:
                        u = self.pubs[missing[0]]
                        self.viol("routing/missing", f"conn {m.idx} {m.brief()} should have received publish "
                                  f"{self._u(u)} in round {self.rounds} but did not (W={sorted(self.W)})")
                    u = self.pubs[extra[0]]
                    dup = Counter(got)[extra[0]] > 1
                    self.viol("routing/duplicate" if dup and extra[0] in exp else "routing/extra",
                              f"conn {m.idx} {m.brief()} received publish {self._u(u)} "
                              f"{'twice' if dup else 'although it is not an eligible recipient'} in round {self.rounds} (W={sorted(self.W)})")
        if "ack" in self.oracles:
            self._check_acks()
        if "closed" in self.oracles:
            self._check_closed()
        if "failed" in self.oracles:
            self._check_failed()
            self._check_cascade()
        if "info" in self.oracles:
            self._check_info()
        for m in self.mods:
            if m.expect_closed_by_manager and not m.client_closed and not m.conn.manager_closed:
                self.viol("departure/not-closed", f"conn {m.idx} was refused or disconnected but the manager left its connection open")
            if "framing" in self.oracles and m.tracked and not m.client_closed and m.conn.manager_closed and not m.faulted:
                self.viol("departure/closed-unexpectedly", f"manager closed conn {m.idx} {m.brief()} although it did nothing wrong")

    def _check_cascade(self):
        """An undeliverable notice or log message never produces a further one: the same log record (everything but its
        creation time) cannot arrive more often in one round than there were frames served in that round (each record
        needs its own triggering event; generous factor 4).  Hostile connections can repeat one error at will: skipped."""
        if self.hmods:
            return
        bound = 4 * (getattr(self, "step_units", 0) + 2)
        for idx, frs in self.step_mgr.items():
            c = Counter((fr.msg_type, fr.payload[8:]) for fr in frs if fr.msg_type in P.MT_RTMA_LOGS)
            if c:
                self.stats["log-records-observed"] += sum(c.values())
                (t, body), n = c.most_common(1)[0]
                if n > bound:
                    text = body[8 + 128 + 512 + 256:].split(b"\0")[0].decode("latin1")
                    self.viol("failed/notice-cascade", f"round {self.rounds}: conn {idx} received the same log record {n} times "
                              f"(type {t}: {text[:120]!r}) although only {self.step_units} frames were served in this round")

    def _check_acks(self):
        for m in self.mods:
            if m.client_closed:
                continue
            acks = [f for f in self.step_mgr.get(m.idx, []) if f.msg_type == P.MT_ACKNOWLEDGE]
            own = self.expected_acks.get(m.idx, 0)
            copies = [self.mods[i].mod_id for i in self.expected_ackcopies.get(m.idx, [])]
            for f in acks:
                if f.num_data_bytes != 0 or f.src_mod_id != 0:
                    self.viol("ack/malformed", f"conn {m.idx}: ACK with payload or wrong source {f.brief()}")
            got = [f.dest_mod_id for f in acks]
            is_logger = m.logger and m.connected
            if is_logger and self.hmods:
                continue  # copies of acknowledgements to hostile connections (not modelled) arrive here too
            if not is_logger:
                # removed in this very round after its ack was sent is still fine
                exp = [m.mod_id] * own
                if got != exp:
                    self.viol("ack/count-or-dest", f"conn {m.idx} {m.brief()}: expected ACKs addressed {exp} in round "
                              f"{self.rounds}, got {got}; events {self.step_events}")
            else:
                # a logger receives the copy of every ack; for its own requests answer + copy (1 or 2 frames)
                if not self._match_logger_acks(got, copies, m.mod_id):
                    self.viol("ack/logger-copies", f"logger conn {m.idx} (id {m.mod_id}): ACK copies {got} do not match the "
                              f"processing order of acknowledged requests {copies}")

    def _check_closed(self):
        for m in self.mods:
            if m.client_closed or not m.accepted:
                continue
            exp = [a for (t, a) in self.expected_mgr.get(m.idx, []) if t == P.MT_CLIENT_CLOSED]
            got = [P.parse_client_info(f.payload) for f in self.step_mgr.get(m.idx, []) if f.msg_type == P.MT_CLIENT_CLOSED]
            eports = Counter(a["port"] for a in exp)
            gports = Counter(g["port"] for g in got)
            if eports != gports:
                missing = list((eports - gports).elements())
                extra = list((gports - eports).elements())
                if missing:
                    a = [x for x in exp if x["port"] == missing[0]][0]
                    self.viol("closed/missing", f"conn {m.idx} (subscribed to CLIENT_CLOSED, writable) got no CLIENT_CLOSED for "
                              f"departed conn {a['c']} ({a['why']}) in round {self.rounds}; events {self.step_events}")
                dup = [p for p in extra if self._port_departed(p)]
                self.viol("closed/duplicate" if dup else "closed/invented",
                          f"conn {m.idx} received CLIENT_CLOSED for port {extra[0]} "
                          f"{'again' if dup else 'which belongs to no departed connection'} in round {self.rounds}; events {self.step_events}")
            for g in got:
                a = [x for x in exp if x["port"] == g["port"]][0]
                if a["why"] == "refused":
                    continue  # what a refused request is described as is not specified
                mm = self.mods[a["c"]]
                bad = []
                if a["mod_id"] >= 0 and g["mod_id"] != a["mod_id"]:
                    bad.append(("mod_id", a["mod_id"], g["mod_id"]))
                if g["name"] != a["name"]:
                    bad.append(("name", a["name"], g["name"]))
                if g["is_logger"] != a["logger"]:
                    bad.append(("is_logger", a["logger"], g["is_logger"]))
                if g["is_unique"] != a["unique"]:
                    bad.append(("is_unique", a["unique"], g["is_unique"]))
                if bad:
                    self.viol("closed/wrong-description", f"CLIENT_CLOSED for conn {a['c']} does not describe it: {bad}")
        # kernel-level consistency: a departed connection's socket is closed by the manager
        for m in self.mods:
            if m.accepted and not m.tracked and not m.conn.m.closed:
                self.viol("closed/socket-left-open", f"conn {m.idx} departed ({[e for e in self.step_events if e[0] == 'removed']}) "
                          f"but the manager still holds its socket open")
            if m.accepted and m.tracked and m.conn.m.closed:
                self.viol("closed/closed-unexpectedly", f"the manager closed conn {m.idx} {m.brief()} which has not departed; events {self.step_events}")

    def _port_departed(self, port):
        return any(a["port"] == port for a in self.expected_closed)

    def _check_failed(self):
        for m in self.mods:
            if m.client_closed or not m.accepted:
                continue
            exp = [a for (t, a) in self.expected_mgr.get(m.idx, []) if t == P.MT_FAILED_MESSAGE]
            got = [P.parse_failed(f.payload) for f in self.step_mgr.get(m.idx, []) if f.msg_type == P.MT_FAILED_MESSAGE]
            gkeys = [(g["dest_mod_id"], g["header"]["msg_type"], g["header"]["src_mod_id"], g["header"]["dest_mod_id"]) for g in got]
            ekeys = [(a["sub_id"], a["type"], a["src"], a["dm"]) for a in exp]

            def idm(e, g):
                return e == g or (e < 0 and P.DYN_MOD_ID_START <= g < P.MAX_MODULES)

            def km(ek, gk):
                return idm(ek[0], gk[0]) and ek[1] == gk[1] and idm(ek[2], gk[2]) and idm(ek[3], gk[3])

            def possible(gk):
                # which of several failing modules is hit first inside one delivery depends on the
                # manager's internal iteration order, which no statement fixes: a notice is legitimate
                # when it names a module that was unwritable or failed in this round, about a message
                # that was forwarded in this round and that this module was a recipient of
                for fm in self.step_failmods:
                    if not idm(fm["id"], gk[0]):
                        continue
                    t = gk[1]
                    if not (fm["A"] or t in fm["S"] or t == P.MT_ACKNOWLEDGE):
                        continue
                    if any(t == mt and idm(ms, gk[2]) and idm(md, gk[3]) for (mt, ms, md) in self.step_msgs):
                        return True
                return False

            for a in exp:
                if not a.get("required"):
                    continue
                k = (a["sub_id"], a["type"], a["src"], a["dm"])
                ok = [g for g, gk in zip(got, gkeys) if km(k, gk) and (a.get("seq") is None or g["header"]["send_time"] == float(a["seq"]))]
                if not ok:
                    self.viol("failed/missing-notice", f"conn {m.idx} (subscribed to FAILED_MESSAGE, able) got no FAILED_MESSAGE naming module "
                              f"{a['sub_id']} (conn {a['sub']}) for message type {a['type']} src {a['src']} dest {a['dm']} "
                              f"in round {self.rounds}; got {gkeys}; events {self.step_events}")
            for g, gk in zip(got, gkeys):
                if g["header"]["msg_type"] in (P.MT_FAILED_MESSAGE, 40, 41, 42, 43, 44, 45):
                    self.viol("failed/notice-about-notice", f"conn {m.idx} received a FAILED_MESSAGE describing a message of type "
                              f"{g['header']['msg_type']} (failure notices and log messages must never produce further notices)")
                if not any(km(ek, gk) for ek in ekeys) and not possible(gk):
                    self.viol("failed/invented-notice", f"conn {m.idx} received FAILED_MESSAGE {gk} (subscriber id, type, src, dest) but no such "
                              f"subscriber was unwritable or failing for such a message in round {self.rounds}; expected {sorted(ekeys)}; events {self.step_events}")

    def _check_info(self):
        """CLIENT_INFO is only an observation channel for "the options take effect as named": every
        CLIENT_INFO frame received must describe the module as the model knows it after this round.
        When and how often CLIENT_INFO is published is not part of any statement and is not checked."""
        by_port = {m.port: m for m in self.mods}
        for m in self.mods:
            if m.client_closed or not m.accepted:
                continue
            for f in self.step_mgr.get(m.idx, []):
                if f.msg_type != P.MT_CLIENT_INFO:
                    continue
                g = P.parse_client_info(f.payload)
                mm = by_port.get(g["port"])
                if mm is None or not mm.tracked or not mm.connected:
                    continue  # manager itself, hostile, refused or departed connections: not specified
                bad = []
                if mm.mod_id >= 0 and g["mod_id"] != mm.mod_id:
                    bad.append(("mod_id", mm.mod_id, g["mod_id"]))
                if g["name"] != mm.name:
                    bad.append(("name", mm.name, g["name"]))
                if g["is_logger"] != int(mm.logger):
                    bad.append(("is_logger", int(mm.logger), g["is_logger"]))
                if g["is_unique"] != int(mm.unique):
                    bad.append(("is_unique", int(mm.unique), g["is_unique"]))
                if g["pid"] != mm.pid:
                    bad.append(("pid", mm.pid, g["pid"]))
                if bad:
                    self.viol("info/wrong-description", f"CLIENT_INFO for conn {mm.idx} does not describe it as requested "
                              f"(field, expected, published): {bad}")
                self.stats["client-info-checked"] += 1

    @staticmethod
    def _match_logger_acks(got, exp, own_id):
        # every e in exp consumes one frame; an own event may consume two
        from functools import lru_cache

        @lru_cache(maxsize=None)
        def go(i, j):
            if j == len(exp):
                return i == len(got)
            if i < len(got) and (got[i] == exp[j] or (exp[j] < 0 and P.DYN_MOD_ID_START <= got[i] < P.MAX_MODULES)):
                if go(i + 1, j + 1):
                    return True
                if exp[j] == own_id and i + 1 < len(got) and got[i + 1] == own_id and go(i + 2, j + 1):
                    return True
            return False

        exp = tuple(exp)
        got = tuple(got)
        return go(0, 0)

    # ------------------------------------------------------------------------------------------
    def drain(self, max_rounds=200000):
        """Serve everything pending with everyone writable (quiescence)."""
        n = 0
        while True:
            cand = self.ready_candidates()
            if not cand:
                break
            live = [m.idx for m in self.mods if m.accepted and not m.client_closed]
            live += [f"h{h.idx}" for h in self.hmods if h.alive and not h.client_closed]
            self.apply({"op": "step", "ready": cand, "writable": live, "dt": 0.0})
            n += 1
            if n > max_rounds:
                raise HarnessError("drain does not terminate")

    def final_checks(self):
        if "order" in self.oracles:
            logs = {}
            for i, l in self.received_log.items():
                cnt = Counter(l)
                l = [x for x in l if cnt[x] == 1 or isinstance(x, int)]  # identical manager records are not identifiable
                if l:
                    logs[i] = l
            for i, log in logs.items():
                last = {}
                for seq in log:
                    if not isinstance(seq, int):
                        continue
                    snd = self.pubs[seq]["c"]
                    if snd in last and last[snd] > seq:
                        self.viol("order/per-sender", f"conn {i} received publish #{seq} of sender conn {snd} after its later publish #{last[snd]}")
                    last[snd] = max(last.get(snd, 0), seq)
            keys = sorted(logs)
            for ai in range(len(keys)):
                for bi in range(ai + 1, len(keys)):
                    a, b = logs[keys[ai]], logs[keys[bi]]
                    common = set(a) & set(b)
                    if len(common) < 2:
                        continue
                    ra = [x for x in a if x in common]
                    rb = [x for x in b if x in common]
                    if ra != rb:
                        self.viol("order/receivers-disagree", f"conns {keys[ai]} and {keys[bi]} received their common messages in different "
                                  f"relative order: {ra[:12]} vs {rb[:12]}")
                    senders = {self.pubs[x]["c"] if isinstance(x, int) else "manager" for x in common}
                    if len(senders) >= 2:
                        self.shapes.add(("pair-order", min(len(common), 6), min(len(senders), 4)))

    def close(self):
        self.sim.close()
