"""Per-language extractors for the outputs of pyrtma's definition compiler (Engine B, DESIGN.md 3.2).

Every extractor returns one canonical, JSON-able *signature* ("sig"):

    {"lang": str, "load_error": None | {"type", "msg", ...},
     "constants": {name: number}, "strings": {name: str},
     "mt": {name: int}, "mid": {name: int}, "hid": {name: int}, "hash": {msg name: int},
     "defs": {name: {"cat": "struct"|"message", "id": int|None, "size": int|None, "align": int|None,
                     "hash": int|None, "error": None|{...},
                     "fields": [{"name", "len": None|int, "off": None|int, "tn": declared type name|None,
                                 "t": LEAF | {"k": "struct", "ref": def name|None, "fields": [...]|None}}]}}}
    LEAF = {"k": "char"|"int"|"uint"|"float"|"num"|"str", "w": width|None}

API
    compile_program(src, out_dir, name, real_black=False, **opts) -> Compiled   (raises CompileError)
    compile_in_subprocess(root_yaml, out_dir, name, cwd, hashseed, real_black, **opts) -> (rc, stderr)
    compile_cli(root_yaml, out_dir, name, cwd=None, extra=()) -> (rc, output)
    CompileWorker(cwd, hashseed).compile(root, out_dir, name, real_black, **opts) -> (rc, error)   one long-lived process, many closures
    sig_from_parser(parser)                      parser model (the compiler's own record)
    PyWorker().load(path) / py_load_fresh(path)  raw dump of a generated module; py_sig(raw, ref) -> sig
    c_syntax_only(header) -> (ok, stderr);  c_probe(header, ref, skip=core names) -> sig
    JsWorker().load(path) -> raw;  js_sig(raw, ref) -> sig;  js_problems(raw) -> [(kind, where, text)]
    matlab_run(text) -> tree (raises MatlabUndefined / MatlabSyntaxError / MatlabUnsupported)
    matlab_sig(tree, ref) -> sig
    diff_sigs(ref, other, lang, names=None) -> [(aspect, where, text)]
    core_names() -> set of every name defined by the shipped core YAML files
    references_core(parser) -> bool   (does a user definition use a core type name?)
    Work()  context manager: temp directory under /tmp, removed on exit
    ToolTimeout  raised when gcc / node / python worker exceed TOOL_TIMEOUT (inconclusive, never a violation)
"""
from __future__ import annotations

import atexit
import contextlib
import io
import json
import logging
import os
import re
import select
import shutil
import subprocess
import sys
import tempfile
import traceback

from vlib.common import HarnessError

REPO = os.environ.get("VERIF_REPO", "/repo")
REPO_SRC = os.path.join(REPO, "src")
PY = sys.executable or "/venv/bin/python"
TOOL_TIMEOUT = 60.0
COMPILE_TIMEOUT = 45.0  # in-process compile() normally takes 0.1-0.5 s; a compiler that spins is inconclusive, not a violation
OUT_EXT = {"py": ".py", "js": ".js", "m": ".m", "h": ".h", "yaml": "_combined.yaml", "txt": ".txt"}

# the 26 native type names common to all back ends: name -> (kind, width).  Written from the
# documented meaning of the names (sized names) and the RTMA convention long == 32 bit.
NATIVE26 = {
    "char": ("char", 1), "unsigned char": ("uint", 1), "byte": ("uint", 1),
    "int": ("int", 4), "signed int": ("int", 4), "unsigned int": ("uint", 4), "unsigned": ("uint", 4),
    "short": ("int", 2), "signed short": ("int", 2), "unsigned short": ("uint", 2),
    "long": ("int", 4), "signed long": ("int", 4), "unsigned long": ("uint", 4),
    "long long": ("int", 8), "signed long long": ("int", 8), "unsigned long long": ("uint", 8),
    "float": ("float", 4), "double": ("float", 8),
    "uint8": ("uint", 1), "uint16": ("uint", 2), "uint32": ("uint", 4), "uint64": ("uint", 8),
    "int8": ("int", 1), "int16": ("int", 2), "int32": ("int", 4), "int64": ("int", 8),
}


class ToolTimeout(Exception):
    """gcc / node / worker did not answer within TOOL_TIMEOUT: inconclusive, never a violation."""


class CompileError(Exception):
    """compile() raised.  .exc original exception, .kind its class name, .is_parser_error True for the
    compiler's own diagnostics (ParserError subclasses / FileNotFoundError), False for internal errors."""

    def __init__(self, exc: BaseException, tb: str, is_parser_error: bool):
        super().__init__(f"{type(exc).__name__}: {exc}")
        self.exc = exc
        self.kind = type(exc).__name__
        self.tb = tb
        self.is_parser_error = is_parser_error

    def innermost(self):
        """(file basename, function) of the innermost pyrtma frame."""
        frames = [f for f in traceback.extract_tb(self.exc.__traceback__) if "pyrtma" in f.filename]
        if not frames:
            return ("?", "?")
        return (os.path.basename(frames[-1].filename), frames[-1].name)


# ------------------------------------------------------------------------------------------------
# temp dirs

_TMP_ROOT = None


def _tmp_root():
    global _TMP_ROOT
    if _TMP_ROOT is None or not os.path.isdir(_TMP_ROOT) or _TMP_ROOT_PID != os.getpid():
        _new_tmp_root()
    return _TMP_ROOT


_TMP_ROOT_PID = None


def _new_tmp_root():
    global _TMP_ROOT, _TMP_ROOT_PID
    _TMP_ROOT = tempfile.mkdtemp(prefix="verif_engB_", dir="/tmp")
    _TMP_ROOT_PID = os.getpid()
    root, pid = _TMP_ROOT, _TMP_ROOT_PID

    def _clean():
        if os.getpid() == pid:
            shutil.rmtree(root, ignore_errors=True)

    atexit.register(_clean)


def cleanup():
    """Remove this process' temp root now (forked shards end with os._exit and skip atexit)."""
    global _TMP_ROOT
    for w in list(_WORKERS):
        w.close()
    if _TMP_ROOT and _TMP_ROOT_PID == os.getpid():
        shutil.rmtree(_TMP_ROOT, ignore_errors=True)
        _TMP_ROOT = None


class Work:
    """Temp directory below this process' temp root; removed on exit (also on failure)."""

    def __enter__(self):
        self.dir = tempfile.mkdtemp(prefix="w", dir=_tmp_root())
        return self

    def sub(self, name):
        p = os.path.join(self.dir, name)
        os.makedirs(p, exist_ok=True)
        return p

    def __exit__(self, *a):
        shutil.rmtree(self.dir, ignore_errors=True)
        return False


# ------------------------------------------------------------------------------------------------
# compile

_STATE = {}


class _BlackStub:
    """Stands in for the *name* `subprocess` inside pyrtma.compilers.python."""

    def __init__(self, real):
        self.real = real
        self.enabled = False

    def run(self, *a, **k):
        if not self.enabled:
            return None
        k.setdefault("stdout", subprocess.DEVNULL)
        k.setdefault("stderr", subprocess.DEVNULL)
        return self.real.run(*a, **k)

    def __getattr__(self, n):
        return getattr(self.real, n)


def _setup():
    if _STATE:
        return _STATE
    import pyrtma.compile as pc

    sys.excepthook = sys.__excepthook__
    import pyrtma.compilers.python as pyc
    import pyrtma.parser as pp

    if not hasattr(pyc, "subprocess") or not hasattr(pc, "Parser") or not hasattr(pc, "compile"):
        raise HarnessError("compiler seams missing (pyrtma.compilers.python.subprocess / pyrtma.compile.Parser)")
    stub = _BlackStub(subprocess)
    pyc.subprocess = stub
    made = []

    class RecParser(pp.Parser):
        def __init__(self, *a, **k):
            super().__init__(*a, **k)
            made.append(self)

    pc.Parser = RecParser
    _STATE.update(pc=pc, pyc=pyc, pp=pp, stub=stub, made=made)
    return _STATE


def _drop_parser_loggers():
    d = logging.Logger.manager.loggerDict
    for k in [k for k in d if k.startswith("pyrtma.parser (")]:
        lg = d.pop(k)
        for h in list(getattr(lg, "handlers", [])):
            lg.removeHandler(h)


class Compiled:
    def __init__(self, root, out_dir, name, opts, parser, paths):
        self.root, self.out_dir, self.name, self.opts, self.parser, self.paths = root, out_dir, name, opts, parser, paths


def materialize(src, src_dir):
    """src: path of a root YAML | {"files": {rel: text}, "root": rel} | Program (has .files/.root).
    Returns the root YAML path (files written below src_dir when needed)."""
    if isinstance(src, (str, os.PathLike)):
        return os.fspath(src)
    files = src["files"] if isinstance(src, dict) else src.files
    root = src["root"] if isinstance(src, dict) else src.root
    for rel, text in files.items():
        p = os.path.join(src_dir, rel)
        os.makedirs(os.path.dirname(p), exist_ok=True)
        with open(p, "w") as f:
            f.write(text)
    return os.path.join(src_dir, root)


def compile_program(src, out_dir, name="defs", real_black=False, src_dir=None, outputs=("py", "js", "m", "h", "yaml", "txt"),
                    **opts) -> Compiled:
    """Run pyrtma.compile.compile() in-process (black stubbed unless real_black).  opts: validate_alignment,
    auto_pad, import_coredefs.  Raises CompileError for anything compile() raises."""
    S = _setup()
    pp = S["pp"]
    os.makedirs(out_dir, exist_ok=True)
    root = materialize(src, src_dir or os.path.join(out_dir, "..", "src"))
    S["stub"].enabled = bool(real_black)
    del S["made"][:]
    cwd = os.getcwd()
    sink = io.StringIO()
    import signal
    import threading

    def _hang(signum, frame):
        raise ToolTimeout("in-process compile() did not return")

    armed = threading.current_thread() is threading.main_thread()
    if armed:
        old_handler = signal.signal(signal.SIGALRM, _hang)
        signal.setitimer(signal.ITIMER_REAL, COMPILE_TIMEOUT)
    try:
        with contextlib.redirect_stdout(sink), contextlib.redirect_stderr(sink):
            S["pc"].compile(defs_files=[root], out_dir=out_dir, out_name=name, python="py" in outputs,
                            javascript="js" in outputs, matlab="m" in outputs, c_lang="h" in outputs,
                            info="txt" in outputs, combined="yaml" in outputs, **opts)
    except BaseException as e:  # noqa
        if isinstance(e, (KeyboardInterrupt, SystemExit, ToolTimeout)):
            raise
        raise CompileError(e, "".join(traceback.format_exception(e)),
                           isinstance(e, (pp.ParserError, FileNotFoundError))) from None
    finally:
        if armed:
            signal.setitimer(signal.ITIMER_REAL, 0)
            signal.signal(signal.SIGALRM, old_handler)
        S["stub"].enabled = False
        os.chdir(cwd)
        _drop_parser_loggers()
        sys.excepthook = sys.__excepthook__
    parser = S["made"][0] if S["made"] else None
    paths = {k: os.path.join(out_dir, name + OUT_EXT[k]) for k in outputs}
    return Compiled(root, out_dir, name, opts, parser, paths)


_SUBPROC_COMPILE = r"""
import sys, os, json, io, contextlib
job = json.loads(sys.argv[1])
sys.path.insert(0, job["src"])
import pyrtma.compile as pc
sys.excepthook = sys.__excepthook__
import pyrtma.compilers.python as pyc, subprocess as sp
class Stub:
    def run(self, *a, **k):
        if job["black"]:
            k.setdefault("stdout", sp.DEVNULL); k.setdefault("stderr", sp.DEVNULL)
            return sp.run(*a, **k)
pyc.subprocess = Stub()
with contextlib.redirect_stdout(io.StringIO()), contextlib.redirect_stderr(io.StringIO()):
    pc.compile(defs_files=[job["root"]], out_dir=job["out"], out_name=job["name"], python=True, javascript=True,
               matlab=True, c_lang=True, info=True, combined=True, **job["opts"])
"""


_COMPILE_WORKER = r"""
import sys, os, json, io, contextlib, traceback
out = os.fdopen(os.dup(1), "w")
sys.stdout = open(os.devnull, "w")
sys.path.insert(0, sys.argv[1])
import pyrtma.compile as pc
sys.excepthook = sys.__excepthook__
import pyrtma.compilers.python as pyc, subprocess as sp
BLACK = [False]
class Stub:
    def run(self, *a, **k):
        if BLACK[0]:
            k.setdefault("stdout", sp.DEVNULL); k.setdefault("stderr", sp.DEVNULL)
            return sp.run(*a, **k)
pyc.subprocess = Stub()
REUSED = []
def reuse_compile(job):
    # what compile() does, but with ONE Parser object for every closure: clear(), parse(), then the six back ends
    import pathlib
    from pyrtma.parser import Parser
    if not REUSED:
        REUSED.append(Parser(**job["opts"]))
    p = REUSED[0]
    p.clear()
    p.parse(pathlib.Path(job["root"]))
    o, n = pathlib.Path(job["out"]), job["name"]
    pc.PyDefCompiler(p).generate(o / (n + ".py"))
    pc.JSDefCompiler(p).generate(o / (n + ".js"))
    pc.MatlabDefCompiler(p).generate(o / (n + ".m"))
    pc.CDefCompiler(p, filename=n).generate(o / (n + ".h"))
    pc.YAMLCompiler(p, filename=n).generate(o / (n + "_combined.yaml"))
    pc.InfoCompiler(p, filename=n).generate(o / (n + ".txt"))

for line in sys.stdin:
    line = line.strip()
    if not line:
        continue
    job = json.loads(line)
    BLACK[0] = bool(job["black"])
    cwd = os.getcwd()
    try:
        with contextlib.redirect_stdout(io.StringIO()), contextlib.redirect_stderr(io.StringIO()):
            if job.get("reuse"):
                reuse_compile(job)
            else:
                pc.compile(defs_files=[job["root"]], out_dir=job["out"], out_name=job["name"], python=True, javascript=True,
                           matlab=True, c_lang=True, info=True, combined=True, **job["opts"])
        r = {"rc": 0, "error": None}
    except BaseException as e:
        r = {"rc": 1, "error": type(e).__name__ + ": " + str(e)[:300]}
    finally:
        os.chdir(cwd)
    out.write(json.dumps(r) + "\n")
    out.flush()
"""


def _env(hashseed="0"):
    env = dict(os.environ)
    env["PYTHONPATH"] = REPO_SRC + os.pathsep + env.get("PYTHONPATH", "")
    env["PYTHONHASHSEED"] = str(hashseed)
    env["PYTHONDONTWRITEBYTECODE"] = "1"
    return env


def compile_in_subprocess(root, out_dir, name, cwd, hashseed, real_black=False, **opts):
    """compile() in a separate interpreter with its own cwd and PYTHONHASHSEED.  root / out_dir may be
    relative to cwd.  Returns (returncode, stderr text)."""
    job = {"src": REPO_SRC, "root": root, "out": out_dir, "name": name, "black": bool(real_black), "opts": opts}
    try:
        p = subprocess.run([PY, "-W", "ignore", "-c", _SUBPROC_COMPILE, json.dumps(job)], cwd=cwd, env=_env(hashseed),
                           stdout=subprocess.PIPE, stderr=subprocess.PIPE, timeout=TOOL_TIMEOUT * 2, text=True)
    except subprocess.TimeoutExpired:
        raise ToolTimeout("compile subprocess")
    return p.returncode, p.stderr


class CompileWorker:
    """One long-lived interpreter that compiles closure after closure (so that state left behind by an earlier
    compilation of the same process can show).  compile(root, out_dir, name, real_black, **opts) -> (rc, error)."""

    def __init__(self, cwd="/tmp", hashseed="0"):
        self.cwd, self.hashseed = cwd, hashseed
        self.w = None
        self.count = 0

    def compile(self, root, out_dir, name, real_black=False, reuse_parser=False, **opts):
        """reuse_parser=True: the worker keeps ONE Parser object (created with the options of the first job) and, for every
        closure, calls clear(), parse() and the six back ends on it - the plumbing of compile() with a reused parser."""
        if self.w is None:
            self.w = _LineWorker([PY, "-u", "-W", "ignore", "-c", _COMPILE_WORKER, REPO_SRC], env=_env(self.hashseed), cwd=self.cwd)
        r = self.w.ask({"root": root, "out": out_dir, "name": name, "black": bool(real_black), "opts": opts, "reuse": bool(reuse_parser)},
                       timeout=TOOL_TIMEOUT * 2)
        self.count += 1
        return r["rc"], r["error"]

    def close(self):
        if self.w is not None:
            self.w.close()
            self.w = None


def compile_cli(root, out_dir, name, cwd=None, extra=(), hashseed="0"):
    """The documented command line (honours compiler_options written inside the YAML)."""
    cmd = [PY, "-W", "ignore", "-m", "pyrtma.compile", "-i", root, "--py", "--js", "--mat", "--c", "--info", "--combined",
           "-o", out_dir, "-n", name, *extra]
    try:
        p = subprocess.run(cmd, cwd=cwd, env=_env(hashseed), stdout=subprocess.PIPE, stderr=subprocess.STDOUT,
                           timeout=TOOL_TIMEOUT * 2, text=True, stdin=subprocess.DEVNULL)
    except subprocess.TimeoutExpired:
        raise ToolTimeout("compiler CLI")
    return p.returncode, p.stdout


def parse_model(root, **opts):
    """Parser object after parse() (no outputs written)."""
    S = _setup()
    cwd = os.getcwd()
    sink = io.StringIO()
    try:
        with contextlib.redirect_stdout(sink), contextlib.redirect_stderr(sink):
            p = S["pp"].Parser(**opts)
            p.parse(__import__("pathlib").Path(root))
        return p
    except BaseException as e:  # noqa
        if isinstance(e, (KeyboardInterrupt, SystemExit)):
            raise
        raise CompileError(e, "".join(traceback.format_exception(e)),
                           isinstance(e, (S["pp"].ParserError, FileNotFoundError))) from None
    finally:
        os.chdir(cwd)
        _drop_parser_loggers()


# ------------------------------------------------------------------------------------------------
# parser model -> sig

_FMT = {"c": "char", "b": "int", "B": "uint", "h": "int", "H": "uint", "i": "int", "I": "uint", "q": "int", "Q": "uint",
        "f": "float", "d": "float"}


def new_sig(lang):
    return {"lang": lang, "load_error": None, "constants": {}, "strings": {}, "mt": {}, "mid": {}, "hid": {}, "hash": {},
            "aliases": {}, "defs": {}}


def _ptype(S, obj):
    pp = S["pp"]
    if isinstance(obj, pp.NativeType):
        return {"k": _FMT.get(obj.format, "?"), "w": obj.size}
    if isinstance(obj, pp.TypeAlias):
        return _ptype(S, obj.type_obj)
    if isinstance(obj, (pp.MDF, pp.SDF)):
        return {"k": "struct", "ref": obj.name, "fields": None}
    return {"k": "?", "w": None}


def sig_from_parser(parser):
    S = _setup()
    sig = new_sig("parser")
    for c in parser.constants.values():
        sig["constants"][c.name] = c.value
    given = parser.yaml_dict.get("string_constants", {}) if hasattr(parser, "yaml_dict") else {}
    for c in parser.string_constants.values():
        v = c.value
        # the text the user wrote (the model keeps it wrapped in double quotes, escaped or not)
        sig["strings"][c.name] = given[c.name] if isinstance(given.get(c.name), str) else (v[1:-1] if len(v) >= 2 and v[0] == v[-1] == '"' else v)
    for m in parser.message_ids.values():
        sig["mt"][m.name] = m.value
    for m in parser.module_ids.values():
        sig["mid"][m.name] = m.value
    for m in parser.host_ids.values():
        sig["hid"][m.name] = m.value
    for a in parser.aliases.values():
        sig["aliases"][a.name] = {"tn": a.type_name, "t": _ptype(S, a.type_obj)}
    for cat, table in (("struct", parser.struct_defs), ("message", parser.message_defs)):
        for d in table.values():
            fields = []
            for f in d.fields:
                fields.append({"name": f.name, "len": f.length, "off": f.offset if f.offset >= 0 else None, "tn": f.type_name,
                               "t": _ptype(S, f.type_obj)})
            sig["defs"][d.name] = {"cat": cat, "id": getattr(d, "type_id", None), "size": d.size,
                                   "align": d.alignment if fields else None, "hash": int(d.hash[:8], 16), "error": None,
                                   "fields": fields}
            if cat == "message":
                sig["hash"][d.name] = int(d.hash[:8], 16)
    return sig


_CORE = {}

# sections of a sig and the namespace of names each belongs to: constants, string constants, aliases, structs and messages share one
# namespace (message ids and hashes are named after their message), module ids and host ids have one each
SIG_TABLE_OF = {"constants": "constants", "strings": "strings", "aliases": "aliases", "defs": "defs", "mt": "mt", "hash": "mt", "mid": "mid", "hid": "hid"}


class CoreNames(frozenset):
    """Every name defined by the shipped core closure (a frozenset, as before) that also knows WHICH table of a sig each name
    belongs to: ``by_table`` = {"constants","strings","aliases","defs","mt","mid","hid": frozenset}.  Names are unique per
    namespace only: a user module id may be called like a core message, a user message like a core module id."""
    by_table: dict = {}

    def has(self, table, name):
        return name in self.by_table.get(SIG_TABLE_OF.get(table, table), ())


def _in_skip(skip, table, name):
    """Is ``name`` of sig table ``table`` among the names to leave out?  ``skip`` is a CoreNames (namespace-aware) or a plain set."""
    if isinstance(skip, CoreNames):
        return skip.has(table, name)
    return name in skip


def core_names():
    """Every name defined by the shipped core YAML closure (parsed on its own, once per process): a CoreNames."""
    if "names" not in _CORE:
        p = parse_model(os.path.join(REPO_SRC, "pyrtma", "core_defs", "core_defs.yaml"), import_coredefs=False)
        names = set()
        for t in (p.constants, p.string_constants, p.aliases, p.host_ids, p.module_ids, p.message_ids, p.struct_defs, p.message_defs):
            names |= set(t.keys())
        cn = CoreNames(names)
        cn.by_table = {"constants": frozenset(p.constants), "strings": frozenset(p.string_constants), "aliases": frozenset(p.aliases),
                       "defs": frozenset(p.struct_defs) | frozenset(p.message_defs), "mt": frozenset(p.message_ids) | frozenset(p.message_defs),
                       "mid": frozenset(p.module_ids), "hid": frozenset(p.host_ids)}
        _CORE["names"] = cn
        _CORE["types"] = set(p.aliases) | set(p.struct_defs) | set(p.message_defs)
    return _CORE["names"]


def references_core(ref_sig, core_imported=True):
    """True when a non-core alias or definition of the sig names a core type (its C header then needs RTMA.h).  A user definition
    that merely shares its NAME with a core definition of another namespace (a message called like a core module id) is a user
    definition like any other."""
    if not core_imported:
        return False
    cn = core_names()
    ct = _CORE["types"]
    for n, a in ref_sig["aliases"].items():
        if not cn.has("aliases", n) and a.get("tn") in ct:
            return True
    for n, d in ref_sig["defs"].items():
        if cn.has("defs", n):
            continue
        for f in d["fields"]:
            if f.get("tn") in ct:
                return True
    return False


# ------------------------------------------------------------------------------------------------
# line-oriented worker subprocesses (python, node)

_WORKERS = []


class _LineWorker:
    def __init__(self, cmd, env=None, cwd=None):
        self.cmd, self.env, self.cwd = cmd, env, cwd
        self.p = None
        self.pid = None

    def _start(self):
        self.p = subprocess.Popen(self.cmd, stdin=subprocess.PIPE, stdout=subprocess.PIPE, stderr=subprocess.DEVNULL,
                                  env=self.env, cwd=self.cwd, bufsize=0)
        self.pid = os.getpid()
        self.buf = b""
        if self not in _WORKERS:
            _WORKERS.append(self)

    def ask(self, obj, timeout=TOOL_TIMEOUT):
        if self.p is None or self.p.poll() is not None or self.pid != os.getpid():
            self._start()
        try:
            self.p.stdin.write((json.dumps(obj) + "\n").encode())
            self.p.stdin.flush()
        except OSError as e:
            self.close()
            raise HarnessError(f"worker {self.cmd[0]} died: {e}")
        fd = self.p.stdout.fileno()
        import time as _t

        end = _t.time() + timeout
        while b"\n" not in self.buf:
            left = end - _t.time()
            if left <= 0:
                self.close()
                raise ToolTimeout(os.path.basename(self.cmd[0]))
            r, _, _ = select.select([fd], [], [], left)
            if not r:
                continue
            chunk = os.read(fd, 1 << 16)
            if not chunk:
                self.close()
                raise HarnessError(f"worker {self.cmd[0]} closed its output")
            self.buf += chunk
        line, self.buf = self.buf.split(b"\n", 1)
        return json.loads(line)

    def close(self):
        if self.p is not None and self.pid == os.getpid():
            try:
                self.p.kill()
                self.p.wait(timeout=5)
            except Exception:
                pass
        self.p = None
        if self in _WORKERS:
            _WORKERS.remove(self)


# ------------------------------------------------------------------------------------------------
# Python

_PY_WORKER = r'''
import sys, os, json, ctypes, warnings, importlib.util, traceback
warnings.simplefilter("ignore")
out = os.fdopen(os.dup(1), "w")
sys.stdout = open(os.devnull, "w")
sys.dont_write_bytecode = True
import pyrtma
import pyrtma.message as M
import pyrtma.context as C
CF = ("constants", "typedefs", "MID", "SDF", "MT", "MDF")
CODES = {"c": "char", "b": "int", "B": "uint", "h": "int", "H": "uint", "i": "int", "I": "uint", "l": "int", "L": "uint",
         "q": "int", "Q": "uint", "f": "float", "d": "float"}

def snap():
    return dict(M._msg_defs), {k: dict(getattr(C._ctx, k)) for k in CF}, C._ctx_copy

def restore(s):
    M._msg_defs.clear(); M._msg_defs.update(s[0])
    for k in CF:
        d = getattr(C._ctx, k); d.clear(); d.update(s[1][k])
    C._ctx_copy = s[2]

def tdesc(t):
    if isinstance(t, type) and issubclass(t, ctypes.Array):
        d = tdesc(t._type_)
        d["len"] = t._length_
        return d
    if isinstance(t, type) and issubclass(t, ctypes.Structure):
        return {"k": "struct", "ref": getattr(t, "type_name", t.__name__), "cls": t.__name__, "w": ctypes.sizeof(t), "len": None}
    code = getattr(t, "_type_", None)
    return {"k": CODES.get(code, "?"), "w": ctypes.sizeof(t), "len": None}

def cdesc(gname, cls, modname):
    d = {"cls": cls.__name__, "own": cls.__module__ == modname}
    for a in ("type_id", "type_name", "type_hash", "type_size", "type_source"):
        v = getattr(cls, a, None)
        d[a] = v if isinstance(v, (int, str)) or v is None else repr(v)
    d["sizeof"] = ctypes.sizeof(cls)
    d["align"] = ctypes.alignment(cls)
    fl = []
    for fname, ftype, *_ in cls._fields_:
        fd = tdesc(ftype)
        cf = getattr(cls, fname)
        fd["name"] = fname[1:] if fname.startswith("_") else fname
        fd["raw_name"] = fname
        fd["off"] = cf.offset
        fd["size"] = cf.size
        fd["descriptor"] = type(cls.__dict__.get(fd["name"])).__name__ if fd["name"] in cls.__dict__ else None
        fl.append(fd)
    d["fields"] = fl
    if isinstance(d.get("type_id"), int) and gname.startswith("MDF_"):
        try:
            d["registered"] = M.get_msg_cls(d["type_id"]) is cls
        except Exception as e:
            d["registered"] = False
            d["reg_error"] = type(e).__name__
    return d

def load(job):
    path, modname = job["path"], job["mod"]
    res = {"ok": True, "error": None, "globals": {}, "classes": {}, "aliases": {}}
    s = snap()
    try:
        try:
            spec = importlib.util.spec_from_file_location(modname, path)
            mod = importlib.util.module_from_spec(spec)
            sys.modules[modname] = mod
            spec.loader.exec_module(mod)
        except BaseException as e:
            tb = traceback.extract_tb(e.__traceback__)
            line = None
            for fr in tb:
                if fr.filename == path:
                    line = fr.lineno
            if isinstance(e, SyntaxError):
                line = e.lineno
            text = None
            if line:
                try:
                    text = open(path).read().splitlines()[line - 1].strip()
                except Exception:
                    pass
            res["ok"] = False
            res["error"] = {"type": type(e).__name__, "msg": str(e)[:300], "line": line, "text": text}
            return res
        for k, v in vars(mod).items():
            if k.startswith("_"):
                continue
            if isinstance(v, bool):
                continue
            if isinstance(v, (int, float, str)):
                res["globals"][k] = v if not (isinstance(v, float) and v != v) else "nan"
            elif isinstance(v, type) and issubclass(v, ctypes.Structure) and v.__module__ == modname:
                try:
                    res["classes"][k] = cdesc(k, v, modname)
                except BaseException as e:
                    res["classes"][k] = {"error": {"type": type(e).__name__, "msg": str(e)[:300]}}
            elif isinstance(v, type) and issubclass(v, ctypes._SimpleCData):
                res["aliases"][k] = tdesc(v)
        ctx = C.get_context()
        plain = lambda d: {k: (v if isinstance(v, (int, float, str)) else repr(v)) for k, v in d.items()}
        res["ctx"] = {"MT": plain(ctx.MT), "MID": plain(ctx.MID), "n_MDF": len(ctx.MDF), "n_SDF": len(ctx.SDF)}
        return res
    finally:
        sys.modules.pop(modname, None)
        restore(s)

for line in sys.stdin:
    line = line.strip()
    if not line:
        continue
    try:
        job = json.loads(line)
        if job.get("fork"):
            # a forked copy of this interpreter (pyrtma imported, no generated module ever loaded) per module
            rfd, wfd = os.pipe()
            pid = os.fork()
            if pid == 0:
                try:
                    os.close(rfd)
                    data = json.dumps(load(job)).encode()
                    while data:
                        n = os.write(wfd, data)
                        data = data[n:]
                finally:
                    os._exit(0)
            os.close(wfd)
            chunks = []
            while True:
                c = os.read(rfd, 1 << 16)
                if not c:
                    break
                chunks.append(c)
            os.close(rfd)
            os.waitpid(pid, 0)
            r = json.loads(b"".join(chunks))
        else:
            r = load(job)
    except BaseException as e:
        r = {"ok": False, "error": {"type": "WorkerError", "msg": "".join(traceback.format_exception(e))[-800:], "line": None, "text": None},
             "globals": {}, "classes": {}, "aliases": {}}
    try:
        text = json.dumps(r)
    except BaseException as e:
        text = json.dumps({"ok": False, "error": {"type": "WorkerError", "msg": "dump not serialisable: " + str(e)[:300], "line": None, "text": None},
                           "globals": {}, "classes": {}, "aliases": {}})
    out.write(text + "\n")
    out.flush()
'''

_SEQ = [0]


class PyWorker(_LineWorker):
    """Long-lived interpreter that imports generated modules one after the other; the global registries
    (pyrtma.message._msg_defs, pyrtma.context) are snapshotted and restored around every module."""

    def __init__(self):
        super().__init__([PY, "-u", "-W", "ignore", "-c", _PY_WORKER], env=_env("0"), cwd="/tmp")

    def load(self, path, fork=False):
        """fork=True: the module is imported in a forked copy of the worker that has only imported pyrtma (the state of a
        fresh interpreter after `import pyrtma`), so nothing an earlier module did can be seen."""
        _SEQ[0] += 1
        return self.ask({"path": os.path.abspath(path), "mod": f"gen_{os.getpid()}_{_SEQ[0]}", "fork": bool(fork)})


def py_load_fresh(path):
    """Import the module in a brand-new interpreter."""
    w = PyWorker()
    try:
        return w.load(path)
    finally:
        w.close()


def _leaf(d):
    if d["k"] == "struct":
        return {"k": "struct", "ref": d.get("ref"), "fields": None}
    return {"k": d["k"], "w": d["w"]}


def py_sig(raw, ref):
    """Signature of a generated Python module.  `ref` (a sig) supplies the *names* to look up."""
    sig = new_sig("python")
    if not raw["ok"]:
        sig["load_error"] = raw["error"]
        return sig
    g = raw["globals"]
    for n in ref["constants"]:
        if n in g and not isinstance(g[n], str):
            sig["constants"][n] = g[n]
    for n in ref["strings"]:
        if n in g and isinstance(g[n], str):
            sig["strings"][n] = g[n]
    for n in ref["hid"]:
        if n in g:
            sig["hid"][n] = g[n]
    for n in ref["mid"]:
        if "MID_" + n in g:
            sig["mid"][n] = g["MID_" + n]
    for n in ref["mt"]:
        if "MT_" + n in g:
            sig["mt"][n] = g["MT_" + n]
    for n, d in ref["defs"].items():
        gname = ("MDF_" if d["cat"] == "message" else "") + n
        c = raw["classes"].get(gname)
        if c is None:
            continue
        if "error" in c:
            sig["defs"][n] = {"cat": d["cat"], "id": None, "size": None, "align": None, "hash": None, "error": c["error"], "fields": []}
            continue
        fields = [{"name": f["name"], "len": f["len"], "off": f["off"], "tn": None, "t": _leaf(f)} for f in c["fields"]]
        sig["defs"][n] = {"cat": d["cat"], "id": c.get("type_id"), "size": c["sizeof"], "align": c["align"], "hash": c.get("type_hash"),
                          "error": None, "fields": fields, "type_size": c.get("type_size"), "type_name": c.get("type_name"),
                          "registered": c.get("registered"), "cls": c.get("cls")}
        if d["cat"] == "message" and isinstance(c.get("type_hash"), int):
            sig["hash"][n] = c["type_hash"]
    return sig


# ------------------------------------------------------------------------------------------------
# C (gcc)

GCC_FLAGS = ["-std=c11", "-Wall", "-Werror=implicit-function-declaration"]

_C_PRELUDE = r'''
#include <stdio.h>
#include <stddef.h>
#include <string.h>
#include "%(header)s"
#define KIND(x) _Generic((x), char: "char", signed char: "int", unsigned char: "uint", short: "int", unsigned short: "uint", \
  int: "int", unsigned int: "uint", long: "int", unsigned long: "uint", long long: "int", unsigned long long: "uint", \
  float: "float", double: "float", default: "struct")
static void p_i(long long v) { printf("%%lld", v); }
static void p_u(unsigned long long v) { printf("%%llu", v); }
static void p_d(double v) { printf("{\"f\": \"%%.17g\"}", v); }
static void p_s(const char *s) {
  putchar('"');
  for (; *s; s++) {
    unsigned char c = (unsigned char)*s;
    if (c == '"' || c == '\\') { putchar('\\'); putchar(c); }
    else if (c < 32 || c > 126) printf("\\u%%04x", c);
    else putchar(c);
  }
  putchar('"');
}
#define PNUM(x) _Generic((x), float: p_d, double: p_d, long double: p_d, unsigned long long: p_u, unsigned long: p_u, default: p_i)(x)
#define FLD(T, f, name) printf("%%s{\"name\": \"%%s\", \"off\": %%zu, \"size\": %%zu, \"esize\": %%zu, \"n\": null, \"kind\": \"%%s\", \"refok\": %%d}", \
  sep, name, offsetof(T, f), sizeof(((T *)0)->f), sizeof(((T *)0)->f), KIND(((T *)0)->f), 
#define ARR(T, f, name) printf("%%s{\"name\": \"%%s\", \"off\": %%zu, \"size\": %%zu, \"esize\": %%zu, \"n\": %%zu, \"kind\": \"%%s\", \"refok\": %%d}", \
  sep, name, offsetof(T, f), sizeof(((T *)0)->f), sizeof(((T *)0)->f[0]), sizeof(((T *)0)->f) / sizeof(((T *)0)->f[0]), KIND(((T *)0)->f[0]), 
#define ISREF(x, R) _Generic((x), R: 1, default: 0)
int main(void) {
  const char *sep;
'''


def _c_ident(s):
    return re.fullmatch(r"[A-Za-z_][A-Za-z0-9_]*", s) is not None


def c_probe_source(header_name, ref, skip=frozenset()):
    """C program that prints, as JSON, what the header declares for every name of `ref` not in `skip`."""
    out = [_C_PRELUDE % {"header": header_name}]
    w = out.append
    w('  printf("{\\"macros\\": {");\n  sep = "";\n')

    def macro(kind, pre, n):
        if _c_ident(pre + n):
            w(f'  printf("%s\\"{kind}:{n}\\": ", sep); PNUM({pre}{n}); sep = ", ";\n')

    for n in ref["constants"]:
        if not _in_skip(skip, "constants", n):
            macro("constants", "", n)
    for n in ref["mt"]:
        if not _in_skip(skip, "mt", n):
            macro("mt", "MT_", n)
    for n in ref["mid"]:
        if not _in_skip(skip, "mid", n):
            macro("mid", "MID_", n)
    for n in ref["hid"]:
        if not _in_skip(skip, "hid", n):
            macro("hid", "HID_", n)
    for n in ref["hash"]:
        if not _in_skip(skip, "hash", n):
            macro("hash", "HASH_", n)
    w('  printf("}, \\"strings\\": {");\n  sep = "";\n')
    for n in ref["strings"]:
        if not _in_skip(skip, "strings", n) and _c_ident(n):
            w(f'  printf("%s\\"{n}\\": ", sep); p_s({n}); sep = ", ";\n')
    w('  printf("}, \\"defs\\": {");\n')
    first = True
    for n, d in ref["defs"].items():
        if _in_skip(skip, "defs", n) or not d["fields"]:
            continue
        T = ("MDF_" if d["cat"] == "message" else "") + n
        w(f'  printf("{"" if first else ", "}\\"{n}\\": {{\\"size\\": %zu, \\"align\\": %zu, \\"fields\\": [", sizeof({T}), _Alignof({T}));\n  sep = "";\n')
        first = False
        for f in d["fields"]:
            t = f["t"]
            arr = f["len"] is not None
            acc = f"(({T} *)0)->{f['name']}" + ("[0]" if arr else "")
            if t["k"] == "struct" and t.get("ref") in ref["defs"]:
                R = ("MDF_" if ref["defs"][t["ref"]]["cat"] == "message" else "") + t["ref"]
                refok = f"ISREF({acc}, {R})"
            else:
                refok = "-1"
            w(f'  {"ARR" if arr else "FLD"}({T}, {f["name"]}, "{f["name"]}") {refok}); sep = ", ";\n')
        w('  printf("]}");\n')
    w('  printf("}}\\n");\n  return 0;\n}\n')
    return "".join(out)


def _run(cmd, cwd=None, timeout=TOOL_TIMEOUT):
    try:
        p = subprocess.run(cmd, cwd=cwd, stdout=subprocess.PIPE, stderr=subprocess.PIPE, timeout=timeout, text=True,
                           stdin=subprocess.DEVNULL, errors="replace")
    except subprocess.TimeoutExpired:
        raise ToolTimeout(os.path.basename(cmd[0]))
    return p.returncode, p.stdout, p.stderr


def c_syntax_only(header):
    """Does a translation unit that only includes the header compile?  -> (ok, first error lines)"""
    d = os.path.dirname(os.path.abspath(header))
    src = os.path.join(d, "_syn_" + os.path.basename(header) + ".c")
    with open(src, "w") as f:
        f.write(f'#include "{os.path.basename(header)}"\nint main(void) {{ return 0; }}\n')
    rc, _o, err = _run(["gcc", *GCC_FLAGS, "-fsyntax-only", src], cwd=d)
    os.unlink(src)
    return rc == 0, _first_errors(err)


def _first_errors(err, n=3):
    lines = [l for l in err.splitlines() if "error" in l]
    return "\n".join(lines[:n]) if lines else err[:400]


def c_probe(header, ref, skip=frozenset()):
    """Compile and run the probe.  -> sig (lang "c"); sig["load_error"] set when gcc rejects header or probe."""
    sig = new_sig("c")
    d = os.path.dirname(os.path.abspath(header))
    base = os.path.basename(header)
    src = os.path.join(d, "_probe_" + base + ".c")
    exe = os.path.join(d, "_probe_" + base + ".exe")
    with open(src, "w") as f:
        f.write(c_probe_source(base, ref, skip))
    rc, _o, err = _run(["gcc", *GCC_FLAGS, "-O0", "-o", exe, src], cwd=d)
    gcc_warn = "\n".join(l for l in err.splitlines() if "warning" in l)[:300]
    if rc != 0:
        ok, herr = c_syntax_only(header)
        sig["load_error"] = {"type": "header-does-not-compile" if not ok else "probe-does-not-compile", "msg": herr if not ok else _first_errors(err)}
        return sig
    rc, out, err = _run([exe], cwd=d)
    if rc < 0:
        # e.g. a string-constant macro that the header redefines as a number: the probe compiled (with warnings) but cannot run
        sig["load_error"] = {"type": "probe-crashed", "msg": f"the probe compiled against the header but died with signal {-rc}; gcc had warned: {gcc_warn}"}
        return sig
    if rc != 0:
        raise HarnessError(f"C probe failed rc={rc}: {err[:300]}")
    try:
        raw = json.loads(out)
    except ValueError as e:
        raise HarnessError(f"C probe printed invalid JSON: {e}: {out[:300]}")
    for k, v in raw["macros"].items():
        sec, n = k.split(":", 1)
        if isinstance(v, dict):
            v = float(v["f"])
        sig[sec][n] = v
    sig["strings"] = raw["strings"]
    for n, cd in raw["defs"].items():
        rd = ref["defs"][n]
        fields = []
        for cf, rf in zip(cd["fields"], rd["fields"]):
            if cf["kind"] == "struct":
                t = {"k": "struct", "ref": rf["t"].get("ref") if cf["refok"] == 1 else None, "fields": None, "w": cf["esize"]}
            else:
                t = {"k": cf["kind"], "w": cf["esize"]}
            fields.append({"name": cf["name"], "len": cf["n"], "off": cf["off"], "tn": None, "t": t})
        sig["defs"][n] = {"cat": rd["cat"], "id": sig["mt"].get(n), "size": cd["size"], "align": cd["align"], "hash": sig["hash"].get(n),
                          "error": None, "fields": fields}
    # signals have no C type; they exist through their MT_ / HASH_ macros
    for n, rd in ref["defs"].items():
        if not _in_skip(skip, "defs", n) and not rd["fields"] and rd["cat"] == "message" and n in sig["mt"]:
            sig["defs"][n] = {"cat": "message", "id": sig["mt"][n], "size": 0, "align": None, "hash": sig["hash"].get(n), "error": None, "fields": []}
    return sig


# ------------------------------------------------------------------------------------------------
# JavaScript (node)

_JS_WORKER = r'''
import { pathToFileURL } from "node:url";
import * as readline from "node:readline";

function shape(v, depth) {
  if (depth > 40) return { k: "deep" };
  if (Array.isArray(v)) {
    const n = v.length;
    let holes = 0;
    for (let i = 0; i < n; i++) if (!(i in v)) holes++;
    const e = n > 0 ? shape(v[0], depth + 1) : null;
    let homog = true;
    const e0 = JSON.stringify(e);
    for (let i = 1; i < n && homog; i++) if (JSON.stringify(shape(v[i], depth + 1)) !== e0) homog = false;
    return { k: "arr", n: n, elem: e, homog: homog, holes: holes };
  }
  if (v === null) return { k: "null" };
  if (typeof v === "object") {
    return { k: "obj", fields: Object.keys(v).map((key) => [key, shape(v[key], depth + 1)]) };
  }
  if (typeof v === "string") return { k: "str", v: v.length <= 64 ? v : v.slice(0, 64) };
  if (typeof v === "number") return { k: "num", v: v };
  return { k: typeof v };
}

function walk(v, path, cb, depth) {
  if (v === null || typeof v !== "object" || depth > 40) return;
  if (cb(v, path) === false) return;
  if (Array.isArray(v)) {
    for (let i = 0; i < v.length; i++) walk(v[i], path + "[" + i + "]", cb, depth + 1);
  } else {
    for (const k of Object.keys(v)) walk(v[k], path + "." + k, cb, depth + 1);
  }
}

function fresh(f) {
  const problems = [];
  const a = f(), b = f();
  if (a === null || typeof a !== "object") { problems.push(["not-an-object", "", typeof a]); return problems; }
  if (a === b) problems.push(["same-object-twice", "", "two calls returned the identical object"]);
  const seen = new Map();
  let nshare = 0;
  walk(a, "", (o, p) => {
    if (seen.has(o)) {
      if (nshare++ < 3) {
        const q = seen.get(o);
        const sib = p.replace(/\[\d+\]$/, "") === q.replace(/\[\d+\]$/, "") && /\]$/.test(p);
        problems.push([sib ? "shared-array-element" : "shared-nested-object", q + " === " + p, ""]);
      }
      return false;
    } else seen.set(o, p);
  }, 0);
  let ncross = 0;
  walk(b, "", (o, p) => {
    if (seen.has(o)) {
      if (ncross++ < 3 && a !== b) problems.push(["shared-between-calls", seen.get(o) + " of call 1 === " + p + " of call 2", ""]);
      return false;
    }
  }, 0);
  return problems;
}

function table(t) {
  const out = {};
  if (t && typeof t === "object") for (const k of Object.keys(t)) out[k] = shape(t[k], 0);
  return out;
}

async function load(path) {
  const res = { ok: true, error: null };
  let mod;
  try {
    mod = await import(pathToFileURL(path).href);
  } catch (e) {
    res.ok = false;
    res.error = { type: (e && e.name) || "Error", msg: String((e && e.message) || e).slice(0, 300) };
    return res;
  }
  const R = mod.RTMA;
  if (!R || typeof R !== "object") { res.ok = false; res.error = { type: "NoRTMAExport", msg: typeof R }; return res; }
  for (const sec of ["MT", "MID", "HID", "constants", "HASH", "aliases"]) res[sec] = table(R[sec]);
  for (const sec of ["SDF", "MDF"]) {
    const out = {};
    const t = R[sec] || {};
    for (const k of Object.keys(t)) {
      const f = t[k];
      const d = { error: null, shape: null, problems: [] };
      if (typeof f !== "function") { d.error = { type: "NotAFunction", msg: typeof f }; out[k] = d; continue; }
      try {
        d.shape = shape(f(), 0);
        d.problems = fresh(f);
      } catch (e) {
        d.error = { type: (e && e.name) || "Error", msg: String((e && e.message) || e).slice(0, 300) };
      }
      out[k] = d;
    }
    res[sec] = out;
  }
  return res;
}

const rl = readline.createInterface({ input: process.stdin, terminal: false });
for await (const line of rl) {
  const s = line.trim();
  if (!s) continue;
  let r;
  try { r = await load(JSON.parse(s).path); }
  catch (e) { r = { ok: false, error: { type: "WorkerError", msg: String(e && e.stack || e).slice(0, 500) } }; }
  process.stdout.write(JSON.stringify(r) + "\n");
}
'''


class JsWorker(_LineWorker):
    """Long-lived node process; load(path of NAME.js) copies it to a unique .mjs and imports it."""

    def __init__(self):
        self.script = None
        super().__init__(["node", "?"])

    def _start(self):
        self.script = os.path.join(_tmp_root(), f"jsworker_{os.getpid()}.mjs")
        with open(self.script, "w") as f:
            f.write(_JS_WORKER)
        self.cmd = ["node", self.script]
        super()._start()

    def load(self, path):
        _SEQ[0] += 1
        mjs = os.path.join(os.path.dirname(os.path.abspath(path)), f"_m{os.getpid()}_{_SEQ[0]}.mjs")
        shutil.copyfile(path, mjs)
        try:
            return self.ask({"path": mjs})
        finally:
            try:
                os.unlink(mjs)
            except OSError:
                pass


def _js_t(sh):
    """shape of a field value -> (len, t)"""
    if sh is None:
        return None, {"k": "?", "w": None}
    if sh["k"] == "arr":
        _l, t = _js_t(sh["elem"])
        if not sh["homog"] or sh["holes"]:
            t = {"k": "mixed-array", "w": None}
        return sh["n"], t
    if sh["k"] == "obj":
        return None, {"k": "struct", "ref": None, "fields": _js_fields(sh)}
    if sh["k"] in ("str", "num"):
        return None, {"k": sh["k"], "w": None}
    return None, {"k": sh["k"], "w": None}


def _js_fields(sh):
    out = []
    for name, fs in sh["fields"]:
        ln, t = _js_t(fs)
        out.append({"name": name, "len": ln, "off": None, "tn": None, "t": t})
    return out


def _js_val(sh):
    v = sh.get("v") if sh and sh["k"] in ("num", "str") else None
    if isinstance(v, int) and not isinstance(v, bool) and abs(v) > 2 ** 53:
        v = float(v)  # a JS number is a double; JSON prints large ones without exponent (shortest digits padded with zeros)
    return v


def js_sig(raw, ref):
    sig = new_sig("js")
    if not raw["ok"]:
        sig["load_error"] = raw["error"]
        return sig
    consts = raw.get("constants", {})
    for n in ref["constants"]:
        if n in consts and consts[n]["k"] == "num":
            sig["constants"][n] = _js_val(consts[n])
    for n in ref["strings"]:
        if n in consts and consts[n]["k"] == "str":
            sig["strings"][n] = consts[n]["v"]
    for sec, key in (("mt", "MT"), ("mid", "MID"), ("hid", "HID")):
        for n in ref[sec]:
            if n in raw.get(key, {}):
                sig[sec][n] = _js_val(raw[key][n])
    for n in ref["hash"]:
        h = raw.get("HASH", {}).get(n)
        if h is not None:
            v = _js_val(h)
            sig["hash"][n] = int(v, 16) if isinstance(v, str) and re.fullmatch(r"[0-9a-fA-F]{8}", v) else ("bad:" + repr(v))
    for n, d in ref["defs"].items():
        e = raw.get("MDF" if d["cat"] == "message" else "SDF", {}).get(n)
        if e is None:
            continue
        if e["error"] or e["shape"] is None or e["shape"]["k"] != "obj":
            sig["defs"][n] = {"cat": d["cat"], "id": None, "size": None, "align": None, "hash": None,
                              "error": e["error"] or {"type": "NotAnObject", "msg": str(e["shape"])[:100]}, "fields": []}
            continue
        sig["defs"][n] = {"cat": d["cat"], "id": sig["mt"].get(n), "size": None, "align": None, "hash": sig["hash"].get(n), "error": None,
                          "fields": _js_fields(e["shape"])}
    return sig


def js_problems(raw):
    """[(kind, where, text)] for every factory that throws or returns shared objects."""
    out = []
    if not raw["ok"]:
        return [("import/" + raw["error"]["type"], "", raw["error"]["msg"])]
    for sec in ("SDF", "MDF"):
        for n, e in raw.get(sec, {}).items():
            if e["error"]:
                out.append(("factory-throws/" + e["error"]["type"], f"{sec}.{n}", e["error"]["msg"]))
            for kind, where, text in e["problems"]:
                out.append((kind, f"{sec}.{n}{where and ': ' + where}", text))
    return out


# ------------------------------------------------------------------------------------------------
# MATLAB (mini interpreter for the statement subset the back end emits)

M_TYPES = {"int8": ("int", 1), "uint8": ("uint", 1), "int16": ("int", 2), "uint16": ("uint", 2), "int32": ("int", 4), "uint32": ("uint", 4),
           "int64": ("int", 8), "uint64": ("uint", 8), "single": ("float", 4), "double": ("float", 8)}


class MatlabError(Exception):
    def __init__(self, what, line, text=""):
        super().__init__(f"line {line}: {what}: {text.strip()[:120]}")
        self.what, self.line, self.text = what, line, text.strip()


class MatlabUndefined(MatlabError):
    """Reference to a field that has not been assigned (MATLAB: 'Reference to non-existent field')."""

    def __init__(self, path, line, text=""):
        super().__init__(f"reference to non-existent field {path}", line, text)
        self.path = path


class MatlabSyntaxError(MatlabError):
    """The statement is not valid MATLAB (e.g. an unterminated / prematurely terminated string)."""


class MatlabArithmeticOnText(MatlabError):
    """'abc' + char(10): MATLAB computes with the character codes; the value is not the text the other outputs carry."""


class MatlabUnsupported(MatlabError):
    """Valid-looking MATLAB outside the subset this interpreter knows (harness limitation, not a finding).  Constructs
    that are NOT valid MATLAB raise MatlabSyntaxError / MatlabError / MatlabUndefined instead and are findings."""


_M_NUM = re.compile(r"[-+]?(?:0[xX][0-9a-fA-F]+|(?:\d+\.?\d*(?:[eE][-+]?\d+)?|\.\d+(?:[eE][-+]?\d+)?)|[iI]nf|[nN]a[nN])")
_M_ID = re.compile(r"[A-Za-z][A-Za-z0-9_]*")


class _MParser:
    def __init__(self, text, line, env):
        self.s, self.i, self.line, self.env = text, 0, line, env

    def ws(self):
        while self.i < len(self.s) and self.s[self.i] in " \t":
            self.i += 1

    def fail(self, what, cls=MatlabSyntaxError):
        raise cls(what, self.line, self.s)

    def string(self, q):
        # MATLAB: the quote character is doubled inside the literal
        i = self.i + 1
        out = []
        while True:
            if i >= len(self.s):
                self.fail("unterminated string literal")
            c = self.s[i]
            if c == q:
                if i + 1 < len(self.s) and self.s[i + 1] == q:
                    out.append(q)
                    i += 2
                    continue
                break
            out.append(c)
            i += 1
        self.i = i + 1
        return {"$": "str", "v": "".join(out), "q": q}

    def path(self):
        m = _M_ID.match(self.s, self.i)
        if not m:
            self.fail("identifier expected")
        parts = [m.group()]
        self.i = m.end()
        while self.i < len(self.s) and self.s[self.i] == ".":
            m = _M_ID.match(self.s, self.i + 1)
            if not m:
                self.fail("field name expected after '.'")
            parts.append(m.group())
            self.i = m.end()
        return parts

    def expr(self):
        """primary ('+' primary)*: '+' is only known as concatenation onto a string scalar ("abc" + char(10) + "def": a double-quoted
        string plus a string or character vector appends it; between character vectors or numbers '+' is arithmetic - not emitted)."""
        v = self.primary()
        while True:
            self.ws()
            if self.s[self.i:self.i + 1] != "+":
                return v
            self.i += 1
            w = self.primary()
            if v["$"] == "str" and v.get("q") != '"' and w["$"] == "str" and w.get("q") != '"':
                # between two character vectors '+' is ARITHMETIC on the character codes: the result is a numeric array
                # (or "Arrays have incompatible sizes" when the lengths differ and neither is 1) - never the joined text
                self.fail("'+' between character vectors adds character codes, it does not join text", MatlabArithmeticOnText)
            if v["$"] != "str" or v.get("q") != '"' or w["$"] != "str":
                self.fail("'+' other than string scalar + text", MatlabUnsupported)
            v = {"$": "str", "v": v["v"] + w["v"], "q": '"'}

    def primary(self):
        self.ws()
        if self.i >= len(self.s):
            self.fail("expression expected")
        c = self.s[self.i]
        if c in "'\"":
            return self.string(c)
        if c == "[":
            j = self.i + 1
            while j < len(self.s) and self.s[j] in " \t":
                j += 1
            if j < len(self.s) and self.s[j] == "]":
                self.i = j + 1
                return {"$": "empty"}
            self.fail("only [] is supported", MatlabUnsupported)
        m = _M_NUM.match(self.s, self.i)
        if m and (c.isdigit() or c in "+-."):
            self.i = m.end()
            t = m.group()
            try:
                v = int(t, 0) if re.fullmatch(r"[-+]?(0[xX][0-9a-fA-F]+|\d+)", t) else float(t)
            except ValueError:
                self.fail("bad number")
            return {"$": "num", "v": v}
        parts = self.path()
        self.ws()
        if self.i < len(self.s) and self.s[self.i] == "(":
            if len(parts) != 1:
                self.fail("indexing / method call", MatlabUnsupported)
            fn = parts[0]
            self.i += 1
            args = []
            self.ws()
            if self.s[self.i:self.i + 1] == ")":
                self.i += 1
            else:
                while True:
                    args.append(self.expr())
                    self.ws()
                    ch = self.s[self.i:self.i + 1]
                    self.i += 1
                    if ch == ")":
                        break
                    if ch != ",":
                        self.fail("',' or ')' expected")
            return self.call(fn, args)
        if len(parts) == 1 and parts[0] in ("inf", "Inf", "nan", "NaN"):
            return {"$": "num", "v": float(parts[0].lower())}
        return self.env.ref(parts, self.line, self.s)

    def call(self, fn, args):
        if fn == "struct":
            if args:
                self.fail("struct(...) with arguments", MatlabUnsupported)
            return {"$": "struct", "f": {}}
        if fn == "char":
            # char(code): the character with that code (a character vector of length 1)
            if len(args) != 1 or args[0]["$"] != "num" or args[0]["v"] != int(args[0]["v"]) or not 0 <= args[0]["v"] <= 0x10FFFF:
                self.fail("char(x) with x not a character code", MatlabUnsupported)
            return {"$": "str", "v": chr(int(args[0]["v"])), "q": "'"}
        if fn in M_TYPES:
            if len(args) != 1 or args[0]["$"] != "num":
                self.fail(f"{fn}(x) with non-numeric x", MatlabUnsupported)
            return {"$": "typed", "t": fn, "n": 1}
        if fn == "repmat":
            if len(args) != 3 or args[1]["$"] != "num" or args[1]["v"] != 1 or args[2]["$"] != "num":
                self.fail("repmat(x, 1, N) expected", MatlabUnsupported)
            n = args[2]["v"]
            # MATLAB has one number type: 2.0 is 2.  A size that is not a whole number is an error there ("Size inputs must be integers").
            if n != n or n in (float("inf"), float("-inf")) or n != int(n):
                self.fail(f"repmat size {n!r} is not an integer", MatlabError)
            n = int(n)
            v = args[0]
            if v["$"] == "typed":
                return {"$": "typed", "t": v["t"], "n": v["n"] * max(n, 0)}
            if v["$"] == "struct":
                return {"$": "sarr", "n": max(n, 0), "e": v}
            if v["$"] == "sarr":
                return {"$": "sarr", "n": v["n"] * max(n, 0), "e": v["e"]}
            self.fail(f"repmat of {v['$']}", MatlabUnsupported)
        self.fail(f"function {fn}", MatlabUnsupported)


class _MEnv:
    def __init__(self):
        self.vars = {}

    def ref(self, parts, line, text):
        if parts[0] not in self.vars:
            raise MatlabUndefined(parts[0], line, text)
        v = self.vars[parts[0]]
        for k, p in enumerate(parts[1:], start=1):
            if v["$"] != "struct" or p not in v["f"]:
                raise MatlabUndefined(".".join(parts[:k + 1]), line, text)
            v = v["f"][p]
        return json.loads(json.dumps(v))  # value semantics

    def assign(self, parts, val, line, text):
        if len(parts) == 1:
            self.vars[parts[0]] = val
            return
        if parts[0] not in self.vars:
            self.vars[parts[0]] = {"$": "struct", "f": {}}
        v = self.vars[parts[0]]
        for k, p in enumerate(parts[1:-1], start=1):
            if v["$"] == "empty":  # X.a = []; X.a.b = v  turns X.a into a struct
                v.clear()
                v.update({"$": "struct", "f": {}})
            if v["$"] != "struct":
                raise MatlabError(f"field assignment into a {v['$']} value at {'.'.join(parts[:k])}", line, text)
            v = v["f"].setdefault(p, {"$": "struct", "f": {}})
        if v["$"] == "empty":
            v.clear()
            v.update({"$": "struct", "f": {}})
        if v["$"] != "struct":
            raise MatlabError(f"field assignment into a {v['$']} value at {'.'.join(parts[:-1])}", line, text)
        v["f"][parts[-1]] = val


def matlab_run(text, root="RTMA", ignore_undefined=()):
    """Execute a generated .m definition script.  Returns the value of `root` as a tree of
    {"$": "struct", "f": {...}} | {"$": "sarr", "n", "e"} | {"$": "typed", "t", "n"} | {"$": "num"|"str", "v"} | {"$": "empty"}."""
    env = _MEnv()
    lines = text.splitlines()
    i = 0
    depth = 0
    while i < len(lines):
        raw = lines[i]
        i += 1
        s = raw.strip()
        if not s or s.startswith("%"):
            continue
        if s.startswith("function "):
            if not re.fullmatch(r"function\s+\w+\s*=\s*\w+\s*\(\s*\)", s):
                raise MatlabUnsupported("function header", i, raw)
            depth += 1
            continue
        if s == "end":
            depth -= 1
            continue
        m = re.fullmatch(r"mtns\s*=\s*fieldnames\(\s*(\w+)\.MT\s*\)\s*;", s)
        if m:
            # the generated _by_MT loop: emulate it
            blk = []
            while i < len(lines) and lines[i].strip() != "end":
                blk.append(lines[i].strip())
                i += 1
            i += 1  # the loop's end
            want = [r"for idx = 1:length\(mtns\)", r"mtn = mtns\{idx\};", r"mt = \w+\.MT\.\(mtn\) \+ 1;", r"mdf = \w+\.MDF\.\(mtn\);",
                    r"\w+\.MTN_by_MT\{mt, 1\} = mtn;", r"\w+\.MDF_by_MT\{mt, 1\} = mdf;"]
            blk = [b for b in blk if b]
            if len(blk) != len(want) or not all(re.fullmatch(w, b) for w, b in zip(want, blk)):
                raise MatlabUnsupported("unexpected body of the _by_MT loop", i, "\n".join(blk))
            R = env.ref([m.group(1)], i, s)
            mt = R["f"].get("MT")
            if mt is None or mt["$"] != "struct":
                if mt is not None and mt["$"] == "empty":
                    continue  # fieldnames([]) is an error in MATLAB only for non-struct; [] has no fields: loop runs 0 times
                raise MatlabUndefined(f"{m.group(1)}.MT", i, s)
            mdf = R["f"].get("MDF", {"$": "empty"})
            by_mtn, by_mdf = {}, {}
            for name, v in mt["f"].items():
                if v["$"] != "num":
                    raise MatlabError(f"{m.group(1)}.MT.{name} is not numeric", i, s)
                if v["v"] != int(v["v"]) or v["v"] + 1 < 1:
                    raise MatlabError(f"{m.group(1)}.MT.{name} + 1 = {v['v'] + 1!r} is not a valid cell index", i, s)
                if mdf["$"] != "struct" or name not in mdf["f"]:
                    raise MatlabUndefined(f"{m.group(1)}.MDF.{name}", i, f"mdf = {m.group(1)}.MDF.(mtn);  % mtn = '{name}'")
                by_mtn[v["v"]] = name
            env.vars[m.group(1)]["f"]["MTN_by_MT"] = {"$": "cell", "v": {str(k): n for k, n in by_mtn.items()}}
            continue
        p = _MParser(raw, i, env)
        p.ws()
        lhs = p.path()
        p.ws()
        if p.s[p.i:p.i + 1] != "=":
            if "=" in p.s[p.i:] and p.s[p.i:p.i + 1] not in ("(", "{"):
                # `X.a-b = 1;`, `X.a b = 1;`: an expression (or two words) where MATLAB wants the target of the assignment
                raise MatlabSyntaxError("the left-hand side of the assignment is not a variable or field reference", i, raw)
            raise MatlabUnsupported("statement is not an assignment", i, raw)
        p.i += 1
        try:
            val = p.expr()
        except MatlabUndefined as e:
            if e.path not in ignore_undefined:
                raise
            continue
        p.ws()
        rest = p.s[p.i:].strip()
        if rest.startswith(";"):
            rest = rest[1:].strip()
        if rest and not rest.startswith("%"):
            raise MatlabSyntaxError("unexpected text after the expression", i, raw)
        if lhs[0] != root and len(lhs) > 1:
            raise MatlabUnsupported("assignment to another variable", i, raw)
        env.assign(lhs, val, i, raw)
    if depth != 0:
        raise MatlabSyntaxError("function/end not balanced", len(lines), "")
    if root not in env.vars:
        raise MatlabUndefined(root, len(lines), "")
    return env.vars[root]


def m_size(v):
    """Number of bytes the value stands for (sum of element sizes), None if it is not a sized value."""
    if v["$"] == "typed":
        return M_TYPES[v["t"]][1] * v["n"]
    if v["$"] == "struct":
        tot = 0
        for x in v["f"].values():
            s = m_size(x)
            if s is None:
                return None
            tot += s
        return tot
    if v["$"] == "sarr":
        s = m_size(v["e"])
        return None if s is None else s * v["n"]
    return None


def _m_t(v):
    if v["$"] == "typed":
        k, w = M_TYPES[v["t"]]
        return (v["n"] if v["n"] != 1 else None), {"k": k, "w": w}
    if v["$"] == "struct":
        return None, {"k": "struct", "ref": None, "fields": _m_fields(v)}
    if v["$"] == "sarr":
        return v["n"], {"k": "struct", "ref": None, "fields": _m_fields(v["e"])}
    return None, {"k": v["$"], "w": None}


def _m_fields(v):
    out = []
    for name, x in v["f"].items():
        ln, t = _m_t(x)
        out.append({"name": name, "len": ln, "off": None, "tn": None, "t": t})
    return out


def matlab_sig(tree, ref):
    """Look the names of `ref` up where the documentation of the back end puts them (no mangling applied)."""
    sig = new_sig("matlab")

    def sec(name):
        v = tree["f"].get(name)
        return v["f"] if v is not None and v["$"] == "struct" else {}

    defines = sec("defines")
    for n in ref["constants"]:
        if n in defines and defines[n]["$"] == "num":
            sig["constants"][n] = defines[n]["v"]
    for n in ref["strings"]:
        if n in defines and defines[n]["$"] == "str":
            sig["strings"][n] = defines[n]["v"]
    for key, s, pre in (("mt", "MT", "MT_"), ("mid", "MID", "MID_"), ("hid", "HID", "HID_")):
        t = sec(s)
        for n in ref[key]:
            mn = n.lstrip("_0123456789") if n.startswith("_RESERVED_") else n  # a MATLAB field name cannot start with '_'
            if mn in t and t[mn]["$"] == "num":
                sig[key][n] = t[mn]["v"]
            if pre + n in defines and defines[pre + n]["$"] == "num":
                sig.setdefault("defines_" + key, {})[n] = defines[pre + n]["v"]
    hs = sec("hash")
    for n in ref["hash"]:
        mn = n.lstrip("_0123456789") if n.startswith("_RESERVED_") else n
        if mn in hs and hs[mn]["$"] == "str":
            v = hs[mn]["v"]
            sig["hash"][n] = int(v, 16) if re.fullmatch(r"[0-9a-fA-F]{8}", v) else ("bad:" + repr(v))
    typedefs, mdf = sec("typedefs"), sec("MDF")
    for n, d in ref["defs"].items():
        v = (mdf if d["cat"] == "message" else typedefs).get(n.lstrip("_0123456789") if n.startswith("_RESERVED_") else n)
        if v is None:
            continue
        if v["$"] != "struct":
            sig["defs"][n] = {"cat": d["cat"], "id": None, "size": None, "align": None, "hash": None,
                              "error": {"type": "NotAStruct", "msg": v["$"]}, "fields": []}
            continue
        sig["defs"][n] = {"cat": d["cat"], "id": sig["mt"].get(n), "size": m_size(v), "align": None, "hash": sig["hash"].get(n),
                          "error": None, "fields": _m_fields(v)}
    return sig


# ------------------------------------------------------------------------------------------------
# comparison

def norm_len(n):
    """array of 1 == scalar (byte-identical; the Python back end emits a scalar, C emits x[1])."""
    return None if n in (None, 1) else n


def project(t, lang):
    """What a reference leaf looks like through the eyes of `lang`."""
    if t["k"] == "struct":
        return t
    if lang == "matlab" and t["k"] == "char":
        return {"k": "int", "w": 1}  # MATLAB holds char data as int8
    if lang == "js":
        return {"k": "str" if t["k"] == "char" else "num", "w": None}
    return {"k": t["k"], "w": t["w"]}


def _close(a, b):
    """Exact equality of two constants (every back end prints Python's shortest round-trip repr of a double, so the
    doubles must be identical; 2.0 and 2 are the same number - the int/float distinction is checked separately)."""
    if isinstance(a, bool) or isinstance(b, bool) or isinstance(a, str) or isinstance(b, str):
        return type(a) is type(b) and a == b
    if a is None or b is None:
        return a is b
    try:
        if a != a and b != b:
            return True
        return a == b
    except TypeError:
        return False


def _diff_fields(ref, oth, rf, of, lang, where, out, depth=0):
    """rf / of: field lists of the reference and of the other view."""
    rn, on = [f["name"] for f in rf], [f["name"] for f in of]
    if rn != on:
        if sorted(rn) == sorted(on):
            out.append(("field-order", where, f"reference order {rn}, {lang} order {on}"))
        elif len(rn) != len(on):
            out.append(("field-count", where, f"reference has fields {rn}, {lang} has {on}"))
        else:
            out.append(("field-name", where, f"reference has fields {rn}, {lang} has {on}"))
        return
    for a, b in zip(rf, of):
        w = f"{where}.{a['name']}"
        ta, tb = a["t"], b["t"]
        pa = project(ta, lang)
        la, lb = norm_len(a["len"]), norm_len(b["len"])
        if lang == "js" and pa["k"] == "str" and lb is None:
            lb = la  # char[n] as one JS string: the string carries no length (an array of n one-char strings does)
        if la != lb:
            out.append(("array-length", w, f"reference length {a['len']}, {lang} length {b['len']}"))
        if pa["k"] == "struct":
            if tb["k"] != "struct":
                out.append(("element-kind", w, f"reference nested {ta.get('ref')}, {lang} {tb['k']}"))
                continue
            # nested: by name when the language keeps names, structurally otherwise
            if tb.get("fields") is not None:
                sub = ref["defs"].get(ta.get("ref"))
                if sub is not None and depth < 12:
                    _diff_fields(ref, oth, sub["fields"], tb["fields"], lang, w, out, depth + 1)
            elif tb.get("ref") != ta.get("ref"):
                out.append(("nested-type", w, f"reference nested {ta.get('ref')}, {lang} nested {tb.get('ref')}"))
            continue
        if tb["k"] != pa["k"]:
            out.append(("element-kind", w, f"reference {ta['k']}{(ta['w'] or 0) * 8} (seen from {lang}: {pa['k']}), {lang} has {tb['k']}"))
        elif pa["w"] is not None and tb.get("w") is not None and pa["w"] != tb["w"]:
            out.append(("element-width", w, f"reference {ta['k']} of {ta['w']} bytes, {lang} {tb['k']} of {tb['w']} bytes"))
        if a.get("off") is not None and b.get("off") is not None and a["off"] != b["off"]:
            out.append(("field-offset", w, f"reference offset {a['off']}, {lang} offset {b['off']}"))


def diff_sigs(ref, oth, names=None, tables=("constants", "strings", "mt", "mid", "hid", "hash"), skip=frozenset()):
    """Differences of `oth` against `ref` on everything `oth`'s language carries.
    names: restrict to these definition names; skip: names not expected in oth (core names for C; a CoreNames is applied per
    namespace - a user module id named like a core message is NOT skipped -, a plain set to every table).
    -> [(aspect, where, text)]"""
    lang = oth["lang"]
    out = []
    if oth.get("load_error"):
        e = oth["load_error"]
        return [("load/" + e["type"], "", e.get("msg", ""))]
    for tb in tables:
        for n, v in ref[tb].items():
            if _in_skip(skip, tb, n):
                continue
            if n not in oth[tb]:
                out.append((f"{tb}-missing", n, f"{lang} output has no {tb} entry {n} (reference value {v!r})"))
            elif not _close(v, oth[tb][n]):
                out.append((f"{tb}-value", n, f"reference {v!r}, {lang} {oth[tb][n]!r}"))
            elif tb == "constants" and lang in ("python", "c", "parser") and isinstance(v, float) != isinstance(oth[tb][n], float):
                # Python and C distinguish 2 from 2.0 (annotation / type of the macro's value)
                out.append((f"{tb}-type", n, f"reference {v!r} ({type(v).__name__}), {lang} {oth[tb][n]!r} ({type(oth[tb][n]).__name__})"))
    for n, d in ref["defs"].items():
        if _in_skip(skip, "defs", n) or (names is not None and n not in names):
            continue
        o = oth["defs"].get(n)
        if o is None:
            out.append(("def-missing", n, f"{lang} output has no definition of {d['cat']} {n}"))
            continue
        if o.get("error"):
            out.append(("def-error/" + o["error"]["type"], n, o["error"].get("msg", "")))
            continue
        _diff_fields(ref, oth, d["fields"], o["fields"], lang, n, out)
        if d.get("size") is not None and o.get("size") is not None and d["size"] != o["size"]:
            out.append(("size", n, f"reference size {d['size']}, {lang} size {o['size']}"))
        if lang == "python":
            if o.get("type_size") is not None and o["type_size"] != o["size"]:
                out.append(("type_size", n, f"python type_size {o['type_size']} but ctypes.sizeof {o['size']}"))
            if d["cat"] == "message" and d.get("id") is not None and o.get("id") != d["id"]:
                out.append(("type_id", n, f"reference id {d['id']}, python type_id {o.get('id')}"))
            if d.get("hash") is not None and o.get("hash") is not None and d["hash"] != o["hash"]:
                out.append(("hash-value", n, f"reference hash {d['hash']:08x}, python type_hash {o['hash']:08x}"))
            if o.get("type_name") not in (None, n):
                out.append(("type_name", n, f"python type_name {o.get('type_name')!r}"))
    return out


def flat_layout(sig, name, base=0, depth=0):
    """[(path, offset, kind, width, count)] of every leaf of definition `name` (needs offsets + refs: python / c / parser)."""
    out = []
    d = sig["defs"][name]
    for f in d["fields"]:
        t = f["t"]
        off = None if f["off"] is None else base + f["off"]
        if t["k"] == "struct" and t.get("ref") in sig["defs"] and depth < 12:
            sub = sig["defs"][t["ref"]]
            for i in range(min(f["len"] or 1, 2)):  # first two elements pin the stride
                o2 = None if off is None or sub["size"] is None else off + i * sub["size"]
                out += [(f"{f['name']}[{i}].{p}", o, k, w, c) for p, o, k, w, c in flat_layout(sig, t["ref"], o2 or 0, depth + 1)]
        else:
            out.append((f["name"], off, t["k"], t.get("w"), norm_len(f["len"])))
    return out


# ------------------------------------------------------------------------------------------------
# generator expectation -> sig, and the whole pipeline for one program

MATLAB_HEADER_REF = "RTMA.typedefs.RTMA_MSG_HEADER"  # hard-coded by the back end; exists only with the core imported


def sig_from_program(program):
    """Reference signature built from the generator's expectation model (vlib.defgen), never from the parser.
    Fields are the list the compiler must emit (user fields + explicit padding when validate_alignment and auto_pad
    are on); offsets are running sums of the element sizes of the natural layout model."""
    from vlib import defgen as G

    sig = new_sig("expect")
    reg = program.expected_registry()
    sig["constants"] = dict(reg["constants"])
    sig["strings"] = dict(reg["string_constants"])
    sig["mt"] = dict(reg["message_defs"])
    sig["mid"] = dict(reg["module_ids"])
    sig["hid"] = dict(reg["host_ids"])
    padded = program.validate_alignment and program.auto_pad

    def leaf(tn):
        r = program.resolve_type(tn)
        if r.kind == "native":
            return {"k": G.NATIVE_KIND[r.name], "w": G.NATIVES[r.name]}
        return {"k": "struct", "ref": r.name, "fields": None}

    for n, target in reg["aliases"].items():
        sig["aliases"][n] = {"tn": target, "t": leaf(target)}
    for d in program.defs:
        if d.kind == "signal":
            sig["defs"][d.name] = {"cat": "message", "id": d.id, "size": 0, "align": None, "hash": None, "error": None, "fields": []}
        elif d.kind == "reserved":
            for i in d.reserved_ids():
                sig["defs"][f"_RESERVED_{i:06d}"] = {"cat": "message", "id": i, "size": 0, "align": None, "hash": None, "error": None, "fields": []}
        elif d.kind in ("struct", "message"):
            if padded:
                fl = G.emitted_fields(program, d.name)
            else:
                fl = [(f.name, f.base, f.length) for f in program.user_fields(d.name)]
            fields, off = [], 0
            for fname, tn, ln in fl:
                es = G.type_size_align(program, tn)[0]
                fields.append({"name": fname, "len": ln, "off": off if program.validate_alignment else None, "tn": tn, "t": leaf(tn)})
                off += es * (ln if ln else 1)
            lay = G.natural_layout(program, d.name)
            sig["defs"][d.name] = {"cat": d.kind, "id": d.id if d.kind == "message" else None, "size": off,
                                   "align": lay.align, "hash": None, "error": None, "fields": fields}
    return sig


def merge_ref(expect, psig, core):
    """Reference for a program compiled with the core imported: the expectation for the user's names plus the parser
    model for the core names (the core is fixed input, not generated).  Hash values always come from the parser model
    (the expectation has none; C13 owns their meaning, C04 only their agreement across languages)."""
    ref = json.loads(json.dumps(expect))
    ref["lang"] = "reference"
    for tb in ("constants", "strings", "mt", "mid", "hid", "aliases"):
        for n, v in psig[tb].items():
            if _in_skip(core, tb, n) and n not in ref[tb]:
                ref[tb][n] = v
    for n, d in psig["defs"].items():
        if _in_skip(core, "defs", n) and n not in ref["defs"]:
            ref["defs"][n] = d
    for n, d in ref["defs"].items():
        if d["cat"] == "message" and n in psig["hash"]:
            ref["hash"][n] = psig["hash"][n]
            d["hash"] = psig["hash"][n]
    return ref


class Exam:
    """Everything observed about one program."""

    def __init__(self):
        self.compiled = None
        self.compile_error = None  # CompileError
        self.psig = self.ref = None
        self.core = frozenset()
        self.sigs = {}  # lang -> sig
        self.raw = {}  # lang -> raw dump
        self.matlab_error = None  # MatlabError
        self.c_standalone = None
        self.c_syntax = None  # (ok, text)
        self.cli = None  # (rc, output) of examine_cli
        self.hung = False  # in-process compile() did not return within COMPILE_TIMEOUT
        self.timeouts = []


class Examiner:
    """Compiles a program and runs the four extractors.  Keeps the long-lived workers."""

    def __init__(self):
        self.py = PyWorker()
        self.js = JsWorker()

    def close(self):
        self.py.close()
        self.js.close()

    def extract(self, ex, paths, core_on, langs=("python", "c", "js", "matlab"), fresh_py=False, c_mode="probe"):
        """Run the extractors on written outputs (paths: {"py","h","js","m"}); needs ex.ref, ex.psig and ex.core."""
        ref = ex.ref
        if "python" in langs:
            try:
                ex.raw["python"] = (py_load_fresh(paths["py"]) if fresh_py is True else self.py.load(paths["py"], fork=(fresh_py == "fork")))
                ex.sigs["python"] = py_sig(ex.raw["python"], ref)
            except ToolTimeout as t:
                ex.timeouts.append(str(t))
        if "c" in langs:
            ex.c_standalone = not references_core(ex.psig, core_on)
            if ex.c_standalone:
                try:
                    ex.c_syntax = c_syntax_only(paths["h"])
                    if c_mode == "probe":
                        ex.sigs["c"] = c_probe(paths["h"], ref, ex.core)
                except ToolTimeout as t:
                    ex.timeouts.append(str(t))
        if "js" in langs:
            try:
                ex.raw["js"] = self.js.load(paths["js"])
                ex.sigs["js"] = js_sig(ex.raw["js"], ref)
            except ToolTimeout as t:
                ex.timeouts.append(str(t))
        if "matlab" in langs:
            text = open(paths["m"]).read()
            try:
                tree = matlab_run(text, ignore_undefined=() if core_on else (MATLAB_HEADER_REF,))
                ex.raw["matlab"] = tree
                ex.sigs["matlab"] = matlab_sig(tree, ref)
            except MatlabUnsupported:
                raise
            except MatlabError as e:
                ex.matlab_error = e

    def examine_cli(self, src, cli_flags=(), model_opts=None) -> Exam:
        """Compile through the documented command line (honours compiler_options inside the YAML and the --no_* flags).
        The reference is a parser model obtained with `model_opts` (default: validation off, so that it exists even for
        files the command line is expected to reject).  ex.cli = (rc, output); sigs are filled only when rc == 0."""
        ex = Exam()
        with Work() as w:
            root = materialize(src, w.sub("src"))
            out = w.sub("out")
            rc, text = compile_cli(root, out, "gdefs", cwd=w.dir, extra=list(cli_flags))
            ex.cli = (rc, text)
            if rc != 0:
                return ex
            mo = dict(model_opts or {"validate_alignment": False, "auto_pad": False, "import_coredefs": "--no_core_import" not in cli_flags})
            p = parse_model(root, **mo)
            core_on = mo.get("import_coredefs", True)
            ex.core = core_names() if core_on else frozenset()
            ex.psig = sig_from_parser(p)
            ex.ref = dict(ex.psig, lang="reference")
            self.extract(ex, {k: os.path.join(out, "gdefs" + OUT_EXT[k]) for k in ("py", "h", "js", "m")}, core_on)
        return ex

    def examine(self, src, opts, expect=None, langs=("python", "c", "js", "matlab"), fresh_py=False, real_black=False,
                c_mode="probe") -> Exam:
        """src as for compile_program; opts = compile options; expect = sig_from_program(program) or None (then the
        parser model is the reference).  c_mode: "probe" | "syntax"."""
        ex = Exam()
        with Work() as w:
            try:
                ex.compiled = c = compile_program(src, w.sub("out"), "gdefs", real_black=real_black, src_dir=w.sub("src"), **opts)
            except CompileError as e:
                ex.compile_error = e
                return ex
            except ToolTimeout as t:
                ex.timeouts.append(str(t))
                ex.hung = True
                return ex
            core_on = opts.get("import_coredefs", True)
            ex.core = core_names() if core_on else frozenset()
            ex.psig = sig_from_parser(c.parser)
            ex.ref = merge_ref(expect, ex.psig, ex.core) if expect is not None else dict(ex.psig, lang="reference")
            self.extract(ex, c.paths, core_on, langs, fresh_py, c_mode)
        return ex
