"""C03 real-TCP tier: generated hostile scripts against a free-running MessageManager on loopback.

No shims except silencing console output: real kernel sockets, real select, real FIN/RST
(SO_LINGER 0), real wall clock.  Verdicts: manager thread dead => violation; a liveness probe that
times out while the thread is alive => inconclusive (never a violation).
"""
from __future__ import annotations

import logging
import socket
import struct
import threading
import time
import traceback

from . import proto as P
from .common import HarnessError, Violation


def quiet():
    import pyrtma.manager as mm

    if getattr(mm, "_verif_quiet", False):
        return
    mm.print = lambda *a, **k: None

    class QuietLogger(mm.RTMALogger):
        def init_console_handler(self):
            h = logging.NullHandler()
            h.name = "Console Handler"
            return h

    mm.RTMALogger = QuietLogger
    mm._verif_quiet = True
    logging.raiseExceptions = False


class RealManager:
    def __init__(self, timecode=False):
        import pyrtma.manager as mm

        if not hasattr(mm.socket, "socketpair"):
            from . import simnet

            simnet.uninstall()  # this process is dedicated to the real-TCP tier
        quiet()
        if not hasattr(mm.socket, "socketpair"):
            raise HarnessError("the TCP tier needs the real socket module in pyrtma.manager")
        self.mgr = mm.MessageManager("127.0.0.1", 0, timecode=timecode, log_level=logging.ERROR, send_msg_timing=True)
        self.port = self.mgr.listen_socket.getsockname()[1]
        self.mgr.INFO_INTERVAL = 0.35
        self.mgr.TRAFFIC_INTERVAL = 0.25
        self.mgr.min_timing_message_period = 0.2
        self.mgr.read_timeout = 0.02
        self.timecode = timecode
        self.exc = None
        self.thread = threading.Thread(target=self._main, daemon=True)
        self.thread.start()

    def _main(self):
        try:
            self.mgr.run()
        except BaseException as e:  # noqa
            self.exc = e
            self.tb = "".join(traceback.format_exception(e))

    def dead(self):
        return self.exc is not None or not self.thread.is_alive()

    def stop(self):
        self.mgr._keep_running = False
        self.thread.join(timeout=2)
        try:
            self.mgr.listen_socket.close()
        except Exception:
            pass
        name = hex(id(self.mgr))
        lg = logging.Logger.manager.loggerDict.pop(name, None)
        if lg is not None and hasattr(lg, "handlers"):
            for h in list(lg.handlers):
                lg.removeHandler(h)


def connect(port):
    s = socket.create_connection(("127.0.0.1", port), timeout=2)
    s.setsockopt(socket.IPPROTO_TCP, socket.TCP_NODELAY, 1)
    return s


def rst(s):
    try:
        s.setsockopt(socket.SOL_SOCKET, socket.SO_LINGER, struct.pack("ii", 1, 0))
    except OSError:
        pass
    s.close()


def recv_frames(s, timecode, deadline, want=lambda frames: False):
    buf = bytearray()
    frames = []
    while time.time() < deadline:
        s.settimeout(max(0.01, deadline - time.time()))
        try:
            d = s.recv(65536)
        except socket.timeout:
            break
        except OSError:
            break
        if not d:
            break
        buf += d
        frames += P.parse_stream(buf, timecode)
        if want(frames):
            break
    return frames


def probe(rm: RealManager, ids=(95, 96), timeout=3.0):
    """connect -> ACK -> subscribe -> ACK -> publish -> receive, on fresh connections.  Returns None on success,
    a string describing what timed out otherwise."""
    tc = rm.timecode
    a = b = None
    try:
        a, b = connect(rm.port), connect(rm.port)
        for s, i in ((a, ids[0]), (b, ids[1])):
            s.sendall(P.build(P.MT_CONNECT_V2, P.CONNECT_V2.pack(0, 0, 0, i, 1, P.cstr(b"probe%d" % i)), src_mod=i, timecode=tc))
            fr = recv_frames(s, tc, time.time() + timeout, lambda f: any(x.msg_type == P.MT_ACKNOWLEDGE for x in f))
            if not any(x.msg_type == P.MT_ACKNOWLEDGE and x.dest_mod_id == i for x in fr):
                return f"no ACK for the connect of probe module {i}"
        a.sendall(P.build(P.MT_SUBSCRIBE, P.SUBSCRIBE.pack(4321), src_mod=ids[0], timecode=tc))
        fr = recv_frames(a, tc, time.time() + timeout, lambda f: any(x.msg_type == P.MT_ACKNOWLEDGE for x in f))
        if not any(x.msg_type == P.MT_ACKNOWLEDGE for x in fr):
            return "no ACK for SUBSCRIBE"
        payload = P.tag_payload(7, 16)
        b.sendall(P.build(4321, payload, src_mod=ids[1], timecode=tc))
        fr = recv_frames(a, tc, time.time() + timeout, lambda f: any(x.msg_type == 4321 for x in f))
        got = [x for x in fr if x.msg_type == 4321]
        if not got:
            return "published message not delivered"
        if got[0].payload != payload or got[0].src_mod_id != ids[1]:
            raise Violation("tcp/probe-modified", f"probe message arrived modified: {got[0].brief()}", None)
        for s, i in ((a, ids[0]), (b, ids[1])):
            s.sendall(P.build(P.MT_DISCONNECT, b"", src_mod=i, timecode=tc))
        return None
    except (OSError, socket.timeout) as e:
        return f"socket error during probe: {e}"
    finally:
        for s in (a, b):
            if s is not None:
                try:
                    s.close()
                except Exception:
                    pass


def run_script(script: dict):
    """script = {"timecode": bool, "actions": [{"conn": k, "hex": "...", "then": None|"fin"|"rst", "pause": s}], "mass": n}
    Returns "ok" | "inconclusive:<why>"; raises Violation when the manager thread died."""
    rm = RealManager(script.get("timecode", False))
    socks = {}
    extra = []
    try:
        for _ in range(script.get("mass", 0)):
            try:
                s = connect(rm.port)
                extra.append(s)
                if len(extra) % 2 == 0:
                    s.sendall(P.build(P.MT_CONNECT, P.CONNECT.pack(0, 0), src_mod=0, timecode=rm.timecode))
            except OSError:
                break
        for act in script["actions"]:
            k = act["conn"]
            s = socks.get(k)
            if s is None:
                try:
                    s = socks[k] = connect(rm.port)
                except OSError as e:
                    if rm.dead():
                        break  # reported below
                    return f"inconclusive:cannot connect ({e})"
            try:
                if act.get("hex"):
                    s.sendall(bytes.fromhex(act["hex"]))
            except OSError:
                pass  # the manager already dropped this hostile connection
            if act.get("then") == "fin":
                s.close()
                socks[k] = None
                socks.pop(k)
            elif act.get("then") == "rst":
                rst(s)
                socks.pop(k)
            if act.get("pause"):
                time.sleep(act["pause"])
        time.sleep(0.45 if script.get("mass") else 0.12)  # let periodic reports fire against whatever is left
        why = "manager thread is dead" if rm.dead() else probe(rm)
        if rm.dead():
            exc = rm.exc
            inner = None
            if exc is not None:
                for fr in traceback.extract_tb(exc.__traceback__):
                    if fr.filename.endswith("manager.py"):
                        inner = fr
            raise Violation(f"tcp/manager-died/{type(exc).__name__ if exc else 'exit'}/{inner.name if inner else '?'}",
                            f"over real TCP the manager's run() terminated: {type(exc).__name__ if exc else 'returned'}: {exc}", script)
        return "ok" if why is None else "inconclusive:" + why
    finally:
        for s in list(socks.values()) + extra:
            try:
                s.close()
            except Exception:
                pass
        rm.stop()
