"""Engine D - a scripted peer ("manager") on a real kernel socket.

A real `pyrtma.Client` gets one end of a `socket.socketpair()` (AF_UNIX stream: real MSG_WAITALL,
real select, synchronous delivery, ECONNRESET when the peer closes with unread data) or, for the
genuine-RST family, one end of a loopback TCP connection.  The other end is driven by the check:
it writes scripted frames, reads the control frames the client sends and closes/half-closes/resets.

Everything is single threaded.  A correct client can never block here: the harness only lets it
read when the bytes it needs (or EOF) are already in the socket.  A *defective* client that reads
more than it should could block in recv(MSG_WAITALL); `Link.guarded()` arms a SIGALRM watchdog that
turns such a hang into EOF (shutdown of the peer's write side).  The watchdog never decides a
verdict by itself: the call's result is compared with the oracle as usual.

Transport "sim" puts the same client on the in-memory stream socket of the simulator
(vlib.simnet.FakeSocket) instead: there the bytes the peer writes can be made to *arrive in
pieces* (`Link.write(data, cuts)`): at the start of every frame read the bytes up to the next cut
point have arrived, the rest arrives only while the client is blocked in recv (MSG_WAITALL pulls
what it needs, a recv without it returns what has arrived).  The client module's `select` name is
replaced by a shim that serves FakeSockets and hands real sockets to the real select.  A client
that would block for ever on that transport raises simnet.Stall instead of hanging.

Transports "connect" and "context" let the client reach the peer by its own public path:
`Client.connect()` / `pyrtma.client_context()` to a loopback listener owned by the harness; a helper
thread answers the handshake (one ACK after CONNECT_V2 + CONNECT) and, for a write with cut points,
plays the later pieces with short real pauses while the client is blocked in its read.  Every piece
is guaranteed to arrive (the pauses only make the segmentation effective, no verdict depends on them).

The only private attributes of the client that are touched are `_sock` and `_connected` (for
"connect"/"context" only `_connected = False` at teardown of "connect").
"""
from __future__ import annotations

import ctypes
import fcntl
import hashlib
import logging
import select
import signal
import socket
import struct
import termios
import threading
import time
from typing import Dict, List, Optional, Tuple

import pyrtma
from pyrtma import message_def
from pyrtma.client import Client
from pyrtma.exceptions import UnknownMessageType
from pyrtma.message import get_msg_cls
from pyrtma.message_base import MessageMeta
from pyrtma.validators import ByteArray, Double, Int32, IntArray

from vlib import proto, simnet
from vlib.common import HarnessError
from vlib.simnet import FakeSocket, Stall

ALL = proto.ALL_MESSAGE_TYPES
MT_ACK = proto.MT_ACKNOWLEDGE

# ------------------------------------------------------------------------------------------------
# harness-owned message classes (ids far away from the core ids)

# type id -> payload size; two groups so that "subscribed" and "unsubscribed" good frames exist
SIZES: Dict[int, int] = {5000: 0, 5001: 8, 5002: 104, 5003: 4096,
                         5010: 0, 5011: 8, 5012: 104, 5013: 4096}
# a hand-written definition of the older style: no type_hash and no type_size (the client reads the size from the instance)
V1_SIZES: Dict[int, int] = {5004: 8}
UNKNOWN_IDS = (6000, 6001)  # never defined


def type_hash_of(mt: int) -> int:
    return (0x5EED0000 + mt) & 0xFFFFFFFF


CLS: Dict[int, type] = {}
# what the reference reader knows about local definitions: id -> (size, hash or None)
REG: Dict[int, Tuple[int, Optional[int]]] = {}


def _make_cls(mt: int, size: int, v1: bool = False):
    ns = dict(type_id=mt, type_name=f"ENGD_{mt}", type_size=size, type_source="", type_def="",
              type_hash=type_hash_of(mt))
    if v1:
        del ns["type_hash"], ns["type_size"]
    if size == 8:
        ns["val"] = Double()
    elif size == 104:
        ns["str"] = ByteArray(64)
        ns["val"] = Double()
        ns["arr"] = IntArray(Int32, 8)
    elif size == 4096:
        ns["raw"] = ByteArray(4096)
    elif size != 0:
        raise HarnessError(f"no layout for size {size}")
    cls = MessageMeta(f"ENGD_{mt}", (pyrtma.MessageData,), ns)
    if ctypes.sizeof(cls) != size:
        raise HarnessError(f"ENGD_{mt}: sizeof {ctypes.sizeof(cls)} != {size}")
    return message_def(cls)


def _register():
    if CLS:
        return
    for mt in list(SIZES) + list(V1_SIZES) + list(UNKNOWN_IDS):
        try:
            get_msg_cls(mt)
        except UnknownMessageType:
            continue
        raise HarnessError(f"type id {mt} is already defined; Engine D ids must not collide")
    for mt, size in SIZES.items():
        CLS[mt] = _make_cls(mt, size)
        REG[mt] = (size, type_hash_of(mt))
    for mt, size in V1_SIZES.items():
        CLS[mt] = _make_cls(mt, size, v1=True)
        if hasattr(CLS[mt], "type_hash"):
            raise HarnessError("the older-style class unexpectedly has a type_hash")
        REG[mt] = (size, None)
    ack = get_msg_cls(MT_ACK)
    if ctypes.sizeof(ack) != 0:
        raise HarnessError("core ACKNOWLEDGE is expected to be a signal")
    CLS[MT_ACK] = ack
    REG[MT_ACK] = (0, None)  # ACK frames are only ever scripted with version 0


EDITIONS = {"longer": 104, "same-size": 8}
CURRENT: Dict[int, type] = {}  # type id -> class of the edition in force, where it is not the original one


def register_edition(mt: int, edition: str) -> Tuple[int, int]:
    """Register ANOTHER definition for type id `mt` (as importing a regenerated definitions module does): a different size
    ("longer") or the same size with another version hash ("same-size").  Returns (size, hash) of the definition now in force."""
    size = EDITIONS[edition]
    h = (type_hash_of(mt) ^ 0x00A5A500) & 0xFFFFFFFF
    ns = dict(type_id=mt, type_name=f"ENGD_{mt}", type_size=size, type_source="", type_def="", type_hash=h)
    if size == 8:
        ns["val"] = Double()
    else:
        ns["str"] = ByteArray(64)
        ns["val"] = Double()
        ns["arr"] = IntArray(Int32, 8)
    cls = MessageMeta(f"ENGD_{mt}_{edition.replace('-', '_')}", (pyrtma.MessageData,), ns)
    message_def(cls)
    REG[mt] = (size, h)
    CURRENT[mt] = cls
    return size, h


def restore_edition(mt: int):
    """Back to the original definition of Engine D for `mt`."""
    message_def(CLS[mt])
    REG[mt] = (SIZES[mt], type_hash_of(mt))
    CURRENT.pop(mt, None)


_register()

# ------------------------------------------------------------------------------------------------
# frames


def fill_bytes(fill: int, n: int) -> bytes:
    """Deterministic payload of n bytes.  fill < 0: constant byte (-fill) & 0xFF."""
    if n <= 0:
        return b""
    if fill < 0:
        return bytes([(-fill) & 0xFF]) * n
    return hashlib.shake_128(struct.pack("<Q", fill & 0xFFFFFFFFFFFFFFFF)).digest(n)


def mk_spec(mt, n, ver=0, fill=0, cnt=0, st=0, rt=0, src=(0, 0), dst=(0, 0), rem=0, dyn=0, tcx=(0, 0), kind=""):
    """JSON-serialisable description of one frame.  `n` is the declared num_data_bytes and also
    the number of payload bytes that follow the header."""
    return {"kind": kind, "mt": int(mt), "n": int(n), "ver": int(ver) & 0xFFFFFFFF, "fill": int(fill),
            "cnt": int(cnt), "st": int(st), "rt": int(rt), "src": [int(src[0]), int(src[1])],
            "dst": [int(dst[0]), int(dst[1])], "rem": int(rem), "dyn": int(dyn),
            "tcx": [int(tcx[0]), int(tcx[1])]}


def header_bytes(spec: dict, timecode: bool) -> bytes:
    h = proto.build(spec["mt"], b"", src_host=spec["src"][0], src_mod=spec["src"][1],
                    dest_host=spec["dst"][0], dest_mod=spec["dst"][1], msg_count=spec["cnt"],
                    num_data_bytes=spec["n"], remaining=spec["rem"], is_dynamic=spec["dyn"],
                    reserved=spec["ver"], timecode=timecode, tc=tuple(spec["tcx"]))
    # send_time / recv_time are given as raw 64-bit patterns (so NaN payloads etc. stay exact)
    return h[:8] + struct.pack("<QQ", spec["st"] & (2 ** 64 - 1), spec["rt"] & (2 ** 64 - 1)) + h[24:]


def frame_bytes(spec: dict, timecode: bool) -> Tuple[bytes, bytes]:
    return header_bytes(spec, timecode), fill_bytes(spec["fill"], spec["n"])


def mask_recv_time(h: bytes) -> bytes:
    return h[:16] + b"\0" * 8 + h[24:]


# ------------------------------------------------------------------------------------------------
# watchdog: turns a hang of a defective client into EOF

_WD = {"installed": False, "link": None, "fired": False}


def _on_alarm(signum, frame):
    link = _WD["link"]
    _WD["fired"] = True
    if link is not None:
        link._force_eof()


def _install_watchdog():
    if _WD["installed"]:
        return
    if threading.current_thread() is not threading.main_thread():
        raise HarnessError("Engine D must run in the main thread of its process (SIGALRM watchdog)")
    signal.signal(signal.SIGALRM, _on_alarm)
    _WD["installed"] = True


# ------------------------------------------------------------------------------------------------
# select shim for the in-memory transport (installed as pyrtma.client.select)


class _ClientSelect:
    error = select.error

    def select(self, rlist, wlist, xlist, timeout=None):
        rlist, wlist, xlist = list(rlist), list(wlist), list(xlist)
        if not any(isinstance(s, FakeSocket) for s in rlist + wlist + xlist):
            if timeout is None:
                return select.select(rlist, wlist, xlist)
            return select.select(rlist, wlist, xlist, timeout)
        for s in rlist + wlist:
            if s.closed:
                raise ValueError("file descriptor cannot be a negative integer (-1)")
        if wlist and not rlist:
            return [], wlist, []

        def ready():
            return [s for s in rlist if s.rx or s.rx_fin or s.rx_rst]

        r = ready()
        if not r:
            for s in rlist:
                link = getattr(s, "_engd_link", None)
                if link is not None and s.inflight:
                    link._arrive()  # the next piece arrives while the client waits
            r = ready()
        if r:
            return r, [], []
        if timeout is None or timeout < 0:
            raise Stall("select() would block for ever: nothing queued, nothing on the way, peer open")
        return [], [], []  # virtual wait: the timeout elapses at once


_SHIM = {"installed": False}


def _install_select_shim():
    if _SHIM["installed"]:
        return
    import pyrtma.client as pc

    if not hasattr(pc, "select") or not hasattr(pc.select, "select"):
        raise HarnessError("seam pyrtma.client.select no longer exists")
    pc.select = _ClientSelect()
    _SHIM["installed"] = True


# ------------------------------------------------------------------------------------------------
# the link

_TCP = {"listener": None}


def _listener():
    lst = _TCP["listener"]
    if lst is None:
        lst = socket.socket(socket.AF_INET, socket.SOCK_STREAM)
        lst.bind(("127.0.0.1", 0))
        lst.listen(16)
        lst.settimeout(10)
        _TCP["listener"] = lst
    return lst


def _tcp_pair():
    lst = _listener()
    a = socket.socket(socket.AF_INET, socket.SOCK_STREAM)
    a.connect(lst.getsockname())
    b, _ = lst.accept()
    for s in (a, b):
        s.setsockopt(socket.IPPROTO_TCP, socket.TCP_NODELAY, 1)
    return a, b


class ConnectFailed(Exception):
    """The client's own connect path did not get through the scripted handshake."""


def _fionread(sock) -> int:
    buf = bytearray(4)
    fcntl.ioctl(sock.fileno(), termios.FIONREAD, buf)
    return struct.unpack("i", buf)[0]


class Link:
    """One client <-> scripted peer connection."""

    BUF = 1 << 20
    HANG_S = 5.0
    PAUSE = 0.02  # real pause before each later piece of a segmented write (connect/context)

    def __init__(self, timecode: bool = False, transport: str = "unix", msg_list=None):
        _install_watchdog()
        self.transport = transport
        self.timecode = bool(timecode)
        self.hs = proto.HDR.size + (8 if timecode else 0)
        self.net_path = transport in ("connect", "context")
        self._writer = None
        self._writer_err = None
        self._go = threading.Event()
        self._hurry = False
        self._ctx = None
        if self.net_path:
            self._connect_public(msg_list)
            return
        if transport == "unix":
            a, b = socket.socketpair()
        elif transport == "tcp":
            a, b = _tcp_pair()
        elif transport == "sim":
            _install_select_shim()
            net = simnet.Net()
            a, b = FakeSocket(net, "engD-client"), FakeSocket(net, "engD-peer")
            a.peer, b.peer = b, a
            a._engd_link = self
        else:
            raise HarnessError(f"unknown transport {transport}")
        self.sim = transport == "sim"
        self.written = 0     # sim: bytes handed to the stream so far
        self.cut_abs = []    # sim: absolute stream offsets at which the arrival pauses
        if not self.sim:
            for s in (a, b):
                for opt in (socket.SO_SNDBUF, socket.SO_RCVBUF):
                    try:
                        s.setsockopt(socket.SOL_SOCKET, opt, self.BUF)
                    except OSError:
                        pass
        self.a, self.peer = a, b
        b.setblocking(False)
        self.peer_state = "open"  # open | shut | closed
        self.ctrl_buf = bytearray()
        self.hang = False
        client = Client(timecode=timecode)
        client.logger.enable_console = False
        client.sock.close()  # the unconnected AF_INET socket made by the constructor
        # -- the two private pokes of Engine D
        client._sock = a
        client._connected = True
        self.client = client

    # -- the client's own connect path -------------------------------------------------------
    def _connect_public(self, msg_list):
        lst = _listener()
        out = {}

        def handshake():
            try:
                b, _ = lst.accept()
                b.settimeout(10)
                buf, got = bytearray(), []
                while len(got) < 2:  # CONNECT_V2 then CONNECT
                    d = b.recv(4096)
                    if not d:
                        break
                    buf += d
                    got += proto.parse_stream(buf, self.timecode)
                b.sendall(proto.build(MT_ACK, b"", src_mod=0, dest_mod=101, timecode=self.timecode))
                out["sock"], out["frames"] = b, got
            except Exception as e:  # noqa
                out["err"] = e

        th = threading.Thread(target=handshake, daemon=True)
        th.start()
        server = "%s:%d" % lst.getsockname()
        try:
            if self.transport == "context":
                self._ctx = pyrtma.client_context(server_name=server, timecode=self.timecode,
                                                  msg_list=list(msg_list) if msg_list else None)
                client = self._ctx.__enter__()
            else:
                client = Client(timecode=self.timecode)
                client.logger.enable_console = False
                client.connect(server)
        except Exception as e:  # noqa
            th.join(12)
            if "sock" in out:
                out["sock"].close()
            raise ConnectFailed(f"{type(e).__name__}: {e}")
        th.join(12)
        if "sock" not in out:
            raise ConnectFailed(f"handshake thread: {out.get('err')}")
        client.logger.enable_console = False
        b = out["sock"]
        b.settimeout(None)
        b.setsockopt(socket.IPPROTO_TCP, socket.TCP_NODELAY, 1)
        b.setblocking(False)
        self.handshake_frames = out["frames"]
        self.sim = False
        self.written, self.cut_abs = 0, []
        self.a, self.peer = client.sock, b
        self.peer_state = "open"
        self.ctrl_buf = bytearray()
        self.hang = False
        self.client = client

    def _send_now(self, data: bytes, settle=True):
        """Blocking-safe send on the peer socket; optionally wait until the bytes are readable at the client."""
        before = _fionread(self.a) if settle else 0
        view = memoryview(data)
        while len(view):
            try:
                n = self.peer.send(view)
            except BlockingIOError:
                raise HarnessError("socket buffer full: the script queues more than the kernel buffers hold")
            view = view[n:]
        if settle:
            for _ in range(25000):
                if _fionread(self.a) >= before + len(data):
                    return
                time.sleep(0.0002)
            raise ConnectFailed("written bytes did not arrive within 5 s")

    def _play(self, pieces):
        self._go.wait(2.0)  # normally released when the client enters its next call
        for p in pieces:
            if not self._hurry:
                time.sleep(self.PAUSE)
            try:
                self.peer.sendall(p)
            except OSError as e:
                self._writer_err = e
                return

    def _join_writer(self):
        w = self._writer
        if w is not None:
            self._hurry = True
            self._go.set()
            w.join()
            self._writer = None

    def _settle_eof(self):
        """TCP: wait until the client's end has seen the FIN."""
        p = select.poll()
        p.register(self.a, select.POLLIN | select.POLLRDHUP)
        for _ in range(500):
            ev = p.poll(10)
            if ev and ev[0][1] & (select.POLLRDHUP | select.POLLHUP | select.POLLERR):
                return
        raise ConnectFailed("FIN did not arrive within 5 s")

    # -- peer side -------------------------------------------------------------------------
    def _arrive(self):
        """sim: let the bytes up to the next cut point (or everything) arrive."""
        a = self.a
        arrived = self.written - len(a.inflight)
        nxt = min((c for c in self.cut_abs if c > arrived), default=None)
        k = len(a.inflight) if nxt is None else min(len(a.inflight), nxt - arrived)
        a.rx += a.inflight[:k]
        del a.inflight[:k]

    def write(self, data: bytes, cuts=()):
        """Queue `data` for the client.  cuts (sim only): offsets inside `data` where the arrival
        pauses until the client blocks in a read or starts the next frame read with nothing left."""
        if self.peer_state != "open":
            raise HarnessError("script writes after the peer closed")
        if self.sim:
            paused = bool(self.a.inflight)  # the arrival is held at an earlier cut: queue behind it
            self.cut_abs += [self.written + int(c) for c in cuts]
            self.written += len(data)
            self.a.inflight += data
            if not paused:
                self._arrive()
            return
        self._join_writer()
        if self.net_path:
            pieces, last = [], 0
            for c in list(cuts) + [len(data)]:
                pieces.append(data[last:c])
                last = c
            self._send_now(pieces[0])
            if len(pieces) > 1:
                self._go.clear()
                self._hurry = False
                self._writer = threading.Thread(target=self._play, args=(pieces[1:],), daemon=True)
                self._writer.start()
            return
        if cuts:
            raise HarnessError("segmented arrival needs the sim, connect or context transport")
        view = memoryview(data)
        while len(view):
            try:
                n = self.peer.send(view)
            except BlockingIOError:
                raise HarnessError("socket buffer full: the script queues more than the kernel buffers hold")
            view = view[n:]

    def read_ctrl(self) -> List[proto.Frame]:
        """Whole frames the client has sent since the last call."""
        if self.peer_state == "closed":
            return []
        if self.sim:
            self.ctrl_buf += self.peer.rx
            del self.peer.rx[:]
            return proto.parse_stream(self.ctrl_buf, self.timecode)
        while True:
            try:
                d = self.peer.recv(65536)
            except BlockingIOError:
                break
            except ConnectionError:
                break
            if not d:
                break
            self.ctrl_buf += d
        return proto.parse_stream(self.ctrl_buf, self.timecode)

    def shut(self):
        """Half close: the client sees EOF after the queued bytes, and can still send."""
        self._join_writer()
        if self.peer_state == "open":
            if self.sim:
                self.a.rx_fin = True  # FIN behind whatever is queued or still on the way
            else:
                self.peer.shutdown(socket.SHUT_WR)
                if self.net_path:
                    self._settle_eof()
            self.peer_state = "shut"

    def fin(self):
        """Orderly close with nothing unread."""
        self._join_writer()
        self.read_ctrl()
        self.peer.close()
        self.peer_state = "closed"
        if self.net_path:
            self._settle_eof()

    def rst(self):
        """Abortive close.  unix: close with unread client data pending; tcp: SO_LINGER(1, 0)."""
        if self.sim:
            self.read_ctrl()
            self.peer.abort()
            self.peer_state = "closed"
            return True
        self._join_writer()
        if self.transport in ("tcp", "connect", "context"):
            self.peer.setsockopt(socket.SOL_SOCKET, socket.SO_LINGER, struct.pack("ii", 1, 0))
            self.peer.close()
            self.peer_state = "closed"
            # wait for the RST to be processed by the client's end (loopback: at once, but be safe)
            p = select.poll()
            p.register(self.a, select.POLLIN)
            for _ in range(500):
                ev = p.poll(10)
                if ev and ev[0][1] & (select.POLLERR | select.POLLHUP):
                    return True
            return False
        # something the client has sent that the manager never read
        self.read_ctrl()
        self.client.send_signal(5000)
        self.peer.close()
        self.peer_state = "closed"
        return True

    def _force_eof(self):
        self.hang = True
        try:
            if self.peer_state == "open":
                self.peer.shutdown(socket.SHUT_WR)
                self.peer_state = "shut"
        except OSError:
            pass

    # -- guarded client call ---------------------------------------------------------------
    def guarded(self, fn, *args, **kw):
        """Run a client call under the hang watchdog."""
        _WD["link"] = self
        _WD["fired"] = False
        if self._writer is not None:
            self._go.set()  # the client is entering a call: the held-back pieces may start to arrive
        signal.setitimer(signal.ITIMER_REAL, self.HANG_S)
        try:
            return fn(*args, **kw)
        finally:
            signal.setitimer(signal.ITIMER_REAL, 0)
            _WD["link"] = None

    def close(self):
        self._join_writer()
        c = self.client
        if self._ctx is not None:
            try:
                self._ctx.__exit__(None, None, None)  # the context's own exit path: Client.disconnect()
            except Exception:  # noqa
                pass
        c._connected = False  # so that __del__/disconnect never tries to talk
        for s in (self.a, self.peer):
            try:
                s.close()
            except OSError:
                pass
        logging.Logger.manager.loggerDict.pop(hex(id(c)), None)
        self.client = None


# ------------------------------------------------------------------------------------------------
# control frames the client sends for subscription changes

CTRL_MT = {"subscribe": proto.MT_SUBSCRIBE, "unsubscribe": proto.MT_UNSUBSCRIBE,
           "pause": proto.MT_PAUSE_SUBSCRIPTION, "resume": proto.MT_RESUME_SUBSCRIPTION}


def ctrl_matches(frames: List[proto.Frame], how: str, types: List[int]) -> Optional[str]:
    """None if `frames` are exactly the control frames for this change, else a description."""
    want = sorted([ALL] if ALL in types else set(types))
    got = []
    for f in frames:
        if f.msg_type != CTRL_MT[how]:
            return f"control frame type {f.msg_type}, expected {CTRL_MT[how]}"
        if f.num_data_bytes != 4 or len(f.payload) != 4:
            return f"control frame with {f.num_data_bytes} data bytes"
        got.append(struct.unpack("<i", f.payload)[0])
    if sorted(got) != want:
        return f"control frames for {sorted(got)}, expected {want}"
    return None
