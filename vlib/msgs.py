"""Engine C - in-process message PBT helpers shared by C09 and C10.

* JSON-safe value codec (``enc``/``dec``) so that every generated case is a concrete, replayable trace
* message/struct classes: shipped core definitions, a hand-written family with one of every validator
  kind at several widths/lengths, Hypothesis-built classes (``type()`` through ``MessageMeta``), and a
  hook ``extra_classes()`` for classes compiled from generated YAML
* introspection of a class into field descriptions (kind, element code, length, offset, size)
* the *domain model*: which Python values are inside a field's domain, which are outside (and why),
  which are don't-cares, and what an accepted value must read back as
* Hypothesis strategies that produce already-encoded values
"""
from __future__ import annotations

import array
import ctypes
import functools
import hashlib
import json
import math
import re
import struct as _struct
import zlib
from typing import Any, Dict, List, Optional, Tuple

from hypothesis import strategies as st

import pyrtma  # noqa: F401
import pyrtma.core_defs as core_defs
import pyrtma.message as _pm
import pyrtma.validators as V
from pyrtma.message_base import MessageBase, MessageMeta
from pyrtma.message_data import MessageData

from vlib.common import HarnessError

# ------------------------------------------------------------------------------------------------
# type tables

INT_CODES = ["i8", "i16", "i32", "i64", "u8", "u16", "u32", "u64"]
FLOAT_CODES = ["f32", "f64"]
SCALAR_CODES = INT_CODES + FLOAT_CODES + ["char", "byte"]

VCLS = {
    "i8": V.Int8, "i16": V.Int16, "i32": V.Int32, "i64": V.Int64,
    "u8": V.Uint8, "u16": V.Uint16, "u32": V.Uint32, "u64": V.Uint64,
    "f32": V.Float, "f64": V.Double, "char": V.Char, "byte": V.Byte,
}
CODE_OF = {v: k for k, v in VCLS.items()}
# ctypes element types used for the value forms "ctypes array" and "scalar ctypes instance of the field's own type"
CT = {
    "i8": ctypes.c_int8, "i16": ctypes.c_int16, "i32": ctypes.c_int32, "i64": ctypes.c_int64,
    "u8": ctypes.c_uint8, "u16": ctypes.c_uint16, "u32": ctypes.c_uint32, "u64": ctypes.c_uint64,
    "f32": ctypes.c_float, "f64": ctypes.c_double, "byte": ctypes.c_ubyte, "char": ctypes.c_char,
}
CT_CODE = {v: k for k, v in CT.items() if k != "byte"}  # c_ubyte is c_uint8
# array.array type codes (value form "array.array")
TYPECODE = {"i8": "b", "i16": "h", "i32": "i", "i64": "q", "u8": "B", "u16": "H", "u32": "I", "u64": "Q", "f32": "f", "f64": "d"}

INT_RANGE = {
    "i8": (-(2 ** 7), 2 ** 7 - 1), "i16": (-(2 ** 15), 2 ** 15 - 1), "i32": (-(2 ** 31), 2 ** 31 - 1),
    "i64": (-(2 ** 63), 2 ** 63 - 1), "u8": (0, 2 ** 8 - 1), "u16": (0, 2 ** 16 - 1), "u32": (0, 2 ** 32 - 1),
    "u64": (0, 2 ** 64 - 1), "byte": (0, 255),
}
FLT_MAX = 3.4028234663852886e38
FLT_OVER = 3.4028235677973366e38  # smallest double that rounds to +inf as float32
FLT_UNDER_OVER = 3.4028235677973362e38  # largest double that still rounds to FLT_MAX
DBL_MAX = 1.7976931348623157e308

# ------------------------------------------------------------------------------------------------
# value codec


def enc(v: Any):
    """Python value -> JSON-safe value (exact)."""
    if v is None:
        return {"none": 1}
    if isinstance(v, bool):
        return {"t": bool(v)}
    if isinstance(v, int):
        return v if abs(v) < 2 ** 53 else {"i": str(v)}
    if isinstance(v, float):
        return {"f": v.hex()}
    if isinstance(v, str):
        return {"s": v}
    if isinstance(v, bytes):
        return {"b": v.hex()}
    if isinstance(v, bytearray):
        return {"ba": bytes(v).hex()}
    if isinstance(v, list):
        return {"l": [enc(x) for x in v]}
    if isinstance(v, tuple):
        return {"u": [enc(x) for x in v]}
    if isinstance(v, range):
        return {"r": [v.start, v.stop, v.step]}
    if isinstance(v, dict) and not v:
        return {"d": {}}
    raise HarnessError(f"cannot encode {type(v).__name__}")


def dec(j: Any):
    """JSON-safe value -> Python value.  Struct instances and bound arrays are built fresh."""
    if isinstance(j, bool):
        raise HarnessError("bare bool in trace")
    if isinstance(j, int):
        return j
    if not isinstance(j, dict):
        raise HarnessError(f"cannot decode {j!r}")
    if "S" in j:
        return make_struct(j)
    if "A" in j:
        return make_array_source(j)
    if "CA" in j:  # ctypes array of (zeroed or filled) struct instances: {"CA": class ref, "n": length, "fill": byte|None}
        arr = (resolve(j["CA"]) * int(j["n"]))()
        if j.get("fill") is not None and j["n"]:
            ctypes.memset(ctypes.addressof(arr), int(j["fill"]) & 0xFF, ctypes.sizeof(arr))
        return arr
    if "C" in j:  # ctypes array: {"C": element code, "v": [encoded python values]}
        vals = [dec(x) for x in j["v"]]
        return (CT[j["C"]] * len(vals))(*vals)
    if "arr" in j:  # array.array: {"arr": element code, "v": [encoded python values]}
        return array.array(TYPECODE[j["arr"]], [dec(x) for x in j["v"]])
    if "c" in j:  # scalar ctypes instance: {"c": code, "v": encoded python value}
        return CT[j["c"]](dec(j["v"]))
    if "none" in j:
        return None
    if "t" in j:
        return bool(j["t"])
    if "i" in j:
        return int(j["i"])
    if "f" in j:
        return float.fromhex(j["f"])
    if "s" in j:
        return j["s"]
    if "b" in j:
        return bytes.fromhex(j["b"])
    if "ba" in j:
        return bytearray(bytes.fromhex(j["ba"]))
    if "l" in j:
        return [dec(x) for x in j["l"]]
    if "u" in j:
        return tuple(dec(x) for x in j["u"])
    if "r" in j:
        return range(*j["r"])
    if "d" in j:
        return {}
    raise HarnessError(f"cannot decode {j!r}")


def show(v: Any) -> str:
    """Short human readable rendering of a decoded value."""
    if isinstance(v, MessageBase):
        return f"<{type(v).__name__} {bytes(v)[:16].hex()}>"
    if isinstance(v, (V.ArrayField, V.StructArray)):
        return f"<bound {v!r}>".split(" at 0x")[0] + ">"
    if isinstance(v, ctypes.Array):
        return f"({v._type_.__name__}*{len(v)})({', '.join(show(x) for x in list(v)[:12])}{', ...' if len(v) > 12 else ''})"
    if isinstance(v, ctypes._SimpleCData):
        return f"{type(v).__name__}({v.value!r})"
    if isinstance(v, array.array):
        return f"array('{v.typecode}', {show(list(v))})"
    if isinstance(v, (list, tuple)):
        inner = ", ".join(show(x) for x in v[:12]) + (", ..." if len(v) > 12 else "")
        return ("[%s]" if isinstance(v, list) else "(%s)") % inner
    r = repr(v)
    return r if len(r) <= 60 else r[:57] + "..."


# ------------------------------------------------------------------------------------------------
# class construction
#
# struct spec : {"n": name, "f": [field, ...]}
# field       : [name, code]                       scalar (SCALAR_CODES)
#               [name, "str", n] [name, "bytes", n]
#               [name, "arr", code, n]             int or float array
#               [name, "struct", spec] [name, "sarr", spec, n]
# class ref   : {"core": "MDF_X"} | {"fam": name} | {"spec": spec, "md": bool} | {"extra": name}

_BUILT: Dict[str, type] = {}
_REF_OF: Dict[type, dict] = {}
_NEXT_ID = [20000]


def _canon(x) -> str:
    return json.dumps(x, sort_keys=True, separators=(",", ":"))


def _validator_for(f: list):
    kind = f[1]
    if kind in VCLS:
        return VCLS[kind]()
    if kind == "str":
        return V.String(f[2])
    if kind == "bytes":
        return V.ByteArray(f[2])
    if kind == "arr":
        code, n = f[2], f[3]
        if code in INT_CODES:
            return V.IntArray(VCLS[code], n)
        if code in FLOAT_CODES:
            return V.FloatArray(VCLS[code], n)
        raise HarnessError(f"bad array element code {code}")
    if kind == "struct":
        return V.Struct(build_class(f[2], False))
    if kind == "sarr":
        return V.StructArray(build_class(f[2], False), f[3])
    raise HarnessError(f"bad field kind {kind}")


def build_class(spec: dict, md: bool) -> type:
    """Build (once per distinct spec) a message/struct class the way the generated modules do."""
    key = _canon([spec, bool(md)])
    cls = _BUILT.get(key)
    if cls is not None:
        return cls
    ns: Dict[str, Any] = {}
    name = spec.get("n") or ("H" + hashlib.sha1(key.encode()).hexdigest()[:10])
    ns["type_name"] = name
    ns["type_hash"] = (zlib.crc32(key.encode()) & 0xFFFFFFFF) or 1
    ns["type_source"] = "verif"
    ns["type_def"] = key
    if md:
        ns["type_id"] = _NEXT_ID[0]
        _NEXT_ID[0] += 1
    for f in spec["f"]:
        ns[f[0]] = _validator_for(f)
    cls = MessageMeta(("MDF_" if md else "") + name, (MessageData if md else MessageBase,), ns)
    cls.type_size = ctypes.sizeof(cls)
    if md:
        if cls.type_id in _pm._msg_defs:
            raise HarnessError(f"type id {cls.type_id} already registered")
        _pm.message_def(cls)
    _BUILT[key] = cls
    _REF_OF[cls] = {"spec": spec, "md": bool(md)}
    return cls


def build_class_for_id(spec: dict, type_id: int) -> type:
    """A message class with a GIVEN type id, built once per (spec, id) and NOT registered: registry histories register
    several classes under one id themselves, through the public pyrtma.message_def decorator."""
    key = _canon([spec, "rid", int(type_id)])
    cls = _BUILT.get(key)
    if cls is not None:
        return cls
    name = "R" + hashlib.sha1(key.encode()).hexdigest()[:10]
    ns: Dict[str, Any] = {"type_name": name, "type_hash": (zlib.crc32(key.encode()) & 0xFFFFFFFF) or 1, "type_source": "verif",
                          "type_def": key, "type_id": int(type_id)}
    for f in spec["f"]:
        ns[f[0]] = _validator_for(f)
    cls = MessageMeta("MDF_" + name, (MessageData,), ns)
    cls.type_size = ctypes.sizeof(cls)
    _BUILT[key] = cls
    _REF_OF[cls] = {"spec": spec, "rid": int(type_id)}
    return cls


def resolve(ref: dict) -> type:
    if "core" in ref:
        cls = getattr(core_defs, ref["core"], None)
        if cls is None:
            raise HarnessError(f"no core class {ref['core']}")
        return cls
    if "fam" in ref:
        return FAMILY[ref["fam"]]
    if "extra" in ref:
        for c in extra_classes():
            if c.__name__ == ref["extra"]:
                return c
        raise HarnessError(f"no extra class {ref['extra']}")
    if "like" in ref:
        cls = lookalike_class(resolve(ref["like"]), ref["swap"])
        if cls is None:
            raise HarnessError(f"no look-alike for {ref!r}")
        return cls
    if "spec" in ref and "rid" in ref:
        return build_class_for_id(ref["spec"], ref["rid"])
    if "spec" in ref:
        return build_class(ref["spec"], ref.get("md", False))
    raise HarnessError(f"bad class ref {ref!r}")


def ref_of(cls: type) -> dict:
    r = _REF_OF.get(cls)
    if r is not None:
        return r
    if getattr(core_defs, cls.__name__, None) is cls:
        return {"core": cls.__name__}
    raise HarnessError(f"class {cls.__name__} has no reference")


def extra_classes() -> List[type]:
    """Hook: classes compiled from generated YAML definition files (none yet)."""
    return []


# ------------------------------------------------------------------------------------------------
# hand-written family: one of every validator kind at several widths / lengths

S_SMALL = {"n": "FS_SMALL", "f": [["a", "i8"], ["f", "f32"]]}
S_TWIN = {"n": "FS_TWIN", "f": [["a", "i8"], ["f", "f32"]]}  # same layout, different class
S_MIX = {"n": "FS_MIX", "f": [["c", "char"], ["s", "str", 4], ["v", "arr", "i16", 3], ["d", "f64"],
                              ["b", "bytes", 3], ["y", "byte"], ["g", "arr", "f32", 2]]}
S_NEST = {"n": "FS_NEST", "f": [["x", "u16"], ["inner", "struct", S_SMALL], ["arr", "sarr", S_SMALL, 2],
                                ["mix", "struct", S_MIX]]}


def _fam_scalars():
    f = [[c, c] for c in INT_CODES + FLOAT_CODES] + [["ch", "char"], ["by", "byte"]]
    f += [["s2", "str", 2], ["s5", "str", 5], ["s32", "str", 32], ["s256", "str", 256]]
    f += [["b2", "bytes", 2], ["b7", "bytes", 7], ["b64", "bytes", 64]]
    return {"n": "FAM_SCALARS", "f": f}


def _fam_arrays(n: int):
    f = [[f"{c}_a", "arr", c, n] for c in INT_CODES + FLOAT_CODES]
    if n > 1:
        f += [["by_a", "bytes", n], ["st_a", "str", n]]
    f += [["tail", "u8"]]
    return {"n": f"FAM_ARR{n}", "f": f}


def _fam_structs():
    return {"n": "FAM_STRUCTS", "f": [
        ["hdr", "i32"], ["st", "struct", S_SMALL], ["mix", "struct", S_MIX], ["nest", "struct", S_NEST],
        ["sa", "sarr", S_SMALL, 3], ["sm", "sarr", S_MIX, 2], ["sn", "sarr", S_NEST, 2], ["s1", "sarr", S_SMALL, 1],
        ["tw", "struct", S_TWIN], ["ta", "sarr", S_TWIN, 3], ["tail", "u8"]]}


ARRAY_LENS = [1, 2, 3, 5, 8, 33]
FAMILY: Dict[str, type] = {}


def _init_family():
    for spec in (S_SMALL, S_TWIN, S_MIX, S_NEST):
        cls = build_class(spec, False)
        FAMILY[spec["n"]] = cls
        _REF_OF[cls] = {"fam": spec["n"]}
    specs = [_fam_scalars(), _fam_structs(), {"n": "FAM_EMPTY", "f": []}] + [_fam_arrays(n) for n in ARRAY_LENS]
    for spec in specs:
        cls = build_class(spec, True)
        FAMILY[spec["n"]] = cls
        _REF_OF[cls] = {"fam": spec["n"]}


_init_family()

CORE_MDF = sorted(k for k, v in vars(core_defs).items()
                  if k.startswith("MDF_") and isinstance(v, type) and issubclass(v, MessageData))
CORE_SDF = sorted(k for k, v in vars(core_defs).items()
                  if isinstance(v, type) and issubclass(v, MessageBase) and not k.startswith("MDF_")
                  and v.__module__ == core_defs.__name__)
FAMILY_MSGS = sorted(k for k, v in FAMILY.items() if issubclass(v, MessageData))
FAMILY_STRUCTS = sorted(k for k, v in FAMILY.items() if not issubclass(v, MessageData))


def fixed_refs() -> List[dict]:
    """Every non-generated class: core MDFs, core structs, the family, compiled extras."""
    refs = [{"core": n} for n in CORE_MDF + CORE_SDF] + [{"fam": n} for n in FAMILY_MSGS + FAMILY_STRUCTS]
    for c in extra_classes():
        _REF_OF.setdefault(c, {"extra": c.__name__})
        refs.append({"extra": c.__name__})
    return refs


def ref_class_kind(ref: dict) -> str:
    return "core" if "core" in ref else "fam" if "fam" in ref else "extra" if "extra" in ref else "hyp"


# ------------------------------------------------------------------------------------------------
# introspection


class FI:
    """One field of a message/struct class."""

    __slots__ = ("name", "kind", "code", "n", "scls", "off", "size", "desc")

    def __repr__(self):
        return f"FI({self.name},{self.kind},{self.code},{self.n})"

    @property
    def tag(self) -> str:
        if self.kind in ("int", "float"):
            return self.code
        if self.kind in ("char", "byte"):
            return self.kind
        if self.kind in ("str", "bytes"):
            return f"{self.kind}[{self.n}]"
        if self.kind in ("iarr", "farr"):
            return f"{self.code}[{self.n}]"
        if self.kind == "struct":
            return "struct"
        return f"struct[{self.n}]"


_FIELDS: Dict[type, List[FI]] = {}


def _static_attr(cls, name):
    for k in cls.__mro__:
        if name in k.__dict__:
            return k.__dict__[name]
    raise HarnessError(f"{cls.__name__} has no attribute {name}")


def fields_of(cls: type) -> List[FI]:
    got = _FIELDS.get(cls)
    if got is not None:
        return got
    out = []
    for fname, _ftype, *_ in cls._fields_:
        if not fname.startswith("_"):
            raise HarnessError(f"{cls.__name__}.{fname}: v1 style field, not supported")
        name = fname[1:]
        d = _static_attr(cls, name)
        cf = getattr(cls, fname)
        fi = FI()
        fi.name, fi.desc, fi.off, fi.size = name, d, cf.offset, cf.size
        fi.code, fi.n, fi.scls = None, 1, None
        t = type(d)
        if t in CODE_OF:
            fi.code = CODE_OF[t]
            fi.kind = "int" if fi.code in INT_CODES else "float" if fi.code in FLOAT_CODES else fi.code
        elif t is V.String:
            fi.kind, fi.n = "str", d.len
        elif t is V.ByteArray:
            fi.kind, fi.n = "bytes", d._len
        elif t is V.IntArray:
            fi.kind, fi.code, fi.n = "iarr", CODE_OF[type(d._validator)], d._len
        elif t is V.FloatArray:
            fi.kind, fi.code, fi.n = "farr", CODE_OF[type(d._validator)], d._len
        elif t is V.Struct:
            fi.kind, fi.scls = "struct", d._ctype
        elif t is V.StructArray:
            fi.kind, fi.scls, fi.n = "sarr", d._validator._ctype, d._len
        else:
            raise HarnessError(f"{cls.__name__}.{name}: unknown validator {t.__name__}")
        out.append(fi)
    _FIELDS[cls] = out
    return out


def field(cls: type, name: str) -> FI:
    for fi in fields_of(cls):
        if fi.name == name:
            return fi
    raise HarnessError(f"{cls.__name__} has no field {name}")


_HAS: Dict[Tuple[type, frozenset], bool] = {}


def has_kind(cls: type, kinds: frozenset) -> bool:
    key = (cls, kinds)
    if key not in _HAS:
        _HAS[key] = False  # recursion guard (structs cannot be recursive anyway)
        _HAS[key] = any(fi.kind in kinds or (fi.scls is not None and has_kind(fi.scls, kinds)) for fi in fields_of(cls))
    return _HAS[key]


def walk(root: MessageBase, path: list):
    """Follow [[field] | [field, index], ...] -> (container object, its class, byte offset in root)."""
    obj, off = root, 0
    for step in path:
        fi = field(type(obj), step[0])
        if fi.kind == "struct" and len(step) == 1:
            off += fi.off
            obj = getattr(obj, fi.name)
        elif fi.kind == "sarr" and len(step) == 2:
            off += fi.off + step[1] * ctypes.sizeof(fi.scls)
            obj = getattr(obj, fi.name)[step[1]]
        else:
            raise HarnessError(f"bad path step {step} at {type(obj).__name__}")
    return obj, type(obj), off


def read_field(obj: MessageBase, fi: FI):
    """Model value of a field: int / float / str / list of ints / floats / bytes."""
    v = getattr(obj, fi.name)
    if fi.kind in ("int", "float", "byte", "char", "str"):
        return v
    if fi.kind in ("iarr", "farr"):
        return list(v[:])
    if fi.kind == "bytes":
        return list(bytes(v[:]))
    if fi.kind == "struct":
        return bytes(v)
    return [bytes(x) for x in v[:]]


def leaf_targets(cls: type, limit: int = 4000):
    """All (path, FI) pairs of leaf (non-struct) fields, struct arrays expanded."""
    out = []

    def rec(c, path):
        for fi in fields_of(c):
            if len(out) >= limit:
                return
            if fi.kind == "struct":
                rec(fi.scls, path + [[fi.name]])
            elif fi.kind == "sarr":
                for i in range(fi.n):
                    rec(fi.scls, path + [[fi.name, i]])
            else:
                out.append((path, fi))

    rec(cls, [])
    return out


# ------------------------------------------------------------------------------------------------
# look-alike struct classes: same class __name__, same ordered field names, same offsets and sizeof - other field types
# (what two definition files, or two versions of one, can make of "POINT")

_SAME_SIZE = [["i8", "u8", "char", "byte"], ["i16", "u16"], ["i32", "u32", "f32"], ["i64", "u64", "f64"]]
_LIKE: Dict[Tuple[type, str], Optional[type]] = {}


def _other_code(code: str) -> str:
    for grp in _SAME_SIZE:
        if code in grp:
            return grp[(grp.index(code) + 1) % len(grp)]
    raise HarnessError(f"no same-size partner for {code}")


def _twin_validator(fi: FI, swap: bool):
    """A fresh validator for a field like fi: of the same type, or (swap) of another type of the same size and
    alignment -> (validator, really different)."""
    k = fi.kind
    if k in ("int", "float", "char", "byte"):
        code = fi.code if k in ("int", "float") else k
        return VCLS[_other_code(code) if swap else code](), swap
    if k == "str":
        return (V.ByteArray(fi.n) if swap else V.String(fi.n)), swap
    if k == "bytes":
        return (V.String(fi.n) if swap else V.ByteArray(fi.n)), swap
    if k in ("iarr", "farr"):
        code = _other_code(fi.code) if swap else fi.code
        return (V.IntArray if code in INT_CODES else V.FloatArray)(VCLS[code], fi.n), swap
    inner = lookalike_class(fi.scls, "all") if swap else None
    changed = inner is not None
    inner = inner if changed else fi.scls
    return (V.Struct(inner) if k == "struct" else V.StructArray(inner, fi.n)), changed


def lookalike_class(scls: type, swap) -> Optional[type]:
    """A different class that looks like scls; swap = "all" or a list of field indices whose types are exchanged.
    None if nothing can be exchanged (no fields)."""
    key = (scls, _canon(swap))
    if key in _LIKE:
        return _LIKE[key]
    fis = fields_of(scls)
    ns: Dict[str, Any] = {"type_name": getattr(scls, "type_name", scls.__name__), "type_hash": 1, "type_source": "verif-look-alike",
                          "type_def": "look-alike"}
    changed = False
    for i, fi in enumerate(fis):
        v, ch = _twin_validator(fi, swap == "all" or i in swap)
        changed = changed or ch
        ns[fi.name] = v
    cls = None
    if changed:
        cls = MessageMeta(scls.__name__, (MessageBase,), ns)
        if (cls is scls or issubclass(cls, scls) or cls.__name__ != scls.__name__ or ctypes.sizeof(cls) != ctypes.sizeof(scls)
                or [f[0] for f in cls._fields_] != [f[0] for f in scls._fields_]
                or [getattr(cls, f[0]).offset for f in cls._fields_] != [getattr(scls, f[0]).offset for f in scls._fields_]
                or [f[1] for f in cls._fields_] == [f[1] for f in scls._fields_]):
            raise HarnessError(f"look-alike of {scls.__name__} (swap {swap}) does not look alike")
        _REF_OF[cls] = {"like": ref_of(scls), "swap": swap}
    _LIKE[key] = cls
    return cls


def lookalike_refs(scls: type) -> List[dict]:
    """References of the look-alikes of scls: every field exchanged, and single fields exchanged."""
    nf = len(fields_of(scls))
    out = []
    for swap in ["all"] + [[i] for i in sorted(set(list(range(min(nf, 4))) + [nf - 1])) if i >= 0]:
        if nf > 1 or swap == "all":
            if lookalike_class(scls, swap) is not None:
                out.append({"like": ref_of(scls), "swap": swap})
    return out


# ------------------------------------------------------------------------------------------------
# struct instances / array sources named in traces


def make_struct(j: dict) -> MessageBase:
    """{"S": ref, "vals": [[path, field, value], ...]} -> fresh instance (validated assignments, failures ignored)."""
    inst = resolve(j["S"])()
    if j.get("fill") is not None:  # raw content, written without any validator
        ctypes.memset(ctypes.addressof(inst), int(j["fill"]) & 0xFF, ctypes.sizeof(inst))
    for path, fname, v in j.get("vals", []):
        try:
            c, _ccls, _off = walk(inst, path)
            setattr(c, fname, dec(v))
        except HarnessError:
            raise
        except Exception:
            pass
    return inst


_KEEPALIVE: List[Any] = []


def make_array_source(j: dict):
    """{"A": ref, "f": field, "init": list|None, "sl": [a,b,c]|None} -> bound array of a fresh instance.

    The source is initialised through the private ctypes field so that it does not depend on the
    validators under test.
    """
    inst = resolve(j["A"])()
    fi = field(type(inst), j["f"])
    if j.get("init") is not None:
        raw = getattr(inst, "_" + fi.name)
        vals = dec(j["init"])
        if fi.kind == "sarr":
            for i, s in enumerate(vals):
                raw[i] = s
        else:
            raw[:] = vals
    arr = getattr(inst, fi.name)
    if j.get("sl") is not None:
        return arr[slice(*j["sl"])]
    return arr


# ------------------------------------------------------------------------------------------------
# domain model
#
# classify_* return (verdict, cause, expected)
#   verdict  "in"  : inside the domain, must be accepted and read back as `expected`
#            "out" : outside the domain (cause says why), must be refused
#            "dc"  : no document decides; if accepted, `expected` (when not None) is what it should read as


def f32_round(x: float) -> float:
    return _struct.unpack("<f", _struct.pack("<f", x))[0]


def float_equal(code: str, got: float, want: float) -> bool:
    if not isinstance(got, float):
        return False
    if math.isnan(want):
        return math.isnan(got)
    fmt = "<f" if code == "f32" else "<d"
    try:
        return _struct.pack(fmt, got) == _struct.pack(fmt, want)
    except (OverflowError, _struct.error):
        return False


def classify_float(code: str, v: Any):
    if isinstance(v, bool):
        return "dc", "bool", float(v)
    if isinstance(v, int):
        try:
            x = float(v)
        except OverflowError:
            return "out", "overflow", None
    elif isinstance(v, float):
        x = v
    else:
        if type(v).__module__ in ("fractions", "decimal"):
            return "dc", "rational", None
        return "out", "wrong-type", None
    if math.isnan(x):
        return "dc", "nan", x
    if math.isinf(x):
        return "out", "overflow", None
    if code == "f32":
        try:
            return "in", "", f32_round(x)
        except OverflowError:
            return "out", "overflow", None
    return "in", "", x


def classify_int(code: str, v: Any):
    lo, hi = INT_RANGE[code]
    if isinstance(v, bool):
        return "dc", "bool", int(v)
    if isinstance(v, int):
        if lo <= v <= hi:
            return "in", "", v
        return "out", "out-of-range", None
    return "out", "non-integer", None


def classify_byte(v: Any, in_seq: bool):
    if isinstance(v, (bytes, bytearray)):
        if in_seq:
            return "dc", "bytes-in-sequence", None
        if len(v) == 1:
            return "in", "", v[0]
        return "out", "wrong-length", None
    return classify_int("byte", v)


def classify_char(v: Any):
    if isinstance(v, str):
        if len(v) > 1:
            return "out", "over-long", None
        if not v.isascii():
            return "out", "non-ascii", None
        if v == "":
            return "dc", "empty", None
        return "in", "", v
    if isinstance(v, (bytes, bytearray)):
        return "dc", "bytes", None
    return "out", "wrong-type", None


def classify_str(n: int, v: Any):
    if isinstance(v, str):
        if len(v) > n - 1:
            return "out", "over-long", None
        if not v.isascii():
            return "out", "non-ascii", None
        return "in", "", v
    if isinstance(v, (bytes, bytearray)):
        return "dc", "bytes", None
    return "out", "wrong-type", None


def classify_struct(scls: type, v: Any):
    if type(v) is scls:
        return "in", "", bytes(v)
    if isinstance(v, scls):
        return "dc", "subclass", None
    if isinstance(v, MessageBase) and type(v).__name__ == scls.__name__ and ctypes.sizeof(v) == ctypes.sizeof(scls):
        return "out", "look-alike-struct-type", None  # another class of the same name, field names and size
    return "out", "wrong-struct-type", None


def classify_elem(fi: FI, v: Any, in_seq: bool):
    """Classify one element for an array field (or the value of a scalar field)."""
    k = fi.kind
    if isinstance(v, ctypes._SimpleCData):
        # Scalar ctypes instances are judged on the Python value they hold.  An instance of the field's OWN ctype is a
        # documented value form (the __set__ signatures list it): in-domain unless it holds +-inf / a non-ASCII char.
        # Any other ctypes scalar type (wider, other kind, or inside a sequence) is decided by no document as long as the
        # held value is in the domain (may be refused; if accepted it must read back as that value); a held value
        # outside the domain must be refused like the plain Python value.
        own = CT.get(fi.code if k in ("int", "iarr", "float", "farr") else "byte" if k in ("byte", "bytes") else "char" if k == "char" else None)
        held = v.value
        if own is not None and type(v) is own and not in_seq:
            if k in ("float", "farr"):
                if math.isnan(held):
                    return "dc", "nan", held
                if math.isinf(held):
                    return "out", "overflow", None
                return "in", "", held
            if k == "char":
                if held and held[0] > 0x7F:
                    return "out", "non-ascii", None
                return "in", "", held.decode("ascii")
            return "in", "", held
        verdict, cause, exp = classify_elem(fi, held, in_seq)
        if verdict == "out":
            return verdict, cause, None
        return "dc", "ctypes-scalar", exp
    if k in ("int", "iarr"):
        return classify_int(fi.code, v)
    if k in ("float", "farr"):
        return classify_float(fi.code, v)
    if k in ("byte", "bytes"):
        return classify_byte(v, in_seq)
    if k == "char":
        return classify_char(v)
    if k == "str":
        return classify_str(fi.n, v)
    if k in ("struct", "sarr"):
        return classify_struct(fi.scls, v)
    raise HarnessError(k)


def upto_nul(s: str) -> str:
    i = s.find("\0")
    return s if i < 0 else s[:i]


def elem_equal(fi: FI, got: Any, want: Any) -> bool:
    k = fi.kind
    if k in ("float", "farr"):
        return float_equal(fi.code, got, want)
    if k in ("char", "str"):
        return isinstance(got, str) and upto_nul(got) == upto_nul(want)
    if k in ("struct", "sarr"):
        return got == want
    return type(got) is int and got == want


# ------------------------------------------------------------------------------------------------
# strategies (all produce ENCODED values)

_ASCII = "".join(chr(i) for i in range(1, 128))
_CTRL = "".join(chr(i) for i in range(1, 32)) + "\x7f"
_QUOTES = "\"'\\/`{}[]:,"
_NONASCII = ["\x80", "\xe9", "\xff", "€", "Ā", "\U0001f600"]


@functools.lru_cache(maxsize=8192)
def int_in(code: str):
    lo, hi = INT_RANGE[code]
    edge = sorted({x for x in (lo, lo + 1, -1, 0, 1, hi - 1, hi) if lo <= x <= hi})
    return st.one_of(st.sampled_from(edge), st.integers(lo, hi)).map(enc)


@functools.lru_cache(maxsize=8192)
def int_out(code: str):
    lo, hi = INT_RANGE[code]
    return st.sampled_from([lo - 1, hi + 1, lo - 2, hi + 2, hi + 2 ** 70, lo - 2 ** 70, 2 ** 64, -(2 ** 63) - 1,
                            10 ** 400, -(10 ** 400), (hi + 1) * 2, lo - 256, hi + 256]).map(enc)


@functools.lru_cache(maxsize=8192)
def int_wrongtype():
    return st.sampled_from([1.0, 0.0, 0.5, -1.5, float("nan"), float("inf"), 1e300, "1", "", "a", None,
                            [1], (1,), [], {}]).map(enc) | st.sampled_from([b"\x01", b"", b"ab", bytearray(b"\x01")]).map(enc)


@functools.lru_cache(maxsize=8192)
def int_dc():
    return st.sampled_from([True, False]).map(enc)


@functools.lru_cache(maxsize=8192)
def float_in(code: str):
    if code == "f32":
        edge = [0.0, -0.0, 1.0, -1.0, FLT_MAX, -FLT_MAX, FLT_UNDER_OVER, -FLT_UNDER_OVER, 1e-45, -1e-45, 1.17549435e-38,
                0.1, 1e-50, 16777217.0, 3.0e38]
        ints = [0, 1, -1, 16777217, 2 ** 100, -(2 ** 127), 10 ** 38]
        rnd = st.floats(min_value=-FLT_UNDER_OVER, max_value=FLT_UNDER_OVER, allow_nan=False) | st.floats(
            width=32, allow_nan=False, allow_infinity=False)
    else:
        edge = [0.0, -0.0, 1.0, -1.0, DBL_MAX, -DBL_MAX, 5e-324, -5e-324, 2.2250738585072014e-308, 0.1, 1e39, -1e39,
                FLT_OVER]
        ints = [0, 1, -1, 2 ** 53 + 1, 10 ** 308, -(10 ** 308), 2 ** 1023]
        rnd = st.floats(allow_nan=False, allow_infinity=False)
    return st.one_of(st.sampled_from(edge), st.sampled_from(ints), rnd).map(enc)


@functools.lru_cache(maxsize=8192)
def float_out(code: str):
    vals = [float("inf"), float("-inf"), 10 ** 400, -(10 ** 400), 2 ** 1024, -(2 ** 1024)]
    if code == "f32":
        vals += [1e39, -1e39, FLT_OVER, -FLT_OVER, 3.5e38, -3.5e38, DBL_MAX, -DBL_MAX, 10 ** 39, -(10 ** 39), 2 ** 128,
                 -(2 ** 128), 1e300]
    return st.sampled_from(vals).map(enc)


@functools.lru_cache(maxsize=8192)
def float_wrongtype():
    return st.sampled_from(["1.0", "", "nan", None, [1.0], (1.0,), [], {}]).map(enc) | st.sampled_from(
        [b"\x00", b"1.0", bytearray(b"\x01")]).map(enc)


@functools.lru_cache(maxsize=8192)
def float_dc():
    return st.sampled_from([float("nan"), -float("nan"), True, False]).map(enc)


# Text that LOOKS like the syntax of the formats a string value travels in (JSON, Python literals, YAML): the value of a
# String field is opaque content, whatever it resembles.  Tokens are joined at random; the templates are lists of numbers
# the way pretty-printers write them (padding blanks inside the brackets, after the commas, line breaks + indentation).
_SYN_NUMBERS = ["0", "1", "2", "3", "7", "-1", "12", "255", "1.5", "-1.5e+3", "1e5", "2E-3", "0.0", "-0", "NaN", "Infinity", "-Infinity"]
_SYN_WS = ["", " ", " ", "  ", "   ", "\t", "\n", "\n  ", "\r\n"]
_SYN_TOKENS = (
    ["[", "]", "{", "}", "(", ")", "[ ", " ]", "{ ", " }", "[]", "{}", "[ ]", "{ }", ",", ", ", " ,", ":", ": ", " : ", "\"", "'", "\\",
     "\\n", "\\t", "\\r", "\\\"", "\\\\", "\\u0041", "\\x41", "\\/", "/", "NaN", "Infinity", "-Infinity", "null", "true", "false",
     "None", "True", "False", "nan", "inf", "~", "a", "b", "key", "channels", "x", "#", "- ", "-", "|", ">", "&", "*", "!", "%", "@",
     "`", "//", "/*", "*/", "\n", "\t", "\r\n", "=", ";", "<", "</", "$", "${", "%s", "{0}", "?", "'" * 3, "\"" * 3, "\":\"", "\": \"",
     "\",", "\", \"", "---", "...", "<<", "!!", "\x7f", "\x01", "\x1b[0m", "\x08", "\x0c"]
    + _SYN_NUMBERS + _SYN_WS
)
_SYN_TEMPLATES = ["[ 1, 2, 3 ]", "[ 7 ]", "[ -1.5e+3,  2 ]", "channels: [ 1, 2, 3 ]", "{\"a\": [ 1, 2 ]}", "[\n  1,\n  2\n]", "[1, 2, 3]",
                  "[ NaN, Infinity ]", "{ \"k\" : 1 }", "- a: 1", "key: value", "a: [ 1 ]", "[ 1,2 ]", "( 1, 2 )", "{ 1, 2 }", "[ 0 ]",
                  "\"[ 1 ]\"", "\\n", "\\\"", "null", "true", "NaN", "Infinity", " ", "  ", "\\", "\"", "[ 1 , 2 ]", "[  1,  2  ]",
                  "[\t1,\t2\t]"]


@st.composite
def _syn_number_list(draw):
    """'[' ws number (',' ws number)* ws ']' in a drawn bracket pair, with one padding style or independent paddings."""
    op, cl = draw(st.sampled_from(["[]", "[]", "[]", "{}", "()"]))
    nums = draw(st.lists(st.sampled_from(_SYN_NUMBERS), min_size=0, max_size=4))
    ws = st.sampled_from(_SYN_WS)
    same = draw(ws) if draw(st.booleans()) else None
    parts = [op, draw(ws) if same is None else same]
    for i, num in enumerate(nums):
        if i:
            parts.append("," + (draw(ws) if same is None else same))
        parts.append(num)
    parts += [draw(ws) if same is None else same, cl]
    return "".join(parts)


_SYN_PIECE = st.one_of(st.sampled_from(_SYN_TOKENS), st.sampled_from(_SYN_TOKENS), st.sampled_from(_SYN_TEMPLATES), _syn_number_list())


@functools.lru_cache(maxsize=8192)
def syntax_text(max_len: int, min_len: int = 0):
    """Plain str (NOT encoded) of min_len..max_len ASCII characters (no NUL) made of pieces that look like JSON / Python /
    YAML syntax: padded number lists, brackets, braces, quotes, backslashes (also backslash + 'n' as two characters),
    colons, commas, NaN / Infinity / null / true, runs of blanks, leading and trailing blanks and line breaks."""

    def fit(pieces):
        s = "".join(pieces)
        if len(s) > max_len:
            s = s[:max_len] if len(pieces) % 2 else s[len(s) - max_len:]  # keep the head or the tail
        i = 0
        while len(s) < min_len:
            s += (pieces[i % len(pieces)] or " ")[: min_len - len(s)]
            i += 1
        return s

    return st.lists(_SYN_PIECE, min_size=1, max_size=8).map(fit)


_SYN_LOOK = re.compile(r"[\[{(]\s+\S|\S\s+[\]})]|NaN|Infinity|null|true|false|\\[nrtux\"\\/]|^\s|\s$|,\s|:\s|\s\s")


def looks_like_syntax(s: str) -> bool:
    """Evidence class: the text contains an opening / closing bracket with padding inside, a JSON keyword, a backslash
    escape spelled out, leading / trailing white space, white space after a comma or colon, or a run of white space."""
    return bool(_SYN_LOOK.search(s))


@functools.lru_cache(maxsize=8192)
def str_in(n: int, nul: bool = False):
    """ASCII strings of length <= n-1; the maximum length, empty, control characters and quotes are frequent, and every
    fourth one is text that looks like JSON / Python / YAML syntax (see syntax_text)."""
    alpha = st.sampled_from([_ASCII, _CTRL, _QUOTES, "ab", _ASCII + ("\0" if nul else "")])
    alts = [
        st.just(""),
        alpha.flatmap(lambda a: st.text(alphabet=a, min_size=n - 1, max_size=n - 1)),
        alpha.flatmap(lambda a: st.text(alphabet=a, min_size=0, max_size=n - 1)),
    ]
    if n >= 2:
        alts.append(syntax_text(n - 1))
    return st.one_of(alts).map(enc)


@functools.lru_cache(maxsize=8192)
def str_out(n: int):
    over = st.sampled_from([n, n + 1, n + 7, 2 * n]).flatmap(lambda k: st.text(alphabet="abcXYZ \x01\"", min_size=k, max_size=k))
    if n >= 2:
        na = st.tuples(st.sampled_from(_NONASCII), st.text(alphabet="ab", max_size=max(0, n - 2)), st.booleans()).map(
            lambda t: (t[0] + t[1]) if t[2] else (t[1] + t[0]))
    else:
        na = st.sampled_from(_NONASCII)
    return st.one_of(over, na).map(enc)


@functools.lru_cache(maxsize=8192)
def str_wrongtype():
    return st.sampled_from([None, 0, 65, 1.0, ["a"], ("a",), [], {}]).map(enc)


@functools.lru_cache(maxsize=8192)
def str_dc():
    return st.sampled_from([b"a", b"", bytearray(b"a")]).map(enc)


@functools.lru_cache(maxsize=8192)
def char_in():
    return st.sampled_from(list(_ASCII) + ["\0"]).map(enc)


@functools.lru_cache(maxsize=8192)
def char_out():
    return st.sampled_from(["ab", "a\0", "\0\0", "abc", "\xe9\xe9"] + _NONASCII).map(enc)


@functools.lru_cache(maxsize=8192)
def char_dc():
    return st.sampled_from(["", b"a", b""]).map(enc)


@functools.lru_cache(maxsize=8192)
def byte_in():
    return st.one_of(int_in("byte"), st.integers(0, 255).map(lambda i: enc(bytes([i]))),
                     st.integers(0, 255).map(lambda i: enc(bytearray([i]))))


@functools.lru_cache(maxsize=8192)
def byte_out():
    return st.one_of(int_out("byte"), st.sampled_from([b"", b"ab", b"\x00\x00", bytearray(b"abc")]).map(enc))


@functools.lru_cache(maxsize=8192)
def byte_wrongtype():
    return st.sampled_from([1.0, 0.5, float("nan"), "a", "", None, [1], (1,), [], {}]).map(enc)


@st.composite
def _struct_in(draw, ref, leaves):
    vals = []
    for _ in range(draw(_SMALL3)):
        p, fi = leaves[draw(_index(len(leaves)))]
        vals.append([p, fi.name, draw(field_in(fi))])
    return {"S": ref, "vals": vals}


@functools.lru_cache(maxsize=8192)
def struct_in(scls: type, depth: int = 0):
    """A fresh instance of scls with a few in-domain leaf assignments."""
    ref = ref_of(scls)
    leaves = leaf_targets(scls, 64)
    if not leaves:
        return st.just({"S": ref, "vals": []})
    return _struct_in(ref, leaves)


@functools.lru_cache(maxsize=8192)
def struct_wrong(scls: type):
    others = [{"fam": n} for n in FAMILY_STRUCTS if FAMILY[n] is not scls] + [{"core": "DATA_SET_INFO"}, {"core": "MDF_EXIT"},
                                                                             {"core": "MDF_FAIL_SUBSCRIBE"}, {"fam": "FAM_EMPTY"}]
    others = [r for r in others if resolve(r) is not scls]
    nf = len(fields_of(scls))
    plain = [(), (0,), tuple([0] * nf), [], {}, None, 0, 1.0, "", "a", b"", bytes(ctypes.sizeof(scls))]
    alts = [st.sampled_from(others).map(lambda r: {"S": r, "vals": []}), st.sampled_from(plain).map(enc)]
    likes = lookalike_refs(scls)
    if likes:  # a DIFFERENT class with the same __name__, field names, offsets and size but other field types
        like = st.tuples(st.sampled_from(likes), _FILL).map(lambda t: {"S": t[0], "vals": [], "fill": t[1]})
        alts += [like, like]
    return st.one_of(alts)


_FILL = st.sampled_from([None, 0x41, 0x7F, 0xFF, 0x01])


@functools.lru_cache(maxsize=8192)
def struct_wrong_ctypes_array(scls: type, n: int):
    """A ctypes array (of the right or a wrong length) whose element type is a look-alike of scls, or another struct."""
    likes = lookalike_refs(scls) + [{"fam": "FS_TWIN"} if scls is not FAMILY["FS_TWIN"] else {"fam": "FS_SMALL"}]
    return st.tuples(st.sampled_from(likes), _FILL).map(lambda t: {"CA": t[0], "n": n, "fill": t[1]})


_SMALL3 = st.integers(0, 3)
_SMALL4 = st.integers(0, 4)
_MODES3 = st.sampled_from(["head", "tail", "cycle"])
_BOOL = st.booleans()


@functools.lru_cache(maxsize=8192)
def _index(n: int):
    return st.integers(0, n - 1)


@st.composite
def _seq_in(draw, fi, length, few, e):
    if length == 0:
        return {"l": []}
    head = draw(few)
    fill = draw(e)
    mode = draw(_MODES3)
    if mode == "cycle":
        vals = [head[i % len(head)] for i in range(length)]
    elif mode == "head":
        vals = (head + [fill] * length)[:length]
    else:
        vals = ([fill] * length + head)[-length:]
    if fi.kind == "bytes" and draw(_SMALL3) == 0:
        raw = bytes(dec(x) for x in vals)
        return enc(raw) if draw(_BOOL) else enc(bytearray(raw))
    return {"u": vals} if draw(_SMALL4) == 0 else {"l": vals}


@functools.lru_cache(maxsize=8192)
def seq_in(fi: FI, length: int):
    """In-domain sequence (encoded list/tuple, or bytes for byte arrays) of `length` elements for array field fi."""
    e = elem_in(fi)
    return _seq_in(fi, length, st.lists(e, min_size=1, max_size=6), e)


@functools.lru_cache(maxsize=8192)
def elem_in(fi: FI):
    k = fi.kind
    if k in ("int", "iarr"):
        return int_in(fi.code)
    if k in ("float", "farr"):
        return float_in(fi.code)
    if k == "bytes":
        return int_in("byte")
    if k == "byte":
        return byte_in()
    if k == "char":
        return char_in()
    if k == "str":
        return str_in(fi.n)
    if k in ("struct", "sarr"):
        return struct_in(fi.scls)
    raise HarnessError(k)


@functools.lru_cache(maxsize=8192)
def field_in(fi: FI):
    """In-domain whole-field value (encoded) for `setattr(container, fi.name, value)`."""
    if fi.kind in ("iarr", "farr", "bytes", "sarr"):
        return seq_in(fi, fi.n)
    return elem_in(fi)


# -- Hypothesis-built classes ------------------------------------------------------------------


@functools.lru_cache(maxsize=8192)
def _field_spec(depth: int):
    alts = [
        st.sampled_from(SCALAR_CODES).map(lambda c: [c]),
        st.sampled_from(SCALAR_CODES).map(lambda c: [c]),
        st.integers(2, 40).map(lambda n: ["str", n]),
        st.integers(2, 20).map(lambda n: ["bytes", n]),
        st.tuples(st.sampled_from(INT_CODES + FLOAT_CODES), st.integers(1, 9)).map(lambda t: ["arr", t[0], t[1]]),
        st.tuples(st.sampled_from(INT_CODES + FLOAT_CODES), st.integers(1, 9)).map(lambda t: ["arr", t[0], t[1]]),
    ]
    if depth > 0:
        alts.append(struct_spec(depth - 1).map(lambda s: ["struct", s]))
        alts.append(st.tuples(struct_spec(depth - 1), st.integers(1, 4)).map(lambda t: ["sarr", t[0], t[1]]))
    return st.one_of(alts)


@functools.lru_cache(maxsize=8192)
def struct_spec(depth: int = 2, min_fields: int = 1, max_fields: int = 6):
    return st.lists(_field_spec(depth), min_size=min_fields, max_size=max_fields).map(
        lambda fs: {"f": [[f"f{i}"] + f for i, f in enumerate(fs)]})


@functools.lru_cache(maxsize=8192)
def forced_field_spec(kinds: frozenset):
    """A field spec whose kind is in `kinds` (so a generated class certainly has a target)."""
    alts = []
    if "int" in kinds:
        alts.append(st.sampled_from(INT_CODES).map(lambda c: [c]))
    if "float" in kinds:
        alts.append(st.sampled_from(FLOAT_CODES).map(lambda c: [c]))
    if "char" in kinds:
        alts.append(st.just(["char"]))
    if "byte" in kinds:
        alts.append(st.just(["byte"]))
    if "str" in kinds:
        alts.append(st.integers(2, 40).map(lambda n: ["str", n]))
    if "bytes" in kinds:
        alts.append(st.integers(2, 20).map(lambda n: ["bytes", n]))
    if "iarr" in kinds:
        alts.append(st.tuples(st.sampled_from(INT_CODES), st.integers(1, 9)).map(lambda t: ["arr", t[0], t[1]]))
    if "farr" in kinds:
        alts.append(st.tuples(st.sampled_from(FLOAT_CODES), st.integers(1, 9)).map(lambda t: ["arr", t[0], t[1]]))
    if "struct" in kinds:
        alts.append(struct_spec(1).map(lambda s: ["struct", s]))
    if "sarr" in kinds:
        alts.append(st.tuples(struct_spec(1), st.integers(1, 4)).map(lambda t: ["sarr", t[0], t[1]]))
    return st.one_of(alts)


@functools.lru_cache(maxsize=8192)
def hyp_class_ref(kinds: Optional[frozenset] = None, md: bool = True):
    """Reference to a Hypothesis-built message class; with `kinds`, one that has a field of such a kind."""
    base = struct_spec(2, 0 if kinds else 1, 5)
    if kinds:
        return _forced_class(base, forced_field_spec(kinds), md)
    return base.map(lambda s: {"spec": s, "md": md})


@st.composite
def _forced_class(draw, base, forced_st, md):
    spec = draw(base)
    forced = draw(forced_st)
    fs = [f[1:] for f in spec["f"]]
    fs.insert(draw(_index(len(fs) + 1)), forced)
    return {"spec": {"f": [[f"f{i}"] + f for i, f in enumerate(fs)]}, "md": md}


@functools.lru_cache(maxsize=8192)
def class_ref(kinds: Optional[frozenset] = None):
    """Any class reference (fixed pool or Hypothesis-built); with `kinds`, one with such a field somewhere."""
    pool = fixed_refs()
    if kinds:
        pool = [r for r in pool if has_kind(resolve(r), kinds)]
    fam = [r for r in pool if "fam" in r]
    alts = [hyp_class_ref(kinds)]
    if pool:
        alts.append(st.sampled_from(pool))
    if fam:
        alts.append(st.sampled_from(fam))
        alts.append(st.sampled_from(fam))
    return st.one_of(alts)


def pick_target(draw, cls: type, kinds: frozenset):
    """Random walk from cls to a field whose kind is in `kinds`: (path, FI, container class)."""
    path = []
    while True:
        cands = [fi for fi in fields_of(cls)
                 if fi.kind in kinds or (fi.scls is not None and has_kind(fi.scls, kinds))]
        if not cands:
            raise HarnessError(f"{cls.__name__} has no field of kinds {sorted(kinds)}")
        fi = cands[draw(_index(len(cands)))]
        can_descend = fi.scls is not None and has_kind(fi.scls, kinds)
        direct = fi.kind in kinds
        if can_descend and (not direct or draw(_BOOL)):
            if fi.kind == "struct":
                path.append([fi.name])
            else:
                path.append([fi.name, draw(_index(fi.n))])
            cls = fi.scls
            continue
        return path, fi, cls
