"""Engine B generator: message-definition *programs* (closures of YAML files) for pyrtma's compiler.

PUBLIC API (stable; used by checks C04, C11, C12, C13, C15, C16)
=================================================================
Everything below is importable from ``vlib.defgen``.  Nothing in this module imports pyrtma's parser:
the expectation model is built by construction from the documented grammar (DESIGN.md 3.2).

Strategies (Hypothesis, construction not rejection)
    programs(**kw)            -> Program   well-formed closure, 1-6 files in 1-3 directories
        kw: max_files=6, min_files=1, import_coredefs=None|bool, auto_pad=None|bool,
            validate_alignment=None|bool (None = drawn), allow=() opt-in classes (see OPT_IN),
            skeleton=False (True: at least the 5-file tree root->{a,b}, a->c, b->d), rich=False
            (True: more definitions per file), min_messages=1
    layout_programs(**kw)     -> Program   C11 profile: free field sequences (NOT aligned by construction; some
            padded by the "user" completely or with one pad forgotten; sizes next to 65535), 1-2 files,
            import_coredefs False, validate_alignment True, auto_pad drawn; ``program.expect`` says what
            the compiler must do: {"outcome": "ok"|"AlignmentError"|"InvalidMessageSize", "at": name|None};
            the closure ends at the first definition that must be rejected
    name_cover_programs(**kw) -> Program   identifier-length cover: for every length in COVER_NAME_LENGTHS (1, 2, 31, 32, 40,
            45, 46, 47, 48, 63) and two drawn lengths <= 63 a constant, module id, host id, struct, message and signal whose
            names have exactly that length (kw: import_coredefs=False, lengths=..., extra_random=2); plain builder
            build_name_cover_program(ch, **kw); name_of_length(n, used, ch) makes one such identifier
    conflict_programs(**kw)   -> Program   well-formed base + EXACTLY ONE injected conflict
            (``program.conflict`` = {"kind","placement","swap","files","names","expected":[exception class names], ...})
Plain builders (same code, usable without Hypothesis: pass a Chooser)
    build_program(ch, **kw), build_layout_program(ch, **kw), RandomChooser(seed), HypChooser(draw)
    (HypChooser draws uniform integers from base-16 digits - Hypothesis' own integers are size-biased - and routes
    cosmetic choices (identifier spelling, concrete id values, comments, layout of the text) through ``ch.cos``, a
    pseudo-random stream seeded by one drawn integer: ~230 draws per closure instead of ~1700)
    random_program(seed, **kw)  = build_program(RandomChooser(seed), **kw)
Transformations (each returns a NEW Program, the argument is never modified; ``ch`` is a Chooser)
    inject_conflict(program, kind, placement, ch, swap=False, variant=None) -> Program | None
        kinds: CONFLICT_KINDS, placements: PLACEMENTS, all_conflict_cases() -> list of dict(kind, placement, swap, variant)
    edit(program, message_name, kind, ch) -> Program | None      kinds: EDIT_KINDS; applicable_edits(program, name)
        (``result.edited`` = {"kind", "old", "new"}; ``new`` is the message's name after the edit)
    relocate(program, message_name, ch) -> Program | None        (``result.relocated`` = {"name","from","to","new_file"})
    add_noise(program, ch) -> Program                            comments, blank lines, unrelated definitions,
                                                                  import reordering (where it keeps the closure well-formed), section order
Program (JSON-serialisable: to_json()/from_json(); plain data, no Hypothesis needed to replay)
    .files  {relative posix path: YAML text}     .root  relative path of the root file
    .write(dirpath) -> absolute path of the root file (creates directories)
    .options {"auto_pad","validate_alignment","import_coredefs"}   (also attributes .auto_pad ...)
    .compile_kwargs() -> the three options as keyword arguments of Parser(...) / compile(...)
    .shape  graph shape class ("single","chain","tree","diamond","dag","repeat","respell","cycle","twins")
    .twin_files  shape "twins" (>= 5 files): the same relative import spelling (x.yaml / ./x.yaml / ../lib/x.yaml) denotes
            DIFFERENT files in different directories (classes "twins", "twins/plain|dot|dotdot"), optionally a user file
            named data_logger.yaml / quick_logger.yaml like a file the core definitions import ("twins/core-shadow"); twin_files
            lists those files; inject_conflict(..., files=(A, B)) puts the two items into given files
    .classes  set of construct-class strings used (see CLASS NAMES below)   .wellformed  bool
    generated_name_collisions(program) -> [(bare name, kind, generated-for name, its kind)]: constants / string constants / aliases /
            host ids / structs called MT_<X>, MDF_<X>, HASH_<X> (X a message, signal or reserved id), MID_<X> (module) or HID_<X> (host);
            the compiler refuses such closures (DuplicateNameError); programs() never produces them (problems() lists them), the
            prefix-name generator keeps the remainder <X> away from the generating kinds; inject_conflict kinds
            "generated-name/<MT|MDF|HASH|MID|HID>-<constant|string|alias|host|struct>" and "generated-name/user-core" create them
    .conflict / .expect / .edited / .relocated   (None unless produced by the respective function)
    .expected_error  None, or the exception class name an intentionally ill-formed program must be rejected with
    .specs  list of FileSpec (the structured model the text is rendered from)
    .file_order  files in the order the parser reads their *bodies* (imports depth-first first)
    .defs  every definition (Def) in parser processing order     .by_name(name) -> Def
    .of_kind("message","signal",...) -> [Def]      .messages() -> message+signal Defs (no reserved)
    .user_fields(name) -> [FieldSpec]  the user's ordered field list (through ``fields: OTHER`` reuse)
    .resolve_type(type_name) -> TypeRef(kind "native"|"struct"|"message", name, via=[alias names])
    .expected_registry() -> {"constants":{name:value}, "string_constants":{name:text}, "aliases":{name:target},
          "host_ids":{name:id}, "module_ids":{name:id}, "struct_defs":[names], "message_defs":{name:id}}
          (message_defs includes signals and one ``_RESERVED_<id:06d>`` entry per reserved id; user files only)
    .import_paths(file) -> number of distinct import paths from the root to ``file``
Def   kind in {"constant","string","alias","host","module","struct","message","signal","reserved"}
      name, file, value (constant value / string text / alias target / host or module id), text (constant's
      YAML text), id (message/signal id), fields [FieldSpec] or None, reuse (name of OTHER) or None,
      entries (reserved: [[text_or_int, [ids...]], ...]), flags [class strings of this definition]
FieldSpec  name, type_text (exactly the YAML value), base (type name as written), length (int|None),
      length_text (str|None)
Layout model (independent of the parser)
    natural_layout(program, name) -> Layout(name, size, align, fields=[LField(name, base, length, offset,
          size, align, elem_size)], packed_size, own_padding, needs_padding (recursive))
    emitted_fields(program, name) -> [(name, type_name, length|None)] the field list the compiler must emit
          under auto_pad (user fields + ``padding_<n>_`` char fields exactly where natural layout has gaps)
    type_size_align(program, type_name) -> (size, align) natural
Drivers (the only functions that touch pyrtma; lazy imports)
    quiet()                   silence parser logging / compile() prints / rich hook; replaces the NAME
                              pyrtma.compilers.python.subprocess by a no-op shim (black); call once per process
    parse_program(program, dirpath=None, keep=False) -> ParseOutcome(outcome "ok"|exception class name, parser, exc, root)
                              writes the closure (fresh /dev/shm scratch dir unless dirpath) and runs Parser(**options).parse
    scratch_dir(prefix)       fresh scratch directory (caller removes it)
    ShrinkBudget(seconds)     sb.wrap(strategy) / sb.body(fn): caps Hypothesis' minimisation effort after the first Violation
                              (generation of a closure costs ~10 ms, an unbounded shrink phase takes minutes)
Constants
    NATIVES {name: size} (the 26 names common to all back ends), NATIVE_KIND {name: "char"|"int"|"uint"|"float"},
    LENGTHS, RESERVED_FIELD_NAMES, OPT_IN, core_defs() (names/ids of the shipped core definitions, read from the YAML)

CLASS NAMES (program.classes / Def.flags)
    graph: single chain tree diamond dag repeat respell cycle self-import multi-path multi-dir root-in-subdir
    constants: const-int const-float const-expr const-expr-imported const-hex string-const string-special
    aliases: alias-native alias-of-alias alias-of-imported-alias alias-of-imported-struct
    ids: host-id module-id module-id-200plus
    structs/messages: struct message signal reserved-int reserved-range-dash reserved-range-to reserved-block-list
        reuse reuse-cross-file array-literal expr-length length-1 struct-array alias-field nested-depth-<n>
        cross-file-struct-field cross-file-message-field message-in-message struct-contains-message
        alias-of-imported-struct-field explicit-padding needs-padding zero-length prefix-names big
Faulty closures for parse histories (C12): inject_fault(program, kind, ch, where=None) with kind in FAULT_KINDS
    ("missing-import", "no-id", "no-fields", "signal-as-field-type"); expected_error = FAULT_ERRORS[kind] (not a ParserError)
FileSpec.compiler_options {"AUTO_PAD"|"VALIDATE_ALIGNMENT"|"IMPORT_COREDEFS": bool} is rendered as a ``compiler_options:`` section
DEFAULT-ON since round 5: directory name ``core_defs`` among the drawn directories (class "dir-core_defs") and as a relocation target
DEFAULT-ON classes added 2026-10-04 (plain documented syntax)
    alias chains: alias-of-alias(-of-alias) ending in an imported struct or a native (classes "alias-chain-to-struct-<n>",
        "alias-chain-to-native-<n>", n = 2..3), used as scalar field type, array element ("alias-chain-field-to-struct/native",
        "struct-array") and as target of further aliases; "alias-of-imported-struct[-field]" are therefore always on
    const-family / family-expr / family-length: constants whose names are prefixes, suffixes or infixes of one another
        (N, N1, N10, MAX_N, N_MAX, NN, NS ...) used TOGETHER in constant expressions and in array-length expressions, shorter
        name first and longer name first; Def.value / FieldSpec.length carry the word-bounded (correct) result
    div-length: array lengths written with '/' whose value is an exact whole number >= 1 (``A / B`` with A % B == 0, ``A / 2``)
OPT_IN classes (never produced unless listed in ``allow``; each is tied to a known compiler defect)
    "prefix-names" also yields names <table>_<rest> for every output table / prefix of the back ends (TABLE_PREFIXES), half of
        the time together with another definition named <rest> (classes "table-prefix-name", "table-prefix/<P>",
        "table-prefix-name-with-remainder"); build_prefix_cover_program(ch, import_coredefs=False) covers every prefix in one closure
    "long-names": ~20% of the definition names get a drawn length from COVER_NAME_LENGTHS or 1..63 (classes "long-names",
        "name-length-<n>"/"name-length-other").  NOTE: on /repo 3e08c53 the C back end writes '#define MT_<name><value>'
        without a separator for names of >= 48 characters (constants, MT_, MID_, HID_; see scratch/fixes/c-define-long-name.diff)
    "reserved-loose": _RESERVED_ entries in undocumented spellings (LOOSE_RESERVED_SPELLINGS: several ranges in one quoted
        string separated by comma / space / semicolon, "a-b-c", trailing or leading text, a single id as a string, a descending
        range); classes "reserved-loose", "reserved-loose/<spelling>".  Contract: the compiler either honours the entry IN FULL
        (expected_registry() lists every id it names) or rejects the file with RTMASyntaxError - the program stays
        wellformed=True but callers must accept that rejection; inject_conflict / all_conflict_cases use the same spellings
        with expected ["MessageIDError", "RTMASyntaxError"] (conflict["loose_spelling"])
    "signed-char": the native name ``signed char`` (in the parser's table of supported types, in no back end, in no document) as
        scalar / array element / alias target; class "signed-char".  NATIVES / NATIVE_KIND know it (1 byte, "int");
        NATIVE_NAMES and BY_WIDTH stay the 26 common names
    "padding-field-name": ~70% of the programs get (add_padding_field_name(program, ch)) one user field named padding_0_ /
        padding_1_ / padding_2_ like the compiler's automatic padding; classes "padding-field-name[/<name>]"
    "reserved-field-name": ~70% of the programs get (add_reserved_field_name(program, ch, name=None)) one field of one
        message/struct renamed to one of RESERVED_FIELD_NAMES; the compiler must reject it: wellformed False,
        expected_error "RTMASyntaxError", expect {"outcome","at","field"}, classes "reserved-field-name[/<name>]"
    "fractional-length": ~70% of the programs get (add_fractional_length(program, ch, variant=None)) one extra array field
        ``T[A / B]`` in one message, A and B fresh constants of that file; program.classes has "fractional-length" and
        "fractional-length/below-one" (0 < x < 1, e.g. 4/8), ".../zero" (0/8) or ".../truncated" (5/2):
        below-one and zero must be REJECTED: program.wellformed False, program.expected_error == "RTMASyntaxError",
        program.expect == {"outcome": "RTMASyntaxError", "at": <message>}, FieldSpec.length == 0 in the model;
        truncated is ACCEPTED by the reference compiler (int() truncates): wellformed stays True, FieldSpec.length == int(A/B),
        program.expect == {"outcome": "ok", "at": <message>}
    "inexact-div-length": array lengths over whole-number constants with '/' whose quotient is NOT whole and is used further before the
        final truncation (``(X / Y) * Z``, ``X / 2 + X / 2``, ``Z * (X / Y)``, also a lone ``X / Y``); FieldSpec.length is int() of the value
        computed with true division (the documented arithmetic); classes "inexact-div-length" (+ "div-length", "expr-length")
    "rich-operators": constant and array-length expressions with << >> | & ^ ~ // % ** and unary signs (whole numbers >= 1 throughout);
        class "rich-operators".  EXPR_CHARS / eval_expression(text, env) are the model's reading of an expression
    "many-symbols": once per closure 11-16 small constants <STEM>_1 .. <STEM>_k plus one constant whose expression names all of them;
        array lengths that name all of them; class "many-symbols" (problems() then waives its own ten-symbol rule)
    "string-control": string constants with real control characters (line break, tab, carriage return, form feed); class "string-control";
        since round 7 also (class "string-yamlish") texts of several lines whose lines look like YAML to a line-by-line reader (host:port,
        http://..., 12:30, key: value, - item, # text, block / flow indicators, document markers, anchors, tags, leading / trailing blanks)
        and the same look-alikes on one line; build_string_cover_program(import_coredefs=False, part=None, parts=1) is a closure with EVERY
        text of the string vocabulary (plus metadata texts of several lines)
    "cross-namespace-names": add_cross_namespace_names(program, ch, n=None): 1-4 new definitions whose NAME is in use in another
        namespace of the closure or of the imported core definitions (CROSS_NAMESPACE: module id like message / signal / struct / constant /
        string constant / alias / host id; host id like message / signal / module id; message, signal like module id / host id; struct,
        constant, string constant, alias like module id); well-formed; classes "cross-namespace-names", "cross-namespace/<kind>-like-<kind>",
        "cross-namespace/core|user"; build_cross_namespace_cover_program(import_coredefs=True) has every combination
    "backend-literal-names": add_backend_literal_names(program, ch, which=None): a message / signal called MM_ERROR, MM_INFO or DEBUG_TEXT
        (MATLAB_LITERAL_MESSAGES: the MATLAB back end writes those itself) or a struct / alias / message called ``string`` (JS_PSEUDO_TYPES)
        used as a field type; well-formed; classes "backend-literal-names", "backend-literal/matlab-<kind>", "backend-literal/js-<kind>"
    HYGIENE kinds "host-shares-name/<...>" (round 7): a host id that shares its name with a constant / string constant / alias / struct of
        the closure or of the core definitions (the Python module writes all five under their bare name); hygiene_needs_core(kind)
    HYGIENE (not an ``allow`` class): add_hygiene(program, ch, kind=None) -> Program | None appends ONE construct a careful compiler
        refuses and a careless one writes verbatim into its outputs (kinds: HYGIENE_KINDS; HYGIENE_LEGAL_IDENTIFIERS = those whose names are
        identifiers in all four languages); wellformed False, classes "hygiene", "hygiene/<kind>", expect {"outcome": "ok-or-refused",
        "hygiene": kind, "label": construct class for finding keys, "at", "name", "legal_identifiers"}; minimal_program(import_coredefs)
        is the smallest base; hygiene_programs(kinds=None, **kw) is the strategy (programs(**kw) + one drawn kind)
    "alias-of-imported-struct" (F16 emission order)   "alias-of-imported-struct-field" (F15 TypeError in the parser)
    "struct-contains-message" (F16)   "string-special" (F22)   "prefix-names" (F20)
    "zero-length" is still accepted in ``allow`` but generates nothing any more: since the repository's fix for F21
    an array length < 1 is rejected (RTMASyntaxError), so it is not part of any well-formed program.
    (F15, F16, F20, F22 are repaired in /repo as of 2026-10-04; the classes stay opt-in so that callers decide.)
"""
from __future__ import annotations

import copy
import json
import os
import posixpath
import random
import re
from dataclasses import asdict, dataclass, field
from typing import Any, Dict, List, Optional, Sequence, Set, Tuple

# ------------------------------------------------------------------------------------------------
# vocabulary and tables

NATIVES: Dict[str, int] = {
    "char": 1, "unsigned char": 1, "byte": 1, "int": 4, "signed int": 4, "unsigned int": 4, "unsigned": 4,
    "short": 2, "signed short": 2, "unsigned short": 2, "long": 4, "signed long": 4, "unsigned long": 4,
    "long long": 8, "signed long long": 8, "unsigned long long": 8, "float": 4, "double": 8,
    "uint8": 1, "uint16": 2, "uint32": 4, "uint64": 8, "int8": 1, "int16": 2, "int32": 4, "int64": 8,
    # listed in the parser's table of supported types but in no back end and no document: resolvable by the model, drawn
    # only with allow=("signed-char",)
    "signed char": 1,
}
NATIVE_KIND: Dict[str, str] = {
    "char": "char", "unsigned char": "uint", "byte": "uint", "int": "int", "signed int": "int", "unsigned int": "uint",
    "unsigned": "uint", "short": "int", "signed short": "int", "unsigned short": "uint", "long": "int",
    "signed long": "int", "unsigned long": "uint", "long long": "int", "signed long long": "int",
    "unsigned long long": "uint", "float": "float", "double": "float", "uint8": "uint", "uint16": "uint",
    "uint32": "uint", "uint64": "uint", "int8": "int", "int16": "int", "int32": "int", "int64": "int", "signed char": "int",
}
NATIVE_NAMES = [n for n in NATIVES if n != "signed char"]  # the 26 names common to the parser and all back ends
_NATIVE_POOL = NATIVE_NAMES + [n for n in NATIVE_NAMES if re.search(r"\d", n) or n in ("char", "float", "double")]  # sized names twice
BY_WIDTH = {w: [n for n in NATIVE_NAMES if NATIVES[n] == w] for w in (1, 2, 4, 8)}
LENGTHS = [1, 2, 3, 7, 8, 32, 255, 256, 1000]
RESERVED_FIELD_NAMES = ("type_id", "type_name", "type_hash", "type_source", "type_def", "type_size", "hexdump", "to_dict", "to_json", "from_dict",
                        "from_json", "copy", "pretty_print", "from_random", "get_field_raw", "from_buffer", "from_buffer_copy")
OPT_IN = ("alias-of-imported-struct", "alias-of-imported-struct-field", "struct-contains-message", "string-special",
          "prefix-names", "zero-length", "long-names", "fractional-length", "reserved-field-name", "reserved-loose", "signed-char", "padding-field-name",
          "inexact-div-length", "rich-operators", "many-symbols", "string-control", "cross-namespace-names", "backend-literal-names")
COVER_NAME_LENGTHS = [1, 2, 31, 32, 40, 45, 46, 47, 48, 63]
MAX_NAME_LENGTH = 63  # MATLAB's namelengthmax
MAX_SIZE = 65535

# what is left of a constant / array-length expression once every constant name is replaced by its value: numbers (decimal, hex,
# float), parentheses, blanks and the operators Python's arithmetic on numbers knows (+ - * / // % ** << >> | & ^ ~)
EXPR_CHARS = r"[0-9a-fA-FxX.+\-*/() eE<>|&^~%]*"


def eval_expression(text: str, env: Dict[str, Any]):
    """Value of a constant / array-length expression the way the documentation defines it: every constant name is replaced (as
    a whole word) by the text of its value, the rest is arithmetic on numbers.  KeyError for a name that is not in ``env``."""
    expr = text
    for sym in dict.fromkeys(re.findall(r"\b[a-zA-Z_]+\w*\b", text)):
        expr = re.sub(rf"\b{sym}\b", str(env[sym]), expr)
    if not re.fullmatch(EXPR_CHARS, expr):
        raise ValueError(f"unexpected characters in expression {text!r} -> {expr!r}")
    return eval(expr, {"__builtins__": {}}, {})


SECTIONS = ["constants", "string_constants", "aliases", "host_ids", "module_ids", "struct_defs", "message_defs"]
SECTION_OF = {"constant": "constants", "string": "string_constants", "alias": "aliases", "host": "host_ids",
              "module": "module_ids", "struct": "struct_defs", "message": "message_defs", "signal": "message_defs",
              "reserved": "message_defs"}
SHARED_KINDS = ["constant", "string", "alias", "struct", "message"]

_UP = ["JOINT", "ANGLE", "FORCE", "TORQUE", "SENSOR", "CURSOR", "TARGET", "TRIAL", "REWARD", "SPIKE", "ROBOT", "GRIP",
       "STATE", "CONFIG", "SAMPLE", "BUFFER", "FRAME", "PACKET", "STREAM", "EVENT", "STATUS", "COMMAND", "REPLY", "QUERY",
       "MOTOR", "PLANNER", "DECODER", "FILTER", "GAIN", "LIMIT", "COUNT", "INDEX", "OFFSET", "WINDOW", "CHANNEL",
       "ELECTRODE", "STIM", "PULSE", "TIMER", "CLOCK"]
# names of the tables / prefixes the four back ends use for their outputs (MATLAB RTMA.<table>, JS RTMA.<table>, C and Python
# macro / class prefixes): a definition named <table>_<rest> must not be confused with <rest>
TABLE_PREFIXES = ["hash", "HASH", "MT", "MID", "HID", "MDF", "SDF", "typedefs", "defines", "constants", "aliases", "vars", "mex_opcode",
                  "MTN_by_MT", "MDF_by_MT", "MESSAGE_HEADER", "RTMA", "Hash", "mt", "mdf"]
_PREFIX_TRAPS = ["PYRAMID_SOLVER", "SUBMT_DONE", "ORCHID_NODE", "HUMID_SENSOR", "DREAMT_STATE", "AMID_TRIAL", "XMT_FRAME"]
_LOW = ["pos", "vel", "acc", "force", "torque", "angle", "gain", "count", "index", "value", "flag", "mode", "state",
        "status", "code", "sample", "chan", "rate", "level", "width", "height", "depth", "phase", "freq", "amp", "bias",
        "scale", "seq", "stamp", "ticks", "err", "cmd", "ref", "raw"]
_SUFFIX = ["x", "y", "z", "a", "b", "k", "n", "lo", "hi", "in", "out", "1", "2", "3"]
_COMMENT_WORDS = ["units in mm", "see spec", "do not change", "legacy", "TODO: check", "key:value pairs", "a:b", "50%",
                  "id: 9999", "fields: null", "range 0-100", "# nested", "int32[4]", "temporary"]
_STRING_WORDS = ["hello world", "rig_A", "v1", "left", "right", "calibration", "subject 7", "alpha-beta", "OK", "x"]
_STRING_SPECIAL = ['say "hi"', "back\\slash", "it's", "tab\\t", 'q"', "a # b", "50% done", "{curly}"]
# real control characters (line break, tab, carriage return, form feed): legal content of a string constant
_STRING_CONTROL = ["line1\nline2", "ends with a line break\n", "\nstarts with one", "col1\tcol2", "dos\r\nline", "two\n\nbreaks", 'q"\n"q', "50%\n\\n", "page\x0cbreak", "\t"]
# texts of several lines whose lines look like YAML to a reader that goes through the file line by line (a colon glued to what follows:
# host:port, a URL, a time, a drive letter; "key: value", "- item", "# comment", block / flow indicators, document markers, anchors, tags)
# and leading / trailing blanks; at most 64 characters (the JavaScript extractor compares the first 64)
_STRING_YAMLISH = ["usage: app [options]\n  --mm localhost:7111   address\n", "see http://host/path\nand C:\\dir", "12:30\n13:45", "maintainer: lab\nrig:2",
                   "key: value\nother: 1", "- item one\n- item two", "# not a comment\nline # two", "  leading blanks\n  kept", "trailing blanks  \nkept  ",
                   "|\nblock", ">\nfolded", "%TAG\n---\n...", "{a: 1}\n[b]", "*anchor\n&ref", "? q\n: a", "!tag\nx:y", "null\ntrue", "colon at end:\nnext",
                   "a\n #b:c", "tab\there:glued\nx", "a\r\nb:c", "\x0cpage:1\n", "'single'\n\"double\":1", "\n:", "x:\n\n  y:z\n"]
# the same look-alikes on ONE line (a plain or quoted scalar for the writer), and blanks at the ends
_STRING_ONELINE = ["localhost:7111", "a:b", "key: value", " lead", "trail ", ":", ": ", " :", "colon at end:", "#", " # ", "a #b", "- item", "~", "yes", "1e3",
                   "0x10", "{a: 1}", "[b]", "*anchor", "&ref", "!tag", "|", ">", "%TAG", "---", "? q", "@at", "`tick`", "http://host:80/p?q=1#frag"]
_DIRS = ["", "common", "shared", "proj", "core_defs"]  # a user directory may well be called like the package's own one
_FILEWORDS = ["base", "types", "hardware", "task", "decoder", "stim", "extra", "units", "robot", "logging"]


def name_of_length(n: int, used: Set[str], ch: "Chooser") -> str:
    """A fresh upper-case identifier of exactly ``n`` characters (1 <= n <= 63), legal in Python, C, JavaScript and
    MATLAB, not in ``used`` (which is updated)."""
    if not 1 <= n <= MAX_NAME_LENGTH:
        raise ValueError(n)
    letters = "QXZKJVWYGB"
    if n <= 2:
        cands = [a for a in letters] if n == 1 else [a + b for a in letters for b in letters + "23456789"]
        cands = [c for c in cands if c not in used] or [c for c in ("ABCDEFGHLMNOPRSTU" if n == 1 else [x + y for x in "ABCDEFGH" for y in "ABCDEFGH"]) if c not in used]
        name = cands[ch.integer(0, len(cands) - 1)]
        used.add(name)
        return name
    parts, total = [], 0
    while total < n + 1:
        w = ch.choice(_UP)
        parts.append(w)
        total += len(w) + 1
    name = "_".join(parts)[:n]
    if name.endswith("_"):
        name = name[:-1] + "X"
    k = 0
    while name in used:
        k += 1
        tail = f"{k:X}"
        name = name[: n - len(tail)] + tail
    used.add(name)
    return name


# ------------------------------------------------------------------------------------------------
# choosers: one generator code path for Hypothesis and for plain pseudo-random / enumerated use


class Chooser:
    """Source of choices.  Subclasses implement integer(lo, hi) (inclusive).

    ``cos`` is the chooser for *cosmetic* choices (identifier spelling, concrete id values, comment texts, blank lines,
    indentation, quoting): for Hypothesis it is a pseudo-random stream seeded by ONE drawn integer, so a closure costs a
    few hundred Hypothesis draws instead of ~1700 (40 us each) while every choice remains a function of drawn data."""

    @property
    def cos(self) -> "Chooser":
        return self

    def integer(self, lo: int, hi: int) -> int:  # pragma: no cover
        raise NotImplementedError

    def choice(self, seq: Sequence):
        seq = list(seq)
        if not seq:
            raise IndexError("choice from an empty sequence")
        return seq[self.integer(0, len(seq) - 1)]

    def chance(self, p: float) -> bool:
        """True with probability ~p; the minimal (shrunk) answer is False."""
        if p <= 0:
            return False
        if p >= 1:
            return True
        return self.integer(0, 999) >= int(round(1000 * (1 - p)))

    def weighted(self, pairs: Sequence[Tuple[Any, int]]):
        pairs = [(v, w) for v, w in pairs if w > 0]
        total = sum(w for _, w in pairs)
        r = self.integer(0, total - 1)
        for v, w in pairs:
            if r < w:
                return v
            r -= w
        return pairs[-1][0]

    def subset(self, seq: Sequence, p: float = 0.5) -> list:
        return [x for x in seq if self.chance(p)]

    def shuffled(self, seq: Sequence) -> list:
        seq = list(seq)
        out = []
        while seq:
            out.append(seq.pop(self.integer(0, len(seq) - 1)))
        return out


class RandomChooser(Chooser):
    def __init__(self, seed):
        self.rnd = seed if isinstance(seed, random.Random) else random.Random(seed)

    def integer(self, lo, hi):
        return self.rnd.randint(lo, hi)


class HypChooser(Chooser):
    def __init__(self, draw):
        from hypothesis import strategies as st

        self._draw = draw
        self._st = st
        self._cos = None

    @property
    def cos(self) -> "Chooser":
        if self._cos is None:
            self._cos = RandomChooser(self.integer(0, 0xFFFFFF))
        return self._cos

    def chance(self, p: float) -> bool:
        """One draw: p is rounded to sixteenths (at least 1/16 when p > 0); minimal answer False."""
        if p <= 0:
            return False
        if p >= 1:
            return True
        k = min(15, max(1, int(round(p * 16))))
        return self._small(16) >= 16 - k

    _cache: Dict[int, Any] = {}

    def _small(self, n: int) -> int:
        s = self._cache.get(n)
        if s is None:
            s = self._cache[n] = self._st.sampled_from(range(n))
        return self._draw(s)

    def integer(self, lo, hi):
        """Uniform on lo..hi, shrinking towards lo.  Hypothesis' own integer draws are size-biased towards small
        magnitudes (measured with 6.168: integers(0, 19) < 10 in 68% of the draws, sampled_from(range(1000)) < 300 in
        51%), which starves every low-probability generator class; draws over at most 16 values are uniform, so
        larger ranges are composed from base-16 digits."""
        if lo == hi:
            return lo
        n = hi - lo + 1
        if n <= 16:
            return lo + self._small(n)
        k, cap = 1, 16
        while cap < n:
            k, cap = k + 1, cap * 16
        v = 0
        for _ in range(3):
            v = 0
            for _d in range(k):
                v = v * 16 + self._small(16)
            if v < cap - cap % n:
                break
        return lo + v % n


class FirstChooser(Chooser):
    """Always the minimal choice (deterministic skeletons for the enumerated tables)."""

    def integer(self, lo, hi):
        return lo


# ------------------------------------------------------------------------------------------------
# the shipped core definitions (names and ids that are occupied when import_coredefs is on)

_CORE = None


def core_defs() -> Dict[str, Any]:
    """Names and ids of core_defs.yaml (+ data_logger.yaml, quick_logger.yaml), read with a plain YAML load."""
    global _CORE
    if _CORE is None:
        from ruamel.yaml import YAML
        import pyrtma

        d = os.path.join(os.path.dirname(os.path.realpath(pyrtma.__file__)), "core_defs")
        out = {"constants": {}, "string_constants": {}, "aliases": {}, "host_ids": {}, "module_ids": {}, "struct_defs": [],
               "message_defs": {}}
        for fn in ("core_defs.yaml", "data_logger.yaml", "quick_logger.yaml"):
            with open(os.path.join(d, fn)) as f:
                data = YAML(typ="safe").load(f.read())
            for sec in ("constants", "string_constants", "aliases", "host_ids", "module_ids"):
                out[sec].update(data.get(sec) or {})
            out["struct_defs"] += list(data.get("struct_defs") or {})
            for n, m in (data.get("message_defs") or {}).items():
                if n != "_RESERVED_":
                    out["message_defs"][n] = m.get("id")
        out["names"] = set(out["constants"]) | set(out["string_constants"]) | set(out["aliases"]) | set(out["struct_defs"]) | set(out["message_defs"])
        _CORE = out
    return _CORE


# ------------------------------------------------------------------------------------------------
# model


@dataclass
class FieldSpec:
    name: str
    type_text: str
    base: str
    length: Optional[int] = None
    length_text: Optional[str] = None
    comment: str = ""
    sep: str = ": "


@dataclass
class Def:
    kind: str
    name: str
    file: str
    value: Any = None
    text: Optional[str] = None
    id: Optional[int] = None
    fields: Optional[List[FieldSpec]] = None
    reuse: Optional[str] = None
    entries: Optional[List[list]] = None
    flags: List[str] = field(default_factory=list)
    pre: List[str] = field(default_factory=list)
    post: str = ""
    style: Dict[str, Any] = field(default_factory=dict)

    @property
    def section(self) -> str:
        return SECTION_OF[self.kind]

    def reserved_ids(self) -> List[int]:
        return [i for _, ids in (self.entries or []) for i in ids]


@dataclass
class FileSpec:
    path: str
    imports: List[List[str]] = field(default_factory=list)  # [spelling, target path]
    defs: List[Def] = field(default_factory=list)
    indent: int = 2
    section_order: List[str] = field(default_factory=lambda: ["imports"] + SECTIONS)
    null_sections: List[str] = field(default_factory=list)
    header: List[str] = field(default_factory=list)
    import_comments: Dict[str, str] = field(default_factory=dict)
    compiler_options: Dict[str, Any] = field(default_factory=dict)  # rendered as a ``compiler_options:`` section (root file; CLI only)


@dataclass
class TypeRef:
    kind: str  # native | struct | message
    name: str
    via: List[str] = field(default_factory=list)


@dataclass
class LField:
    name: str
    base: str
    length: Optional[int]
    offset: int
    size: int
    align: int
    elem_size: int


@dataclass
class Layout:
    name: str
    size: int
    align: int
    fields: List[LField]
    packed_size: int
    own_padding: int
    needs_padding: bool


class GeneratorBug(Exception):
    """The generator (or a transformation) produced a program that violates its own rules."""


def _def_from_json(d: dict) -> Def:
    d = dict(d)
    if d.get("fields") is not None:
        d["fields"] = [FieldSpec(**f) for f in d["fields"]]
    return Def(**d)


def _spec_from_json(d: dict) -> FileSpec:
    d = dict(d)
    d["defs"] = [_def_from_json(x) for x in d["defs"]]
    return FileSpec(**d)


class Program:
    def __init__(self, specs: List[FileSpec], root: str, options: Dict[str, bool], shape: str = "single",
                 classes: Optional[Set[str]] = None, wellformed: bool = True, conflict=None, expect=None,
                 files: Optional[Dict[str, str]] = None, edited=None, relocated=None):
        self.specs = specs
        self.root = root
        self.options = dict(options)
        self.shape = shape
        self.classes = set(classes or ())
        self.wellformed = wellformed
        self.conflict = conflict
        self.expect = expect
        self.edited = edited
        self.relocated = relocated
        self.noise = None
        self.expected_error: Optional[str] = None  # exception class name an ill-formed program must be rejected with
        self.fault: Optional[dict] = None
        self.twin_files: List[str] = []  # shape "twins": files reached under a relative spelling that also denotes another file
        self._files = files
        self._an = None

    # ---- options ---------------------------------------------------------------------------------
    @property
    def auto_pad(self):
        return self.options["auto_pad"]

    @property
    def validate_alignment(self):
        return self.options["validate_alignment"]

    @property
    def import_coredefs(self):
        return self.options["import_coredefs"]

    def compile_kwargs(self):
        return dict(auto_pad=self.auto_pad, validate_alignment=self.validate_alignment, import_coredefs=self.import_coredefs)

    # ---- text ------------------------------------------------------------------------------------
    @property
    def files(self) -> Dict[str, str]:
        if self._files is None:
            self._files = {s.path: render_file(s) for s in self.specs}
        return self._files

    def rerender(self):
        self._files = None
        self._an = None
        return self

    def write(self, dirpath: str) -> str:
        for rel, text in self.files.items():
            p = os.path.join(dirpath, *rel.split("/"))
            os.makedirs(os.path.dirname(p), exist_ok=True)
            with open(p, "w") as f:
                f.write(text)
        return os.path.join(dirpath, *self.root.split("/"))

    # ---- json ------------------------------------------------------------------------------------
    def to_json(self) -> dict:
        return {
            "root": self.root, "options": self.options, "shape": self.shape, "classes": sorted(self.classes),
            "wellformed": self.wellformed, "conflict": self.conflict, "expect": self.expect, "edited": self.edited,
            "relocated": self.relocated, "noise": self.noise, "expected_error": self.expected_error, "fault": self.fault, "twin_files": self.twin_files, "files": dict(self.files), "specs": [asdict(s) for s in self.specs],
        }

    @classmethod
    def from_json(cls, d: dict) -> "Program":
        p = cls([_spec_from_json(s) for s in d["specs"]], d["root"], d["options"], d.get("shape", "single"),
                set(d.get("classes", ())), d.get("wellformed", True), d.get("conflict"), d.get("expect"),
                files=dict(d["files"]) if d.get("files") else None, edited=d.get("edited"), relocated=d.get("relocated"))
        p.noise = d.get("noise")
        p.expected_error = d.get("expected_error")
        p.fault = d.get("fault")
        p.twin_files = d.get("twin_files") or []
        return p

    def clone(self) -> "Program":
        q = Program(copy.deepcopy(self.specs), self.root, self.options, self.shape, set(self.classes), self.wellformed,
                    copy.deepcopy(self.conflict), copy.deepcopy(self.expect), None, copy.deepcopy(self.edited),
                    copy.deepcopy(self.relocated))
        q.expected_error = self.expected_error
        q.twin_files = list(self.twin_files)
        return q

    # ---- structure -------------------------------------------------------------------------------
    def spec(self, path: str) -> FileSpec:
        for s in self.specs:
            if s.path == path:
                return s
        raise KeyError(path)

    def _analysis(self):
        if self._an is None:
            self._an = _Analysis(self)
        return self._an

    @property
    def file_order(self) -> List[str]:
        return self._analysis().order

    @property
    def defs(self) -> List[Def]:
        return self._analysis().defs

    def by_name(self, name: str) -> Def:
        return self._analysis().index[name]

    def has(self, name: str) -> bool:
        return name in self._analysis().index

    def of_kind(self, *kinds) -> List[Def]:
        return [d for d in self.defs if d.kind in kinds]

    def messages(self) -> List[Def]:
        return self.of_kind("message", "signal")

    def closure(self, path: str) -> Set[str]:
        return self._analysis().closure[path]

    def import_paths(self, path: str) -> int:
        return self._analysis().npaths.get(path, 0)

    def user_fields(self, name: str) -> List[FieldSpec]:
        d = self.by_name(name)
        seen = set()
        while d.reuse is not None:
            if d.name in seen:
                raise GeneratorBug(f"reuse cycle at {name}")
            seen.add(d.name)
            d = self.by_name(d.reuse)
        return list(d.fields or [])

    def resolve_type(self, type_name: str) -> TypeRef:
        via = []
        t = type_name
        for _ in range(32):
            if t in NATIVES:
                return TypeRef("native", t, via)
            d = self._analysis().index.get(t)
            if d is None:
                raise KeyError(f"unknown type {type_name!r} (at {t!r})")
            if d.kind == "alias":
                via.append(t)
                t = d.value
                continue
            if d.kind == "struct":
                return TypeRef("struct", t, via)
            if d.kind == "message":
                return TypeRef("message", t, via)
            raise KeyError(f"{type_name!r} resolves to a {d.kind}")
        raise GeneratorBug(f"alias chain too long at {type_name}")

    def constants(self) -> Dict[str, Any]:
        return {d.name: d.value for d in self.defs if d.kind == "constant"}

    def expected_registry(self) -> Dict[str, Any]:
        reg = {"constants": {}, "string_constants": {}, "aliases": {}, "host_ids": {}, "module_ids": {}, "struct_defs": [],
               "message_defs": {}}
        for d in self.defs:
            if d.kind == "constant":
                reg["constants"][d.name] = d.value
            elif d.kind == "string":
                reg["string_constants"][d.name] = d.value
            elif d.kind == "alias":
                reg["aliases"][d.name] = d.value
            elif d.kind == "host":
                reg["host_ids"][d.name] = d.value
            elif d.kind == "module":
                reg["module_ids"][d.name] = d.value
            elif d.kind == "struct":
                reg["struct_defs"].append(d.name)
            elif d.kind in ("message", "signal"):
                reg["message_defs"][d.name] = d.id
            elif d.kind == "reserved":
                for i in d.reserved_ids():
                    reg["message_defs"][f"_RESERVED_{i:06d}"] = i
        return reg

    def problems(self) -> List[str]:
        """Violations of the well-formedness rules found by the independent checker (empty = well-formed)."""
        return self._analysis().problems

    def describe(self) -> str:
        return f"<Program {self.shape} files={len(self.specs)} defs={len(self.defs)} opts={self.options} classes={sorted(self.classes)}>"


# ------------------------------------------------------------------------------------------------
# analysis: parse order, visibility, independent well-formedness check, layout


def _norm(importer: str, spelling: str) -> str:
    return posixpath.normpath(posixpath.join(posixpath.dirname(importer), spelling))


class _Analysis:
    def __init__(self, p: Program):
        self.p = p
        p._an = self  # the checks below call back into the program
        specs = {s.path: s for s in p.specs}
        self.problems: List[str] = []
        # parse order of file bodies (imports depth-first, a file is marked before its imports are followed)
        order, seen = [], set()

        def visit(f):
            if f in seen:
                return
            seen.add(f)
            if f not in specs:
                self.problems.append(f"import of unknown file {f}")
                return
            for sp, tgt in specs[f].imports:
                if _norm(f, sp) != tgt:
                    self.problems.append(f"{f}: import spelling {sp!r} does not resolve to {tgt}")
                visit(tgt)
            order.append(f)

        visit(p.root)
        self.order = order
        for s in p.specs:
            if s.path not in seen:
                self.problems.append(f"file {s.path} is not reachable from the root")
        # transitive import closure
        self.closure: Dict[str, Set[str]] = {}
        for f in specs:
            out, stack = set(), [t for _, t in specs[f].imports]
            while stack:
                t = stack.pop()
                if t in out or t not in specs:
                    continue
                out.add(t)
                stack += [x for _, x in specs[t].imports]
            self.closure[f] = out
        # number of import paths root -> file over forward edges (edges that are followed or skipped-as-seen,
        # excluding edges back into a file whose body has not been parsed yet, i.e. cycles)
        pos = {f: i for i, f in enumerate(order)}
        npaths = {p.root: 1}
        for f in reversed(order):  # importers come later in body order => reversed = top-down
            for sp, tgt in specs[f].imports:
                if tgt in pos and pos[tgt] < pos[f]:
                    npaths[tgt] = npaths.get(tgt, 0) + npaths.get(f, 0)
        self.npaths = npaths
        # definitions in processing order
        self.defs: List[Def] = []
        for f in order:
            ds = specs[f].defs
            for sec in SECTIONS:
                self.defs += [d for d in ds if d.section == sec]
        self.index: Dict[str, Def] = {}
        for d in self.defs:
            if d.kind in ("host", "module", "reserved"):
                continue
            self.index.setdefault(d.name, d)
        self._layouts: Dict[str, Layout] = {}
        self._check()

    # -- independent well-formedness check -------------------------------------------------------
    def _check(self):
        p = self.p
        pos = {f: i for i, f in enumerate(self.order)}
        core = core_defs() if p.import_coredefs else None
        names: Dict[str, Def] = {}
        hostn, modn = set(), set()
        msg_ids, mod_ids, host_ids = {}, {}, {}
        if core:
            for n, i in core["message_defs"].items():
                msg_ids[i] = n
            for n, i in core["module_ids"].items():
                mod_ids[i] = n
            for n, i in core["host_ids"].items():
                host_ids[i] = n
        done: List[Def] = []
        consts: Dict[str, Any] = dict(core["constants"]) if core else {}
        prob = self.problems.append

        seq = {id(d): i for i, d in enumerate(self.defs)}

        def visible(user: Def, provider: Def) -> bool:
            if provider.file == user.file:
                return seq[id(provider)] < seq[id(user)]
            return provider.file in self.closure[user.file] and pos[provider.file] < pos[user.file]

        def evaluate(user: Def, text: str):
            expr = text
            n = 0
            for sym in dict.fromkeys(re.findall(r"\b[a-zA-Z_]+\w*\b", text)):
                n += 1
                if sym in names and names[sym].kind == "constant" and visible(user, names[sym]):
                    v = names[sym].value
                elif core and sym in core["constants"]:
                    v = core["constants"][sym]
                else:
                    prob(f"{user.name}: expression {text!r} uses {sym} which is not a visible constant")
                    return None
                expr = re.sub(rf"\b{sym}\b", str(v), expr)
            if n > 10 and "many-symbols" not in p.classes:
                prob(f"{user.name}: more than 10 symbols in {text!r}")
            if not re.fullmatch(EXPR_CHARS, expr):
                prob(f"{user.name}: expression {text!r} has unexpected characters")
                return None
            try:
                return eval(expr, {"__builtins__": {}}, {})
            except Exception as e:  # noqa
                prob(f"{user.name}: expression {text!r} does not evaluate: {e}")
                return None

        for d in self.defs:
            if not re.match(r"[A-Za-z]", d.name) and d.kind != "reserved":
                prob(f"{d.name}: name does not start with a letter")
            if d.kind in SHARED_KINDS or d.kind == "signal":
                if d.name in names:
                    prob(f"duplicate name {d.name} ({names[d.name].kind} in {names[d.name].file}, {d.kind} in {d.file})")
                if core and d.name in core["names"]:
                    prob(f"name {d.name} collides with a core definition")
            if d.kind == "constant":
                if isinstance(d.text, str) and re.search(r"[A-Za-z_]", d.text) and not re.fullmatch(r"0[xX][0-9a-fA-F]+", d.text.strip()):
                    v = evaluate(d, d.text)
                    if v is not None and v != d.value:
                        prob(f"constant {d.name}: {d.text!r} evaluates to {v}, model says {d.value}")
            elif d.kind == "alias":
                t = d.value
                if t not in NATIVES:
                    q = names.get(t)
                    if q is None or not visible(d, q):
                        prob(f"alias {d.name}: target {t} not visible")
                    elif q.kind == "alias":
                        pass
                    elif q.kind == "struct":
                        if q.file == d.file:
                            prob(f"alias {d.name}: struct {t} of the same file is not defined yet")
                    else:
                        prob(f"alias {d.name}: target {t} is a {q.kind}")
            elif d.kind == "host":
                if d.name in hostn:
                    prob(f"duplicate host name {d.name}")
                hostn.add(d.name)
                if d.value in host_ids:
                    prob(f"host id {d.value} of {d.name} already used by {host_ids[d.value]}")
                host_ids[d.value] = d.name
                if core and not (1 <= d.value <= 32767):
                    prob(f"host id {d.value} out of range")
            elif d.kind == "module":
                if d.name in modn:
                    prob(f"duplicate module name {d.name}")
                modn.add(d.name)
                if d.value in mod_ids:
                    prob(f"module id {d.value} of {d.name} already used by {mod_ids[d.value]}")
                mod_ids[d.value] = d.name
                if core and (d.value < 10 or 99 < d.value < 200):
                    prob(f"module id {d.value} out of range")
            elif d.kind in ("message", "signal"):
                if not isinstance(d.id, int) or d.id < 0 or d.id > 10000:
                    prob(f"message id {d.id} of {d.name} out of range")
                if d.id in msg_ids:
                    prob(f"message id {d.id} of {d.name} already used by {msg_ids[d.id]}")
                msg_ids[d.id] = d.name
            elif d.kind == "reserved":
                for txt, ids in d.entries:
                    for i in ids:
                        if i < 0 or i > 10000:
                            prob(f"reserved id {i} out of range")
                        if i in msg_ids:
                            prob(f"reserved id {i} already used by {msg_ids[i]}")
                        msg_ids[i] = f"_RESERVED_{i:06d}"
                    if len(ids) > 100:
                        prob(f"reserved range {txt} spans more than 100 ids")
            if d.style.get("omit_id") or d.style.get("omit_fields"):
                prob(f"{d.name}: definition without {'id' if d.style.get('omit_id') else 'fields'}")
            if d.kind in ("struct", "message"):
                if d.reuse is not None:
                    q = names.get(d.reuse)
                    if q is None or q.kind not in ("struct", "message") or not visible(d, q):
                        prob(f"{d.name}: fields: {d.reuse} is not a visible struct/message defined earlier")
                else:
                    if not d.fields:
                        prob(f"{d.name}: no fields")
                    fn = set()
                    for f in d.fields or []:
                        if f.name in fn:
                            prob(f"{d.name}: duplicate field {f.name}")
                        fn.add(f.name)
                        if f.name in RESERVED_FIELD_NAMES:
                            prob(f"{d.name}.{f.name}: reserved field name")
                        m = re.match(r"\s*(?P<t>[\s\w]*)(\[(?P<l>.*)\])?", f.type_text)
                        if m.group("t").strip() != f.base:
                            prob(f"{d.name}.{f.name}: type text {f.type_text!r} does not name {f.base}")
                        if (f.length is None) != (m.group("l") is None):
                            prob(f"{d.name}.{f.name}: length {f.length} vs text {f.type_text!r}")
                        if f.length is not None:
                            v = evaluate(d, m.group("l"))
                            if v is not None and int(v) != f.length:
                                prob(f"{d.name}.{f.name}: length text {m.group('l')!r} = {v}, model says {f.length}")
                            if f.length < 1 and "zero-length" not in p.classes:
                                prob(f"{d.name}.{f.name}: length {f.length}")
                        if f.base not in NATIVES:
                            q = names.get(f.base)
                            if q is None or not visible(d, q):
                                prob(f"{d.name}.{f.name}: type {f.base} not visible")
                            elif q.kind not in ("alias", "struct", "message"):
                                prob(f"{d.name}.{f.name}: type {f.base} is a {q.kind}")
                            elif q is d:
                                prob(f"{d.name}.{f.name}: refers to itself")
            if d.kind not in ("host", "module", "reserved"):
                names.setdefault(d.name, d)
            done.append(d)
        for bare, kind, x, xkind in generated_name_collisions(p):
            prob(f"generated-name collision: {kind} {bare} is the name generated for {xkind} {x}")
        # sizes / alignment (only meaningful when everything above resolved)
        if not self.problems:
            for d in self.defs:
                if d.kind in ("struct", "message"):
                    try:
                        lay = self.layout(d.name)
                    except Exception as e:  # noqa
                        prob(f"{d.name}: layout failed: {e}")
                        continue
                    if p.validate_alignment:
                        if not p.auto_pad and lay.own_padding:
                            prob(f"{d.name}: needs {lay.own_padding} padding bytes but auto_pad is off")
                        if lay.size > MAX_SIZE:
                            prob(f"{d.name}: size {lay.size} > {MAX_SIZE}")
                    elif self.packed(d.name) > MAX_SIZE:
                        prob(f"{d.name}: packed size {self.packed(d.name)} > {MAX_SIZE}")

    # -- layout ----------------------------------------------------------------------------------
    def type_size_align(self, type_name: str) -> Tuple[int, int]:
        r = self.p.resolve_type(type_name)
        if r.kind == "native":
            return NATIVES[r.name], NATIVES[r.name]
        lay = self.layout(r.name)
        return lay.size, lay.align

    def layout(self, name: str) -> Layout:
        if name in self._layouts:
            return self._layouts[name]
        fields = self.p.user_fields(name)
        off, maxal, packed, pad = 0, 1, 0, 0
        out = []
        nested_pad = False
        for f in fields:
            es, al = self.type_size_align(f.base)
            r = self.p.resolve_type(f.base)
            if r.kind != "native" and self.layout(r.name).needs_padding:
                nested_pad = True
            n = f.length if f.length else 1  # a declared length of 0 is treated as a scalar by the compiler (F21)
            gap = (-off) % al
            pad += gap
            off += gap
            out.append(LField(f.name, f.base, f.length, off, es * n, al, es))
            off += es * n
            packed += es * n
            maxal = max(maxal, al)
        tail = (-off) % maxal
        pad += tail
        off += tail
        lay = Layout(name, off, maxal, out, packed, pad, bool(pad) or nested_pad)
        self._layouts[name] = lay
        return lay

    def packed(self, name: str) -> int:
        """Sum of field sizes with no padding at all (what the parser computes with validate_alignment off)."""
        tot = 0
        for f in self.p.user_fields(name):
            r = self.p.resolve_type(f.base)
            es = NATIVES[r.name] if r.kind == "native" else self.packed(r.name)
            tot += es * (f.length if f.length else 1)
        return tot


# names the back ends GENERATE for a definition: a constant / string constant / alias / host id / struct (all emitted under their
# own name) that bears one of them collides in the outputs (two '#define MT_X' in the C header, the id constant replaced in Python)
GENERATED_PREFIXES = {"MT_": ("message", "signal", "reserved"), "MDF_": ("message", "signal", "reserved"), "HASH_": ("message", "signal", "reserved"),
                      "MID_": ("module",), "HID_": ("host",)}
BARE_NAME_KINDS = ("constant", "string", "alias", "host", "struct")


def generated_name_collisions(program: Program) -> List[Tuple[str, str, str, str]]:
    """[(bare name, its kind, generated-for name, kind of that definition)]: definitions emitted under their own name (constants,
    string constants, aliases, host ids, structs) whose name equals MT_<X> / MDF_<X> / HASH_<X> for a message, signal or reserved
    id X, MID_<X> for a module X or HID_<X> for a host X of the closure (core definitions included when they are imported).
    The compiler must refuse such a closure with DuplicateNameError."""
    gen: Dict[str, Tuple[str, str]] = {}
    core = core_defs() if program.import_coredefs else None
    if core:
        for n in core["message_defs"]:
            for pre in ("MT_", "MDF_", "HASH_"):
                gen[pre + n] = (n, "core message")
        for n in core["module_ids"]:
            gen["MID_" + n] = (n, "core module")
        for n in core["host_ids"]:
            gen["HID_" + n] = (n, "core host")
    for d in program.defs:
        names = [f"_RESERVED_{i:06d}" for i in d.reserved_ids()] if d.kind == "reserved" else [d.name]
        for pre, kinds in GENERATED_PREFIXES.items():
            if d.kind in kinds:
                for n in names:
                    gen.setdefault(pre + n, (n, d.kind))
    out = []
    for d in program.defs:
        if d.kind in BARE_NAME_KINDS and d.name in gen:
            out.append((d.name, d.kind, gen[d.name][0], gen[d.name][1]))
    if core:
        for sec, kind in (("constants", "core constant"), ("aliases", "core alias"), ("host_ids", "core host"), ("struct_defs", "core struct")):
            for n in core[sec]:
                if n in gen and gen[n][1] in ("message", "signal", "module", "host", "reserved"):
                    out.append((n, kind, gen[n][0], gen[n][1]))
    return out


def natural_layout(program: Program, name: str) -> Layout:
    """Natural C layout of the USER's field list of struct/message ``name`` (align-up per field, struct alignment =
    strictest member alignment, size rounded up to it, array stride = element size, recursion through nested
    structs/aliases).  ``needs_padding`` is True when this definition or any nested one has a gap."""
    return program._analysis().layout(name)


def type_size_align(program: Program, type_name: str) -> Tuple[int, int]:
    return program._analysis().type_size_align(type_name)


def emitted_fields(program: Program, name: str) -> List[Tuple[str, str, Optional[int]]]:
    """Field list the compiler must emit with validate_alignment and auto_pad on: user fields in order plus
    ``padding_<n>_`` char fields exactly in the gaps of the natural layout (interior gaps as char[k], also for
    k == 1; a trailing gap of one byte as a scalar char).  ``fields: OTHER`` copies OTHER's emitted list."""
    d = program.by_name(name)
    if d.reuse is not None:
        return emitted_fields(program, d.reuse)
    lay = natural_layout(program, name)
    out, pos, npad = [], 0, 0
    for lf in lay.fields:
        if lf.offset > pos:
            out.append((f"padding_{npad}_", "char", lf.offset - pos))
            npad += 1
        out.append((lf.name, lf.base, lf.length))
        pos = lf.offset + lf.size
    if lay.size > pos:
        k = lay.size - pos
        out.append((f"padding_{npad}_", "char", None if k == 1 else k))
    return out


# ------------------------------------------------------------------------------------------------
# YAML rendering (the harness' own emitter)


def _cmt(text: str) -> str:
    return f"  # {text}" if text else ""


def render_file(s: FileSpec) -> str:
    ind = " " * s.indent
    lines: List[str] = list(s.header)
    if s.compiler_options:
        lines.append("compiler_options:")
        for k, v in s.compiler_options.items():
            lines.append(f"{ind}{k}: {'true' if v is True else 'false' if v is False else v}")
    by_sec: Dict[str, List[Def]] = {sec: [] for sec in SECTIONS}
    for d in s.defs:
        by_sec[d.section].append(d)
    for sec in s.section_order:
        if sec == "imports":
            if s.imports:
                lines.append("imports:")
                for sp, tgt in s.imports:
                    lines.append(f"{ind}- {sp}{_cmt(s.import_comments.get(sp, ''))}")
            elif "imports" in s.null_sections:
                lines.append("imports: null")
            continue
        ds = by_sec[sec]
        if not ds:
            if sec in s.null_sections:
                lines.append(f"{sec}: null")
            continue
        lines.append(f"{sec}:")
        for d in ds:
            lines += d.pre
            lines += _render_def(d, ind)
    return "\n".join(lines) + "\n"


def _render_def(d: Def, ind: str) -> List[str]:
    post = _cmt(d.post)
    if d.kind == "constant":
        return [f"{ind}{d.name}: {d.text}{post}"]
    if d.kind == "string":
        q = d.style.get("quote", '"')
        if re.search(r"[\x00-\x1f\x7f]", d.value):
            q = '"'  # control characters need the escapes of YAML's double-quoted style
        v = d.value.replace("'", "''") if q == "'" else d.value.replace("\\", "\\\\").replace('"', '\\"')
        if q == '"':
            v = re.sub(r"[\x00-\x1f\x7f]", lambda m: {"\n": "\\n", "\t": "\\t", "\r": "\\r"}.get(m.group(), "\\x%02x" % ord(m.group())), v)
        return [f"{ind}{d.name}: {q}{v}{q}{post}"]
    if d.kind == "alias":
        return [f"{ind}{d.name}: {d.value}{post}"]
    if d.kind in ("host", "module"):
        return [f"{ind}{d.name}: {d.text if d.text is not None else d.value}{post}"]
    if d.kind == "struct" and d.style.get("omit_fields"):
        return [f"{ind}{d.name}: {{}}{post}"]
    out = [f"{ind}{d.name}:{post}"]
    i2, i3 = ind * 2, ind * 3
    if d.kind == "reserved":
        if d.style.get("block_list"):
            out.append(f"{i2}id:")
            out += [f"{i3}- {t}" for t, _ in d.entries]
        else:
            out.append(f"{i2}id: [{', '.join(str(t) for t, _ in d.entries)}]")
        return out
    idline = [f"{i2}id: {d.style.get('id_text', d.id)}"] if d.kind in ("message", "signal") and not d.style.get("omit_id") else []
    if d.kind == "signal":
        body = [f"{i2}fields: null"]
    elif d.reuse is not None:
        body = [f"{i2}fields: {d.reuse}"]
    else:
        body = [f"{i2}fields:"]
        for f in d.fields:
            tt = f'"{f.type_text}"' if d.style.get("quote_types") else f.type_text
            body.append(f"{i3}{f.name}{f.sep}{tt}{_cmt(f.comment)}")
    if d.style.get("omit_fields"):
        body = []
        if not idline:
            idline = [f"{i2}id: {d.id}"] if d.kind in ("message", "signal") else [f"{i2}note: missing"]
    if d.style.get("id_last"):
        return out + body + idline
    return out + idline + body


# ------------------------------------------------------------------------------------------------
# import graphs


def _gen_graph(ch: Chooser, n: int, shape: str, skeleton: bool):
    """-> (edges {i: [j,...]} with possible duplicates, classes)"""
    edges: Dict[int, List[int]] = {i: [] for i in range(n)}
    classes = set()
    if skeleton and n >= 5:
        edges[0] += [1, 2]
        edges[1].append(3)
        edges[2].append(4)
        for i in range(5, n):
            edges[ch.integer(0, i - 1)].append(i)
        base = "tree"
    elif shape == "chain" or n <= 2:
        for i in range(n - 1):
            edges[i].append(i + 1)
        base = "chain" if n > 1 else "single"
    elif shape == "dag":
        for j in range(1, n):
            importers = [i for i in range(j) if ch.chance(0.45)] or [ch.integer(0, j - 1)]
            for i in importers:
                edges[i].append(j)
        base = "dag"
    elif shape == "diamond" and n >= 4:
        edges[0] += [1, 2]
        edges[1].append(3)
        edges[2].append(3)
        for i in range(4, n):
            edges[ch.integer(0, i - 1)].append(i)
        base = "diamond"
    else:
        for i in range(1, n):
            edges[ch.integer(0, i - 1)].append(i)
        base = "tree"
    classes.add(base)
    if shape == "diamond" and base != "diamond" and n >= 3:
        # smallest diamond-like sharing: two files import the last one
        last = n - 1
        for i in ch.shuffled(range(n - 1))[:2]:
            if last not in edges[i]:
                edges[i].append(last)
        classes.add("diamond")
    if shape == "repeat" and n >= 2:
        i = ch.choice([k for k in range(n) if edges[k]])
        edges[i].append(ch.choice(edges[i]))
        classes.add("repeat")
    if shape == "cycle" and n >= 2:
        if ch.chance(0.2):
            i = ch.integer(0, n - 1)
            edges[i].append(i)
            classes.add("self-import")
        else:
            j = ch.integer(1, n - 1)
            # an ancestor of j (walk up one or more levels)
            anc = [i for i in range(n) if j in edges[i]]
            a = ch.choice(anc)
            if ch.chance(0.5):
                up = [i for i in range(n) if a in edges[i] and i != j]
                if up:
                    a = ch.choice(up)
            edges[j].append(a)
        classes.add("cycle")
    for i in range(n):
        if ch.chance(0.3):
            edges[i] = ch.shuffled(edges[i])
    return edges, classes


def _spell(ch: Chooser, importer: str, target: str, dirs: List[str], variant: Optional[int] = None) -> str:
    idir = posixpath.dirname(importer)
    plain = posixpath.relpath(target, idir or ".")
    opts = [plain, "./" + plain]
    if idir:
        opts.append("../" + posixpath.basename(idir) + "/" + plain if "/" not in idir else plain)
    else:
        sub = [d for d in dirs if d and "/" not in d]
        if sub:
            opts.append(sub[0] + "/../" + plain)
    opts = list(dict.fromkeys(opts))
    if variant is not None:
        return opts[variant % len(opts)]
    return ch.weighted([(o, 6 if k == 0 else 2) for k, o in enumerate(opts)])


# ------------------------------------------------------------------------------------------------
# the builder


class _Builder:
    def __init__(self, ch: Chooser, opts: Dict[str, bool], allow: Sequence[str], rich: bool):
        self.ch = ch
        self.opts = opts
        # aliases of imported structs (and fields typed by them) are documented syntax and part of the default domain since
        # the repository's fixes for F15/F16; the two names stay valid in ``allow`` for callers that list them
        self.allow = set(allow) | {"alias-of-imported-struct", "alias-of-imported-struct-field"}
        self.chain: Dict[str, int] = {}  # alias name -> length of its alias chain (1 = alias of a native/struct)
        self.pending_names: List[Tuple[str, tuple]] = []  # (name, kinds that must not get it)
        self.rich = rich
        self.names: Set[str] = set(core_defs()["names"]) | set(core_defs()["host_ids"]) | set(core_defs()["module_ids"])
        self.msg_ids: Set[int] = set()
        self.mod_ids: Set[int] = set()
        self.host_ids: Set[int] = set()
        self.classes: Set[str] = set()
        self.defs: Dict[str, Def] = {}  # shared-namespace definitions by name
        self.size: Dict[str, Tuple[int, int, int]] = {}  # struct/message -> (natural size, align, depth)
        self.taint: Dict[str, Set[str]] = {}  # struct/message/alias -> opt-in classes it (transitively) contains
        self.ncomment = 0
        self._hasmsg: Dict[str, bool] = {}
        self.many: List[Def] = []  # class "many-symbols": 11-16 constants that are named together in one expression
        self.many_file: Optional[str] = None

    # ---- names and ids -------------------------------------------------------------------------
    def fresh_name(self, kind: Optional[str] = None) -> str:
        """kind: kind of the definition that gets the name (None = a kind emitted under its own name, the careful case)."""
        ch = self.ch.cos
        bare = kind is None or kind in BARE_NAME_KINDS
        for i, (nm, forbid) in enumerate(self.pending_names):
            if (kind or "constant") not in forbid:
                del self.pending_names[i]
                return nm
        if "prefix-names" in self.allow and ch.chance(0.04):
            for cand in ch.shuffled(_PREFIX_TRAPS):
                if cand not in self.names:
                    self.names.add(cand)
                    self.classes.add("prefix-names")
                    return cand
        if "prefix-names" in self.allow and ch.chance(0.08):
            # <table>_<rest>, half of the time together with another definition named <rest>
            pre = ch.choice(TABLE_PREFIXES)
            rest = ch.choice(_UP) + ("_" + ch.choice(_UP) if ch.chance(0.5) else "")
            cand = f"{pre}_{rest}"
            if cand not in self.names and rest not in self.names:
                self.names.add(cand)
                self.names.add(rest)  # reserved either way: nobody else may become <rest> by accident
                self.classes |= {"prefix-names", "table-prefix-name", f"table-prefix/{pre}"}
                # a definition emitted under its own name (constant, string, alias, host, struct) called MT_X / MDF_X / HASH_X /
                # MID_X / HID_X is a collision when X is a message / module / host: keep X away from those kinds
                forbid = GENERATED_PREFIXES.get(pre + "_", ()) if bare else ()
                forbid = tuple(k for k in forbid if k != "reserved")
                if ch.chance(0.5):
                    self.pending_names.append((rest, forbid))
                    self.classes.add("table-prefix-name-with-remainder")
                return cand
        if "long-names" in self.allow and ch.chance(0.2):
            ln = ch.choice(COVER_NAME_LENGTHS) if ch.chance(0.6) else ch.integer(1, MAX_NAME_LENGTH)
            self.classes.add("long-names")
            self.classes.add(f"name-length-{ln}" if ln in COVER_NAME_LENGTHS else "name-length-other")
            return name_of_length(ln, self.names, ch)
        a = ch.choice(_UP)
        n = a + "_" + ch.choice([w for w in _UP if w != a])
        if ch.chance(0.25):
            n += "_" + str(ch.integer(2, 9))
        base, k = n, 2
        while n in self.names:  # deterministic way out, so that shrunk (all-minimal) choice sequences stay cheap
            n = f"{base}_{k}"
            k += 1
        self.names.add(n)
        return n

    def fresh_field(self, used: Set[str]) -> str:
        ch = self.ch.cos
        n = ch.choice(_LOW)
        if ch.chance(0.5):
            n += "_" + ch.choice(_SUFFIX)
        base, k = n, 2
        while n in used or n in RESERVED_FIELD_NAMES:
            n = f"{base}{k}"
            k += 1
        used.add(n)
        return n

    def fresh_id(self, pool: Set[int], lo: int, hi: int) -> int:
        for _ in range(200):
            i = self.ch.cos.integer(lo, hi)
            if i not in pool:
                pool.add(i)
                return i
        for i in range(lo, hi + 1):
            if i not in pool:
                pool.add(i)
                return i
        raise GeneratorBug("id pool exhausted")

    def comment(self) -> str:
        return self.ch.cos.choice(_COMMENT_WORDS)

    def decorate(self, d: Def):
        ch = self.ch.cos
        if ch.chance(0.12):
            d.pre.append("")
        if ch.chance(0.12):
            d.pre.append(f"  # {self.comment()}")
        if ch.chance(0.1):
            d.post = self.comment()
        return d

    # ---- visibility ------------------------------------------------------------------------------
    def visible_defs(self, vis_files: Set[str], kinds: Sequence[str]) -> List[Def]:
        return [d for d in self.defs.values() if d.kind in kinds and d.file in vis_files]

    # ---- per file --------------------------------------------------------------------------------
    def fill_file(self, spec: FileSpec, vis_files: Set[str], quota: Dict[str, int]):
        ch = self.ch
        path = spec.path
        local: List[Def] = []

        def add(d: Def):
            self.decorate(d)
            local.append(d)
            spec.defs.append(d)
            if d.kind not in ("host", "module", "reserved"):
                self.defs[d.name] = d
            for fl in d.flags:
                self.classes.add(fl)

        # constants ---------------------------------------------------------------------------------
        for _ in range(quota["constant"]):
            ints_imp = [d for d in self.visible_defs(vis_files, ["constant"]) if isinstance(d.value, int) and 1 <= d.value <= 1000]
            ints_loc = [d for d in local if d.kind == "constant" and isinstance(d.value, int) and 1 <= d.value <= 1000]
            kind = ch.weighted([("int", 5), ("expr", 4 if (ints_imp or ints_loc) else 0), ("float", 2), ("hex", 1), ("family", 3),
                                ("many", 2 if "many-symbols" in self.allow and not self.many else 0)])
            if kind == "family":
                for d in self.gen_family(path):
                    add(d)
                continue
            if kind == "many":
                for d in self.gen_many(path):
                    add(d)
                continue
            name = self.fresh_name("constant")
            flags = []
            if kind == "int":
                v = ch.choice(LENGTHS + [4, 16, 64, 100])
                text = str(v)
                flags.append("const-int")
            elif kind == "hex":
                v = ch.choice([8, 16, 32, 255, 256])
                text = hex(v)
                flags.append("const-hex")
            elif kind == "float":
                v = ch.choice([0.5, 2.5, 1.0, 3.25, 100.125, 1e-3])
                text = repr(v)
                flags.append("const-float")
            else:
                src = ch.choice(ints_imp + ints_loc)
                text, v = self.expr_over(src.name, src.value, limit=4000)
                flags.append("const-expr")
                if src.file != path:
                    flags.append("const-expr-imported")
                if ch.chance(0.3) and len(ints_imp + ints_loc) > 1:
                    other = ch.choice([d for d in ints_imp + ints_loc if d is not src])
                    text = f"({text}) + {other.name}" if re.search(r"[<>|&^~%]", text) else f"{text} + {other.name}"  # '+' binds tighter than shifts / bitwise
                    v = v + other.value
            add(Def("constant", name, path, value=v, text=text, flags=flags))
        # string constants ----------------------------------------------------------------------------
        for _ in range(quota["string"]):
            name = self.fresh_name()
            if "string-control" in self.allow and ch.chance(0.45):
                pool = ch.weighted([(_STRING_CONTROL, 3), (_STRING_YAMLISH, 5), (_STRING_ONELINE, 2)])
                fl = ["string-const", "string-control"] + (["string-yamlish"] if pool is not _STRING_CONTROL else [])
                add(Def("string", name, path, value=ch.cos.choice(pool), flags=fl, style={"quote": '"'}))
            elif "string-special" in self.allow and ch.chance(0.3):
                add(Def("string", name, path, value=ch.cos.choice(_STRING_SPECIAL), flags=["string-const", "string-special"],
                        style={"quote": "'"}))
            else:
                add(Def("string", name, path, value=ch.cos.choice(_STRING_WORDS), flags=["string-const"],
                        style={"quote": ch.cos.choice(['"', '"', "'"])}))
        # aliases ---------------------------------------------------------------------------------------
        for _ in range(quota["alias"]):
            name = self.fresh_name()
            al_imp = self.visible_defs(vis_files, ["alias"])
            al_loc = [d for d in local if d.kind == "alias"]
            st_imp = self.visible_defs(vis_files, ["struct"]) if "alias-of-imported-struct" in self.allow else []
            kind = ch.weighted([("native", 5), ("alias", 4 if (al_imp or al_loc) else 0), ("struct", 3 if st_imp else 0)])
            if kind == "native":
                sc = "signed-char" in self.allow and ch.chance(0.12)
                add(Def("alias", name, path, value="signed char" if sc else ch.choice(NATIVE_NAMES), flags=["alias-native"] + (["signed-char"] if sc else [])))
                self.taint[name] = set()
                self.chain[name] = 1
            elif kind == "alias":
                cands = [a for a in al_imp + al_loc if self.chain.get(a.name, 1) < 3]
                to_struct = [a for a in cands if self.alias_size(a.name)[2]]
                tgt = ch.choice(to_struct) if to_struct and ch.chance(0.6) else ch.choice(cands or al_imp + al_loc)
                n = self.chain.get(tgt.name, 1) + 1
                self.chain[name] = n
                fl = ["alias-of-alias"] + (["alias-of-imported-alias"] if tgt.file != path else [])
                fl.append(f"alias-chain-to-struct-{n}" if self.alias_size(tgt.name)[2] else f"alias-chain-to-native-{n}")
                add(Def("alias", name, path, value=tgt.name, flags=fl))
                self.taint[name] = set(self.taint.get(tgt.name, ()))
            else:
                tgt = ch.choice(st_imp)
                add(Def("alias", name, path, value=tgt.name, flags=["alias-of-imported-struct"]))
                self.taint[name] = set(self.taint.get(tgt.name, ())) | {"alias-of-imported-struct-field"}
                self.chain[name] = 1
                prev = name
                while self.chain[prev] < 3 and ch.chance(0.5):  # VERTEX: POINT / CORNER: VERTEX / ...
                    nxt = self.fresh_name()
                    n = self.chain[prev] + 1
                    add(Def("alias", nxt, path, value=prev, flags=["alias-of-alias", f"alias-chain-to-struct-{n}"]))
                    self.taint[nxt] = set(self.taint[prev])
                    self.chain[nxt] = n
                    prev = nxt
        # host / module ids -----------------------------------------------------------------------------
        for _ in range(quota["host"]):
            add(Def("host", self.fresh_name("host"), path, value=self.fresh_id(self.host_ids, 1, 32766), flags=["host-id"]))
        for _ in range(quota["module"]):
            if ch.chance(0.15):
                v = self.fresh_id(self.mod_ids, 201, 400)
                fl = ["module-id", "module-id-200plus"]
            else:
                v = self.fresh_id(self.mod_ids, 10, 99)
                fl = ["module-id"]
            add(Def("module", self.fresh_name("module"), path, value=v, flags=fl))
        # structs ---------------------------------------------------------------------------------------
        for _ in range(quota["struct"]):
            d = self.gen_record("struct", path, vis_files, local)
            if d is not None:
                add(d)
        # messages --------------------------------------------------------------------------------------
        nres = quota.get("reserved", 0)
        kinds = ["message"] * quota["message"] + ["signal"] * quota["signal"] + ["reserved"] * nres
        kinds = ch.shuffled(kinds) if ch.chance(0.7) else kinds
        for k in kinds:
            if k == "signal":
                add(Def("signal", self.fresh_name("signal"), path, id=self.fresh_id(self.msg_ids, 1000, 9999), flags=["signal"],
                        style={"id_last": ch.cos.chance(0.1)}))
            elif k == "reserved":
                add(self.gen_reserved(path))
            else:
                d = self.gen_record("message", path, vis_files, local)
                if d is not None:
                    add(d)

    def gen_family(self, path: str) -> List[Def]:
        """Constants whose names are prefixes / suffixes / infixes of one another (N, N1, N10, MAX_N, N_MAX), plus
        expressions that use two of them together, shorter name first and longer name first.  Substituting a name
        textually instead of word-bounded corrupts those expressions."""
        ch, cs = self.ch, self.ch.cos
        base = None
        for cand in cs.shuffled(["N", "LEN", "CHANS", "NUM", "DIM", "SZ", "CNT", "ROWS"]):
            if cand not in self.names and cs.chance(0.6):
                base = cand
                break
        if base is None:
            base = self.fresh_name()
        self.names.add(base)
        patterns = [base + "1", base + "10", "MAX_" + base, base + "_MAX", base + "_" + base, "N" + base, base + "S"]
        members = [base]
        for nm in cs.shuffled(patterns)[: ch.integer(1, 3)]:
            if nm not in self.names and len(nm) <= MAX_NAME_LENGTH:
                self.names.add(nm)
                members.append(nm)
        values = cs.shuffled([2, 3, 4, 5, 6, 7, 8, 12, 16, 24, 32])
        out = [Def("constant", nm, path, value=values[i], text=str(values[i]), flags=["const-int", "const-family"])
               for i, nm in enumerate(members)]
        if len(out) >= 2:
            for _ in range(ch.integer(1, 2)):
                a, b = cs.shuffled(out)[:2]
                text, v = ch.choice([(f"{a.name} + {b.name}", a.value + b.value), (f"{a.name} * 2 + {b.name}", a.value * 2 + b.value),
                                     (f"{b.name} * {a.name}", a.value * b.value), (f"({a.name} + 1) * {b.name}", (a.value + 1) * b.value),
                                     (f"{a.name} + {b.name} + {a.name}", 2 * a.value + b.value)])
                out.append(Def("constant", self.fresh_name(), path, value=v, text=text, flags=["const-expr", "const-family", "family-expr"]))
        self.classes.add("const-family")
        return out

    def gen_many(self, path: str) -> List[Def]:
        """11-16 small whole-number constants and one constant whose expression names ALL of them (a sum, partly products): an
        expression may name any number of constants.  The members are remembered (self.many) for array lengths of that kind."""
        ch, cs = self.ch, self.ch.cos
        k = ch.integer(11, 16)
        stem = self.fresh_name("constant")
        members = []
        for i in range(1, k + 1):
            nm = f"{stem}_{i}"
            self.names.add(nm)
            v = cs.choice([1, 1, 2, 3, 4, 5])
            members.append(Def("constant", nm, path, value=v, text=str(v), flags=["const-int", "many-symbols"]))
        order = cs.shuffled(members) if cs.chance(0.5) else list(members)
        text, val = order[0].name, order[0].value
        for m in order[1:]:
            if cs.chance(0.2) and val * m.value <= 2000:
                text, val = f"({text}) * {m.name}", val * m.value
            else:
                text, val = f"{text} + {m.name}", val + m.value
        total = Def("constant", self.fresh_name("constant"), path, value=val, text=text, flags=["const-expr", "many-symbols"])
        self.many = members
        self.many_file = path
        self.classes.add("many-symbols")
        return members + [total]

    def gen_reserved(self, path: str) -> Def:
        ch = self.ch
        entries, flags = [], []
        for _ in range(ch.integer(1, 3)):
            how = ch.weighted([("int", 3), ("dash", 3), ("to", 3), ("loose", 3 if "reserved-loose" in self.allow else 0)])
            if how == "loose":
                sp = ch.choice(LOOSE_RESERVED_SPELLINGS)
                for _t in range(50):
                    h = ch.cos.integer(1020, 9980)
                    if not any(i in self.msg_ids for i in range(h - 12, h + 3)):
                        break
                else:
                    continue
                ent = _reserved_entry_loose(sp, h)
                self.msg_ids.update(range(h - 12, h + 3))
                entries.append(ent)
                flags += ["reserved-loose", f"reserved-loose/{sp}"]
                continue
            if how == "int":
                i = self.fresh_id(self.msg_ids, 1000, 9999)
                entries.append([i, [i]])
                flags.append("reserved-int")
                continue
            for _ in range(50):
                a = ch.cos.integer(1000, 9990)
                n = ch.choice([1, 2, 3, 5, 10, 100])
                # often right behind the previous reserved range of the closure (also one of another file): adjacent
                # ranges, each legal on its own, add up to runs of more than 100 consecutive ids
                prev_end = getattr(self, "_last_reserved_end", None)
                if prev_end is not None and prev_end + 1 < 9990 and _ < 3 and ch.cos.chance(0.5):
                    a = prev_end + 1
                ids = list(range(a, min(a + n, 10000)))
                if not any(i in self.msg_ids for i in ids):
                    break
            else:
                continue
            self.msg_ids.update(ids)
            b = ids[-1]
            self._last_reserved_end = b
            if how == "dash":
                text = ch.cos.choice([f"{a} - {b}", f"{a}-{b}", f"{a} -{b}"])
                flags.append("reserved-range-dash")
            else:
                text = f"{a} to {b}"
                flags.append("reserved-range-to")
            entries.append([text, ids])
        if not entries:
            i = self.fresh_id(self.msg_ids, 1000, 9999)
            entries.append([i, [i]])
            flags.append("reserved-int")
        block = ch.cos.chance(0.2)
        if block:
            flags.append("reserved-block-list")
        return Def("reserved", "_RESERVED_", path, entries=entries, flags=sorted(set(flags)), style={"block_list": block})

    def expr_over(self, cname: str, cval: int, limit: int) -> Tuple[str, int]:
        ch = self.ch
        forms = [(cname, cval), (f"{cname} * 2", cval * 2), (f"{cname} + 1", cval + 1), (f"2 * {cname}", 2 * cval),
                 (f"({cname} + 1) * 2", (cval + 1) * 2), (f"({cname})", cval), (f"{cname} * 2 + 1", cval * 2 + 1)]
        if cval > 1:
            forms.append((f"{cname} - 1", cval - 1))
        if cval % 2 == 0 and cval >= 2:
            forms.append((f"{cname} / 2", cval / 2))  # true division: the compiler's value is a float (8.0)
        forms = [f for f in forms if 1 <= f[1] <= limit] or [(cname, cval)]
        if "rich-operators" in self.allow and ch.chance(0.45):
            # every operator Python's arithmetic knows on whole numbers (the compiler evaluates the expanded text as such): shifts,
            # bitwise, floor division, remainder, power, unary signs.  All values stay whole numbers >= 1, printed as plain numbers.
            rich = [(f"{cname} << 1", cval << 1), (f"{cname} >> 1", cval >> 1), (f"{cname} | 1", cval | 1), (f"{cname} & 0xFF", cval & 0xFF),
                    (f"{cname} ^ 1", cval ^ 1), (f"~{cname} & 0xFF", ~cval & 0xFF), (f"{cname} // 2", cval // 2), (f"{cname} % 7 + 1", cval % 7 + 1),
                    (f"{cname} ** 2", cval ** 2), (f"-{cname} + 3 * {cname}", 2 * cval), (f"+{cname}", cval), (f"2 ** 3 + {cname}", 8 + cval),
                    (f"({cname} + 7) // 8 * 8", (cval + 7) // 8 * 8), (f"{cname} * -1 * -1", cval), (f"({cname} | 0x10) >> 2", (cval | 0x10) >> 2),
                    (f"{cname} - -1", cval + 1)]
            if cval <= 10:
                rich += [(f"1 << {cname}", 1 << cval), (f"(1 << {cname}) - 1", (1 << cval) - 1), (f"2 ** {cname}", 2 ** cval)]
            rich = [f for f in rich if 1 <= f[1] <= limit]
            if rich:
                self.classes.add("rich-operators")
                return ch.choice(rich)
        return ch.choice(forms)

    # ---- structs and messages ---------------------------------------------------------------------
    def gen_record(self, kind: str, path: str, vis_files: Set[str], local: List[Def]) -> Optional[Def]:
        ch = self.ch
        name = self.fresh_name(kind)
        natural = self.opts["validate_alignment"]
        aligned = self.opts["validate_alignment"] and not self.opts["auto_pad"]
        st_vis = self.visible_defs(vis_files, ["struct"])
        ms_vis = self.visible_defs(vis_files, ["message"])
        st_loc = [d for d in local if d.kind == "struct"]
        ms_loc = [d for d in local if d.kind == "message"] if kind == "message" else []
        al_all = self.visible_defs(vis_files, ["alias"]) + [d for d in local if d.kind == "alias"]
        consts = [d for d in self.visible_defs(vis_files, ["constant"]) + [d for d in local if d.kind == "constant"]
                  if isinstance(d.value, int) and 1 <= d.value <= 1000]

        def allowed(tn: str, for_struct: bool) -> bool:
            t = self.taint.get(tn, set())
            return all(c in self.allow for c in t)

        style = {"id_last": ch.cos.chance(0.08), "quote_types": ch.cos.chance(0.06)}
        mid = self.fresh_id(self.msg_ids, 1000, 9999) if kind == "message" else None
        if kind == "message" and ch.cos.chance(0.06):
            style["id_text"] = hex(mid)
        # field-list reuse
        reuse_c = [d for d in st_vis + ms_vis + st_loc + ms_loc if allowed(d.name, kind == "struct")]
        if kind == "struct":
            reuse_c = [d for d in reuse_c if d.kind == "struct" or "struct-contains-message" in self.allow or not self.has_message_fields(d.name)]
            reuse_c = [d for d in reuse_c if not (d.kind == "message" and self.has_message_fields(d.name) and "struct-contains-message" not in self.allow)]
        if reuse_c and ch.chance(0.12):
            o = ch.choice(reuse_c)
            fl = [kind, "reuse"] + (["reuse-cross-file"] if o.file != path else [])
            self.size[name] = self.size[o.name]
            self.taint[name] = set(self.taint.get(o.name, ()))
            self._hasmsg[name] = self._hasmsg.get(o.name, False)
            return Def(kind, name, path, id=mid, reuse=o.name, flags=fl, style=style)
        # explicit fields
        nf = ch.weighted([(1, 2), (2, 4), (3, 4), (4, 3), (5, 2), (6, 1), (8, 1)])
        fields: List[FieldSpec] = []
        used: Set[str] = set()
        off, maxal, depth = 0, 1, 1
        flags = {kind}
        taint: Set[str] = set()
        hasmsg = False
        budget = 60000
        for _ in range(nf):
            cats = [("native", 8)]
            al_c = [a for a in al_all if allowed(a.name, kind == "struct")]
            if al_c:
                cats.append(("alias", 3))
            st_c = [s for s in st_vis + st_loc if allowed(s.name, kind == "struct") and self.size[s.name][2] < 3]
            if st_c:
                cats.append(("struct", 3))
            ms_c = [m for m in ms_vis + ms_loc if allowed(m.name, kind == "struct") and self.size[m.name][2] < 3]
            if kind == "struct" and "struct-contains-message" not in self.allow:
                ms_c = []
            if ms_c:
                cats.append(("message", 2))
            cat = ch.weighted(cats)
            fl = set()
            if cat == "native":
                base = "signed char" if "signed-char" in self.allow and ch.chance(0.12) else ch.choice(_NATIVE_POOL)
                if base == "signed char":
                    fl.add("signed-char")
                es = al = NATIVES[base]
            elif cat == "alias":
                chained = [x for x in al_c if self.chain.get(x.name, 1) >= 2]
                a = ch.choice(chained) if chained and ch.chance(0.5) else ch.choice(al_c)
                base = a.name
                es, al, dep = self.alias_size(a.name)
                depth = max(depth, dep + 1 if dep else depth)
                fl.add("alias-field")
                if self.chain.get(a.name, 1) >= 2:
                    fl.add(f"alias-chain-field-to-{'struct' if dep else 'native'}")
                taint |= self.taint.get(a.name, set())
                if "alias-of-imported-struct-field" in self.taint.get(a.name, ()):
                    fl.add("alias-of-imported-struct-field")
            else:
                o = ch.choice(st_c if cat == "struct" else ms_c)
                base = o.name
                es, al, dep = self.size[o.name]
                depth = max(depth, dep + 1)
                taint |= self.taint.get(o.name, set())
                if o.file != path:
                    fl.add("cross-file-struct-field" if cat == "struct" else "cross-file-message-field")
                if cat == "message":
                    hasmsg = True
                    fl.add("message-in-message" if kind == "message" else "struct-contains-message")
                    if kind == "struct":
                        taint.add("struct-contains-message")
                elif self._hasmsg.get(o.name):
                    hasmsg = True
            gap = (-off) % al if natural else 0
            if aligned and gap:
                pn = self.fresh_field(used)
                if gap == 1 and ch.chance(0.5):
                    fields.append(FieldSpec(pn, "char", "char"))
                else:
                    fields.append(FieldSpec(pn, f"char[{gap}]", "char", gap, str(gap)))
                flags.add("explicit-padding")
            elif gap:
                flags.add("needs-padding")
            off += gap
            # scalar or array
            length, ltext = None, None
            if ch.chance(0.4):
                room = (budget - off) // es
                if consts and ch.chance(0.4):
                    fam = [(x, y) for x in consts for y in consts if x is not y and x.name in y.name]
                    div = [(x, y) for x in consts for y in consts if x is not y and y.value > 1 and x.value % y.value == 0]
                    inex = []
                    if "inexact-div-length" in self.allow:
                        # X / Y whose quotient is NOT whole and is used further before the final truncation (the compiler evaluates
                        # with true division and truncates the result once: (12 / 8) * 4 is 6 elements, N / 2 + N / 2 is N for odd N)
                        inex = [(x, y.name, y.value) for x in consts for y in consts if x is not y and 1 < y.value < x.value and x.value % y.value]
                        inex += [(x, str(k), k) for x in consts for k in (2, 4, 8, 3) if x.value > k and x.value % k]
                    many = self.many if self.many and (self.many_file == path or self.many_file in vis_files) else []
                    how = ch.weighted([("one", 6), ("family", 5 if fam else 0), ("div", 3 if div else 0), ("inexact", 5 if inex else 0),
                                       ("many", 6 if many else 0)])
                    if how == "many":
                        ltext = " + ".join(m.name for m in (ch.cos.shuffled(many) if ch.cos.chance(0.5) else many))
                        length = sum(m.value for m in many)
                        fl.add("many-symbols")
                    elif how == "inexact":
                        x, yt, yv = ch.choice(inex[:32])
                        small = [c for c in consts if c.value <= 64 and c is not x] or [x]
                        z = ch.choice(small)
                        ltext = ch.choice([f"({x.name} / {yt}) * {z.name}", f"{x.name} / {yt} * {z.name}", f"{z.name} * ({x.name} / {yt})",
                                           f"{x.name} / {yt} + {x.name} / {yt}", f"({x.name} / {yt}) * 2", f"({x.name} / {yt} + 1) * 2",
                                           f"{x.name} / {yt} * 4 + {z.name}", f"{x.name} / {yt}", f"({x.name} + 1) / {yt} + {z.name}"])
                        length = int(eval_expression(ltext, {c.name: c.value for c in consts}))
                        fl.add("inexact-div-length")
                    elif how == "family":
                        x, y = ch.choice(fam[:16])
                        ltext, length = ch.choice([(f"{x.name} + {y.name}", x.value + y.value), (f"{y.name} + {x.name}", x.value + y.value),
                                                   (f"{y.name} * {x.name}", x.value * y.value), (f"{x.name} * 2 + {y.name}", 2 * x.value + y.value)])
                        fl.add("family-length")
                    elif how == "div":
                        x, y = ch.choice(div[:16])
                        ltext, length = f"{x.name} / {y.name}", x.value // y.value  # exact: the compiler sees e.g. 2.0
                    else:
                        c = ch.choice(consts)
                        ltext, length = self.expr_over(c.name, c.value, limit=max(1, room))
                    length = int(length)
                    if length > room or length < 1:
                        length, ltext = None, None
                        fl.discard("family-length")
                        fl.discard("inexact-div-length")
                        fl.discard("many-symbols")
                    else:
                        fl.add("expr-length")
                        if "/" in ltext:
                            fl.add("div-length")
                else:
                    ok = [L for L in LENGTHS if L <= room]
                    if ok:
                        length = ch.weighted([(L, 1 if L >= 255 else 3) for L in ok])
                        ltext = str(length)
                        fl.add("array-literal")
                if length is not None:
                    if length == 1:
                        fl.add("length-1")
                    if cat in ("struct", "message") or (cat == "alias" and self.alias_size(base)[2]):
                        fl.add("struct-array")
            if off + es * (length or 1) > budget:
                continue
            fname = self.fresh_field(used)
            if length is None:
                tt = base
            else:
                tt = ch.cos.weighted([(f"{base}[{ltext}]", 8), (f"{base}[ {ltext} ]", 1), (f"{base} [{ltext}]", 1)])
            f = FieldSpec(fname, tt, base, length, ltext)
            if ch.cos.chance(0.06):
                f.comment = self.comment()
            if ch.cos.chance(0.04):
                f.sep = ch.cos.choice([":  ", " : "])
            fields.append(f)
            off += es * (length or 1)
            maxal = max(maxal, al)
            flags |= fl
        if not fields:
            fields.append(FieldSpec(self.fresh_field(used), "int32", "int32"))
            off, maxal = 4, 4
            flags.discard("needs-padding")
        tail = (-off) % maxal if natural else 0
        if aligned and tail:
            pn = self.fresh_field(used)
            fields.append(FieldSpec(pn, f"uint8[{tail}]", "uint8", tail, str(tail)))
            flags.add("explicit-padding")
        elif tail:
            flags.add("needs-padding")
        off += tail
        if off > 8000:
            flags.add("big")
        flags.add(f"nested-depth-{depth}")
        self.size[name] = (off, maxal, depth)
        self.taint[name] = taint
        self._hasmsg[name] = hasmsg
        return Def(kind, name, path, id=mid, fields=fields, flags=sorted(flags), style=style)

    def has_message_fields(self, name: str) -> bool:
        return self._hasmsg.get(name, False)

    def alias_size(self, name: str) -> Tuple[int, int, int]:
        """(size, align, depth of the struct behind the alias or 0)"""
        t = name
        for _ in range(32):
            d = self.defs[t]
            if d.kind == "alias":
                t = d.value
                if t in NATIVES:
                    return NATIVES[t], NATIVES[t], 0
                continue
            return self.size[t]
        raise GeneratorBug("alias chain")


def _file_names(ch: Chooser, n: int, ndirs: int) -> Tuple[List[str], List[str]]:
    ch = ch.cos
    dirs = [""]
    pool = ch.shuffled(_DIRS[1:])
    while len(dirs) < ndirs:
        dirs.append(pool.pop())
    if ndirs > 1 and ch.chance(0.3):
        dirs[0] = "top"  # the root is not at the top of the tree either
    if ndirs > 2 and ch.chance(0.3):
        dirs[2] = dirs[1] + "/" + dirs[2]
    words = ch.shuffled(_FILEWORDS)
    paths = []
    for i in range(n):
        d = dirs[0] if i == 0 else ch.choice(dirs)
        base = "root" if i == 0 else words[i - 1]
        if i == 0 and ch.chance(0.3):
            base = ch.choice(["msg_defs", "app", "main"])
        paths.append((d + "/" if d else "") + base + ".yaml")
    return paths, dirs


def build_program(ch: Chooser, max_files: int = 6, min_files: int = 1, import_coredefs: Optional[bool] = None,
                  auto_pad: Optional[bool] = None, validate_alignment: Optional[bool] = None, allow: Sequence[str] = (),
                  skeleton: bool = False, rich: bool = False, min_messages: int = 1, shape: Optional[str] = None) -> Program:
    for a in allow:
        if a not in OPT_IN:
            raise ValueError(f"unknown opt-in class {a!r}")
    opts = {
        "auto_pad": ch.weighted([(True, 3), (False, 1)]) if auto_pad is None else auto_pad,
        "validate_alignment": ch.weighted([(True, 5), (False, 1)]) if validate_alignment is None else validate_alignment,
        "import_coredefs": ch.weighted([(True, 1), (False, 1)]) if import_coredefs is None else import_coredefs,
    }
    if skeleton:
        min_files = max(min_files, 5)
        max_files = max(max_files, 5)
    n = ch.integer(min_files, max_files)
    if shape is None:
        shape = ch.weighted([("tree", 3), ("chain", 2), ("diamond", 3), ("dag", 3), ("repeat", 2), ("respell", 2), ("cycle", 3),
                             ("twins", 3 if max_files >= 5 else 0)])
    twins = shape == "twins"
    if twins:
        n = max(n, 5)
    if n == 1:
        gshape = "single"
    else:
        gshape = shape
    edges, gclasses = _gen_graph(ch, n, "tree" if twins else gshape, skeleton or twins)
    ndirs = ch.integer(1, min(3, n))
    paths, dirs = _file_names(ch, n, ndirs)
    forced_spell: Dict[Tuple[int, int], str] = {}
    if twins:
        # the SAME relative import spelling denotes DIFFERENT files: x.yaml of two directories (files 3 and 4 of the skeleton
        # root->{1,2}, 1->3, 2->4), optionally a user file that shares its name with a file the core definitions import
        gclasses = set(gclasses) | {"twins"}
        cs0 = ch.cos
        da, db = cs0.shuffled(["alpha", "beta", "gamma", "rig_a", "rig_b"])[:2]
        w = cs0.choice(["types", "common", "units", "defs", "shared"])
        w1, w2 = cs0.shuffled(["arm", "hand", "cursor", "stim", "decoder"])[:2]
        variant = ch.choice(["plain", "dot", "dotdot"])
        paths[0] = "root.yaml"
        if variant == "dotdot":
            paths[1:5] = [f"{da}/app/{w1}.yaml", f"{db}/app/{w2}.yaml", f"{da}/lib/{w}.yaml", f"{db}/lib/{w}.yaml"]
            forced_spell[(1, 3)] = forced_spell[(2, 4)] = f"../lib/{w}.yaml"
        else:
            paths[1:5] = [f"{da}/{w1}.yaml", f"{db}/{w2}.yaml", f"{da}/{w}.yaml", f"{db}/{w}.yaml"]
            forced_spell[(1, 3)] = f"{w}.yaml"
            forced_spell[(2, 4)] = f"./{w}.yaml" if variant == "dot" else f"{w}.yaml"
        gclasses.add("twins/" + variant)
        if opts["import_coredefs"] and n >= 6 and ch.chance(0.6):
            # a user's own data_logger.yaml / quick_logger.yaml next to its importer: core_defs.yaml imports files of that name too
            k = 5
            imp = [i for i in range(n) if k in edges[i]][0]
            shadow = cs0.choice(["data_logger.yaml", "quick_logger.yaml"])
            idir = posixpath.dirname(paths[imp])
            paths[k] = (idir + "/" if idir else "") + shadow
            forced_spell[(imp, k)] = shadow
            gclasses.add("twins/core-shadow")
        for k in range(5, n):
            if paths[k] in paths[:k]:
                paths[k] = f"extra_{k}.yaml"
        dirs = sorted({posixpath.dirname(q) for q in paths})
    specs = [FileSpec(path=p) for p in paths]
    classes = set(gclasses)
    if len({posixpath.dirname(p) for p in paths}) > 1:
        classes.add("multi-dir")
    if posixpath.dirname(paths[0]):
        classes.add("root-in-subdir")
    respell = gshape == "respell"
    for i, s in enumerate(specs):
        seen_t: Dict[int, int] = {}
        for j in edges[i]:
            k = seen_t.get(j, 0)
            seen_t[j] = k + 1
            if (i, j) in forced_spell:
                sp = forced_spell[(i, j)]
            elif gshape == "repeat" and k:
                sp = [x for x, t in s.imports if t == paths[j]][0]  # literally the same line again
            elif respell:
                sp = _spell(ch, s.path, paths[j], dirs, variant=ch.integer(0, 2) + k)
            else:
                sp = _spell(ch, s.path, paths[j], dirs, variant=0 if not ch.chance(0.15) else None)
            s.imports.append([sp, paths[j]])
    if respell and n >= 2:
        # make sure one target is really reached under two different spellings
        cands = [(s, t) for s in specs for _, t in s.imports]
        s, t = ch.choice(cands)
        have = {sp for sp, tt in s.imports if tt == t}
        for v in range(3):
            sp = _spell(ch, s.path, t, dirs, variant=v)
            if sp not in have:
                s.imports.append([sp, t])
                classes.add("respell")
                break
    cs = ch.cos
    for s in specs:
        s.indent = cs.choice([2, 4])
        if cs.chance(0.3):
            s.header = [f"# {posixpath.basename(s.path)}"] + ([""] if cs.chance(0.5) else [])
        if cs.chance(0.25):
            s.section_order = cs.shuffled(s.section_order)
        s.null_sections = [sec for sec in ["imports"] + SECTIONS if cs.chance(0.12)]
        for sp, _ in s.imports:
            if cs.chance(0.1):
                s.import_comments[sp] = "MTs 1000-1999"
    # fill the files in the order the parser reads their bodies
    prog = Program(specs, paths[0], opts, gshape, classes)
    an = prog._analysis()
    if twins:
        prog.twin_files = [paths[3], paths[4]] + [q for q in paths[5:] if posixpath.basename(q) in ("data_logger.yaml", "quick_logger.yaml")]
    order = an.order
    b = _Builder(ch, opts, allow, rich)
    pos = {f: i for i, f in enumerate(order)}
    hi = 3 if rich else 2
    for f in order:
        vis = {g for g in an.closure[f] if pos.get(g, 1 << 30) < pos[f]}
        quota = {
            "constant": ch.integer(0, hi), "string": ch.weighted([(0, 3), (1, 2), (2, 1)]), "alias": ch.integer(0, hi),
            "host": ch.weighted([(0, 3), (1, 2), (2, 1)]), "module": ch.weighted([(0, 2), (1, 2), (2, 1)]),
            "struct": ch.integer(0, hi + 1), "message": ch.integer(0, hi + 1), "signal": ch.weighted([(0, 3), (1, 2), (2, 1)]),
            "reserved": ch.weighted([(0, 3), (1, 1)]),
        }
        if f == order[-1]:
            have = sum(1 for d in b.defs.values() if d.kind == "message")
            quota["message"] = max(quota["message"], min_messages - have)
        if f in prog.twin_files:  # something the registry oracle looks for
            quota["constant"] = max(1, quota["constant"])
            quota["signal"] = max(1, quota["signal"])
        b.fill_file(prog.spec(f), vis, quota)
    for s_ in specs:
        if not s_.imports and not s_.defs and not s_.null_sections:
            s_.null_sections = [cs.choice(["imports"] + SECTIONS)]  # a file always has at least one section key
    prog.classes |= b.classes
    prog.rerender()
    an = prog._analysis()
    if any(v > 1 for v in an.npaths.values()):
        prog.classes.add("multi-path")
    probs = prog.problems()
    if probs:
        raise GeneratorBug("generated program is not well-formed: " + "; ".join(probs[:5]) + "\n" + json.dumps(prog.files, indent=1))
    if "cross-namespace-names" in allow and ch.chance(0.8):
        prog = add_cross_namespace_names(prog, ch) or prog
    if "backend-literal-names" in allow and ch.chance(0.8):
        prog = add_backend_literal_names(prog, ch) or prog
    if "fractional-length" in allow and ch.chance(0.7):
        prog = add_fractional_length(prog, ch) or prog
    if "reserved-field-name" in allow and prog.wellformed and ch.chance(0.7):
        prog = add_reserved_field_name(prog, ch) or prog
    if "padding-field-name" in allow and prog.wellformed and ch.chance(0.7):
        prog = add_padding_field_name(prog, ch) or prog
    if any("core_defs" in posixpath.dirname(s_.path).split("/") for s_ in prog.specs):
        prog.classes.add("dir-core_defs")
    return prog


# names are unique per NAMESPACE only: constants, string constants, aliases, structs and messages share one, module ids have their own and
# host ids have their own.  What the closure (or the imported core definitions) calls X in one namespace may be called X in another.
# kind of the new definition -> kinds whose names it may borrow.  A host id next to a constant / string constant / alias / struct of the
# same name is NOT in this table: the Python module writes host ids under their bare name (see HYGIENE kind host-shares-name).
CROSS_NAMESPACE = {
    "module": ("message", "signal", "struct", "constant", "string", "alias", "host"),
    "host": ("message", "signal", "module"),
    "message": ("module", "host"),
    "signal": ("module", "host"),
    "struct": ("module",),
    "constant": ("module",),
    "string": ("module",),
    "alias": ("module",),
}


def _core_names_by_kind() -> Dict[str, List[str]]:
    core = core_defs()
    from ruamel.yaml import YAML
    import pyrtma

    if "by_kind" not in core:
        out: Dict[str, List[str]] = {"constant": sorted(core["constants"]), "string": sorted(core["string_constants"]), "alias": sorted(core["aliases"]),
                                     "struct": sorted(core["struct_defs"]), "module": sorted(core["module_ids"]), "host": sorted(core["host_ids"]),
                                     "message": [], "signal": []}
        d = os.path.join(os.path.dirname(os.path.realpath(pyrtma.__file__)), "core_defs")
        for fn in ("core_defs.yaml", "data_logger.yaml", "quick_logger.yaml"):
            with open(os.path.join(d, fn)) as f:
                data = YAML(typ="safe").load(f.read())
            for n, m in (data.get("message_defs") or {}).items():
                if n != "_RESERVED_":
                    out["message" if m.get("fields") else "signal"].append(n)
        core["by_kind"] = out
    return core["by_kind"]


def _simple_def(kind: str, name: str, path: str, ctx: "_Ctx", ch: Chooser, flags: Sequence[str]) -> Def:
    """A small self-contained definition of ``kind`` called ``name`` (records are aligned without padding)."""
    fl = list(flags)
    if kind == "module":
        return Def("module", name, path, value=ctx.fresh_mod_id(), flags=["module-id"] + fl)
    if kind == "host":
        return Def("host", name, path, value=ctx.fresh_host_id(), flags=["host-id"] + fl)
    if kind == "constant":
        v = ch.cos.choice([3, 5, 12, 40])
        return Def("constant", name, path, value=v, text=str(v), flags=["const-int"] + fl)
    if kind == "string":
        return Def("string", name, path, value=ch.cos.choice(_STRING_WORDS), flags=["string-const"] + fl, style={"quote": '"'})
    if kind == "alias":
        return Def("alias", name, path, value=ch.choice(["int32", "double", "uint8", "int16"]), flags=["alias-native"] + fl)
    if kind == "signal":
        return Def("signal", name, path, id=ctx.fresh_msg_id(), flags=["signal"] + fl)
    fields = ch.choice([
        [FieldSpec("level", "int16", "int16"), FieldSpec("spare", "int16", "int16"), FieldSpec("count", "int32", "int32"), FieldSpec("when", "double", "double")],
        [FieldSpec("a", "int32", "int32"), FieldSpec("b", "int32", "int32")],
        [FieldSpec("when", "double", "double"), FieldSpec("text", "char[16]", "char", 16, "16")],
        [FieldSpec("v", "float[4]", "float", 4, "4")],
    ])
    return Def(kind, name, path, id=ctx.fresh_msg_id() if kind == "message" else None, fields=copy.deepcopy(fields), flags=[kind] + fl)


def add_cross_namespace_names(program: Program, ch: Chooser, n: Optional[int] = None) -> Optional[Program]:
    """Copy of a well-formed program with 1-4 NEW definitions whose names are already in use in ANOTHER namespace of the closure
    (names are unique per namespace: CROSS_NAMESPACE lists the accepted combinations): a module id called like a message, signal,
    struct, constant, string constant, alias or host id; a host id called like a message, signal or module id; a message or signal
    called like a module id or a host id; a struct, constant, string constant or alias called like a module id.  The borrowed name
    belongs to a user definition or - with the core definitions imported, three times out of four - to a CORE definition (module id
    RTMA_LOG / EXIT / MAX_MODULES / DATA_SET / LOCAL_HOST, message QUICK_LOGGER / DATA_LOGGER / MESSAGE_MANAGER / LOCAL_HOST, host id
    TIMING_MESSAGE ...).  A new struct / message / alias is also used as a field type by one further new message.  The program stays
    well-formed (Program.problems() is empty); classes "cross-namespace-names", "cross-namespace/<kind>-like-<other kind>" and
    "cross-namespace/core" | "cross-namespace/user".  None when nothing could be added."""
    q = program.clone()
    ctx = _Ctx(q, ch)
    core = _core_names_by_kind() if q.import_coredefs else {}
    bare = {d.name for d in q.defs if d.kind in SHARED_KINDS or d.kind == "signal"} | (set(core_defs()["names"]) if core else set())
    taken = {"module": {d.name for d in q.defs if d.kind == "module"} | set(core.get("module", ())),
             "host": {d.name for d in q.defs if d.kind == "host"} | set(core.get("host", ()))}
    added: List[Def] = []
    classes: Set[str] = set()
    want = n if n is not None else ch.integer(1, 4)
    for _ in range(want * 4):
        if len(added) >= want:
            break
        kind = ch.weighted([("module", 5), ("host", 3), ("message", 4), ("signal", 2), ("struct", 2), ("constant", 1), ("string", 1), ("alias", 1)])
        use_core = bool(core) and ch.chance(0.75)
        pool = []
        for ok in CROSS_NAMESPACE[kind]:
            names = core.get(ok, []) if use_core else [d.name for d in q.defs if d.kind == ok]
            pool += [(nm, ok) for nm in names if re.fullmatch(r"[A-Za-z][A-Za-z0-9_]*", nm)]
        own = taken[kind] if kind in taken else bare
        # the Python module writes host ids under their bare name, like constants, string constants, aliases and structs: those five kinds
        # must not share a name either (that combination is the hygiene kind "host-shares-name")
        emitted_bare = {d.name for d in q.defs if d.kind in BARE_NAME_KINDS} | {nm for k in ("constant", "string", "alias", "struct", "host") for nm in core.get(k, ())}
        if kind in BARE_NAME_KINDS:
            own = own | emitted_bare
        pool = [(nm, ok) for nm, ok in pool if nm not in own and not any(nm.startswith(pre) for pre in GENERATED_PREFIXES)]
        if not pool:
            continue
        name, okind = ch.choice(pool)
        spec = ch.choice(q.specs) if ch.chance(0.5) else q.spec(q.root)
        snap = copy.deepcopy(q.specs)
        d = _simple_def(kind, name, spec.path, ctx, ch, ["cross-namespace-names"])
        spec.defs.append(d)
        new = [d]
        if kind in ("struct", "message", "alias") and ch.chance(0.6):
            # used as a field type (scalar and array) by one more message of the same file
            u = Def("message", ctx.fresh_name(), spec.path, id=ctx.fresh_msg_id(), flags=["message", "cross-namespace-names"],
                    fields=[FieldSpec("head", "double", "double"), FieldSpec("one", name, name), FieldSpec("two", f"{name}[2]", name, 2, "2")])
            if kind == "alias":
                w = NATIVES[d.value]
                u.fields = [FieldSpec("one", name, name), FieldSpec("more", f"{name}[{8 // w * 2 - 1}]", name, 8 // w * 2 - 1, str(8 // w * 2 - 1))]
            spec.defs.append(u)
            new.append(u)
        q.rerender()
        if q.problems():
            q.specs = snap
            q.rerender()
            continue
        (taken[kind] if kind in taken else bare).add(name)
        added += new
        classes |= {f"cross-namespace/{kind}-like-{okind}", "cross-namespace/core" if use_core else "cross-namespace/user"}
    if not added:
        return None
    q.classes |= {"cross-namespace-names"} | classes
    q.rerender()
    return q


# names the MATLAB back end writes itself after the user's definitions (obsolete core messages kept "for backwards compatibility":
# RTMA.MT.MM_ERROR = 83, RTMA.MDF.MM_ERROR = '...') and the pseudo type of the JavaScript back end's type table ("string", used for
# char arrays): neither is a core definition, a native type or a documented reserved word, so a user may define them
MATLAB_LITERAL_MESSAGES = ("MM_ERROR", "MM_INFO", "DEBUG_TEXT")
JS_PSEUDO_TYPES = ("string",)


def add_backend_literal_names(program: Program, ch: Chooser, which: Optional[str] = None) -> Optional[Program]:
    """Copy of a well-formed program with ONE new definition whose name a back end also writes literally into its output:
      which == "matlab-message"  a message or signal called MM_ERROR, MM_INFO or DEBUG_TEXT (own id, own fields)
      which == "js-type"         a struct, an alias (of a numeric native) or a message called ``string``, used as the type of a scalar
                                 and of an array field of one more new message
    Plain identifiers, no core names, no native types: the closure stays well-formed; classes "backend-literal-names",
    "backend-literal/matlab-<kind>" / "backend-literal/js-<kind>".  None when the name is taken already."""
    which = which or ch.choice(["matlab-message", "js-type"])
    q = program.clone()
    ctx = _Ctx(q, ch)
    spec = ch.choice(q.specs) if ch.chance(0.5) else q.spec(q.root)
    fl = ["backend-literal-names"]
    if which == "matlab-message":
        free = [n for n in MATLAB_LITERAL_MESSAGES if n not in ctx.names]
        if not free:
            return None
        kind = ch.weighted([("message", 3), ("signal", 1)])
        spec.defs.append(_simple_def(kind, ch.choice(free), spec.path, ctx, ch, fl))
        cls = f"backend-literal/matlab-{kind}"
    else:
        name = JS_PSEUDO_TYPES[0]
        if name in ctx.names:
            return None
        kind = ch.weighted([("struct", 3), ("alias", 2), ("message", 2)])
        d = _simple_def(kind, name, spec.path, ctx, ch, fl)
        if kind == "alias":
            d.value = ch.choice(["int32", "double", "uint16"])
        spec.defs.append(d)
        ctx.names.add(name)
        if kind == "alias":
            w = NATIVES[d.value]
            fields = [FieldSpec("one", name, name), FieldSpec("more", f"{name}[{8 // w * 2 - 1}]", name, 8 // w * 2 - 1, str(8 // w * 2 - 1))]
        else:
            fields = [FieldSpec("head", "double", "double"), FieldSpec("one", name, name), FieldSpec("two", f"{name}[2]", name, 2, "2")]
        spec.defs.append(Def("message", ctx.fresh_name(), spec.path, id=ctx.fresh_msg_id(), flags=["message"] + fl, fields=fields))
        cls = f"backend-literal/js-{kind}"
    q.classes |= {"backend-literal-names", cls}
    q.rerender()
    return q if not q.problems() else None


def build_cross_namespace_cover_program(import_coredefs: bool = True) -> Program:
    """One well-formed closure (root + one imported file) with EVERY combination of CROSS_NAMESPACE: with the core definitions imported
    the borrowed names are core names (module ids RTMA_LOG, EXIT, DATA_SET, MAX_MODULES, MODULE_ID, LOCAL_HOST; host ids TIMING_MESSAGE,
    ACKNOWLEDGE, QUICK_LOGGER; message MESSAGE_MANAGER and signal ALL_HOSTS; struct / constant / string constant / alias called like the
    core module ids and like user module ids), without them names of the closure's own definitions.  The new structs, messages and the
    alias are used as field types.  Classes "cross-namespace-names", "cross-namespace/core"|"cross-namespace/user", "covering"."""
    ch = FirstChooser()
    lib = FileSpec(path="lib/ids.yaml")
    root = FileSpec(path="root.yaml", imports=[["lib/ids.yaml", "lib/ids.yaml"]])
    prog = Program([root, lib], "root.yaml", {"auto_pad": True, "validate_alignment": True, "import_coredefs": import_coredefs}, "chain",
                   {"cross-namespace-names", "covering", "cross-namespace/core" if import_coredefs else "cross-namespace/user"})
    F = FieldSpec
    # plain user definitions of every kind (their names are borrowed below when the core is not imported)
    lib.defs += [Def("constant", "U_CONST", lib.path, value=6, text="6"), Def("string", "U_TEXT", lib.path, value="rig_A", style={"quote": '"'}),
                 Def("alias", "U_ALIAS", lib.path, value="int16"), Def("host", "U_HOST", lib.path, value=321), Def("module", "U_MODULE", lib.path, value=61),
                 Def("module", "U_MODULE_B", lib.path, value=62), Def("module", "U_MODULE_C", lib.path, value=63), Def("module", "U_MODULE_D", lib.path, value=64),
                 Def("module", "U_MODULE_E", lib.path, value=65), Def("host", "U_HOST_B", lib.path, value=322),
                 Def("struct", "U_STRUCT", lib.path, fields=[F("a", "int32", "int32"), F("b", "int32", "int32")]),
                 Def("message", "U_MESSAGE", lib.path, id=4801, fields=[F("t", "double", "double")]), Def("signal", "U_SIGNAL", lib.path, id=4802)]
    if import_coredefs:
        like = {"message": "RTMA_LOG", "signal": "EXIT", "struct": "DATA_SET", "constant": "MAX_MODULES", "alias": "MODULE_ID", "host": "LOCAL_HOST",
                "module": "QUICK_LOGGER", "module2": "MESSAGE_MANAGER", "module3": "DATA_LOGGER", "host2": "ALL_HOSTS", "message2": "TIMING_MESSAGE", "signal2": "ACKNOWLEDGE"}
    else:
        like = {"message": "U_MESSAGE", "signal": "U_SIGNAL", "struct": "U_STRUCT", "constant": "U_CONST", "alias": "U_ALIAS", "host": "U_HOST",
                "module": "U_MODULE", "module2": "U_MODULE_B", "module3": "U_MODULE_C", "host2": "U_HOST_B", "message2": "U_MESSAGE", "signal2": "U_SIGNAL"}
    mods = iter(range(70, 90))
    hosts = iter(range(400, 420))
    ids = iter(range(4810, 4850))
    # module ids called like a message, signal, struct, constant, alias, host id (and, user names only, a string constant)
    for k in ("message", "signal", "struct", "constant", "alias", "host"):
        root.defs.append(Def("module", like[k], root.path, value=next(mods), flags=["module-id", "cross-namespace-names"]))
    root.defs.append(Def("module", "U_TEXT", root.path, value=next(mods), flags=["module-id", "cross-namespace-names"]))
    # host ids called like a message, a signal, a module id
    lib.defs.append(Def("host", like["message2"], lib.path, value=next(hosts), flags=["host-id", "cross-namespace-names"]))
    root.defs.append(Def("host", like["signal2"], root.path, value=next(hosts), flags=["host-id", "cross-namespace-names"]))
    root.defs.append(Def("host", like["module"], root.path, value=next(hosts), flags=["host-id", "cross-namespace-names"]))
    # messages / signals called like a module id, a host id
    lib.defs.append(Def("message", like["module2"], lib.path, id=next(ids), flags=["message", "cross-namespace-names"],
                        fields=[F("level", "int16", "int16"), F("spare", "int16", "int16"), F("count", "int32", "int32"), F("when", "double", "double")]))
    root.defs.append(Def("message", like["host"], root.path, id=next(ids), flags=["message", "cross-namespace-names"],
                         fields=[F("when", "double", "double"), F("text", "char[16]", "char", 16, "16")]))
    root.defs.append(Def("signal", like["module3"], root.path, id=next(ids), flags=["signal", "cross-namespace-names"]))
    root.defs.append(Def("signal", like["host2"], root.path, id=next(ids), flags=["signal", "cross-namespace-names"]))
    # struct, constant, string constant, alias called like a module id (user module ids: the core has only three)
    root.defs.append(Def("struct", "U_MODULE_D", root.path, flags=["struct", "cross-namespace-names"], fields=[F("a", "int32", "int32"), F("b", "int32", "int32")]))
    root.defs.append(Def("constant", "U_MODULE_E", root.path, value=3, text="3", flags=["const-int", "cross-namespace-names"]))
    lib.defs.append(Def("string", "U_MODULE_B" if import_coredefs else "U_MODULE_D_TXT", lib.path, value="left", style={"quote": '"'}, flags=["string-const"]))
    lib.defs.append(Def("alias", "U_MODULE_C" if import_coredefs else "U_MODULE_E_AL", lib.path, value="uint16", flags=["alias-native"]))
    al = "U_MODULE_C" if import_coredefs else "U_MODULE_E_AL"
    if not import_coredefs:  # the user-name variant borrows the user module ids for the string constant and the alias
        root.defs.append(Def("module", "U_MODULE_D_TXT", root.path, value=next(mods), flags=["module-id", "cross-namespace-names"]))
        root.defs.append(Def("module", "U_MODULE_E_AL", root.path, value=next(mods), flags=["module-id", "cross-namespace-names"]))
    # and everything is used
    root.defs.append(Def("message", "XN_USER", root.path, id=next(ids), flags=["message", "cross-namespace-names"],
                         fields=[F("head", "double", "double"), F("m", like["module2"], like["module2"]), F("h", f"{like['host']}[2]", like["host"], 2, "2"),
                                 F("s", "U_MODULE_D[U_MODULE_E]", "U_MODULE_D", 3, "U_MODULE_E"), F("al", f"{al}[4]", al, 4, "4")]))
    prog.rerender()
    probs = prog.problems()
    if probs:
        raise GeneratorBug("cross-namespace cover program is not well-formed: " + "; ".join(probs[:4]))
    return prog


def build_string_cover_program(import_coredefs: bool = False, part: Optional[int] = None, parts: int = 1) -> Program:
    """One well-formed closure (root + one imported file) whose string constants are ALL texts of the generator's string vocabulary
    (plain words, quotes / backslashes, control characters, texts of several lines whose lines look like YAML, one-line look-alikes)
    - or the slice ``part`` of ``parts`` of them -, plus one message.  Classes "string-control", "string-yamlish", "string-special",
    "covering"."""
    texts = _STRING_WORDS[:2] + _STRING_SPECIAL + _STRING_CONTROL + _STRING_YAMLISH + _STRING_ONELINE
    if part is not None:
        texts = [t for i, t in enumerate(texts) if i % parts == part % parts]
    lib = FileSpec(path="texts/help.yaml")
    root = FileSpec(path="root.yaml", imports=[["texts/help.yaml", "texts/help.yaml"]])
    for i, t in enumerate(texts):
        s_ = lib if i % 2 else root
        ctrl = re.search(r"[\x00-\x1f\x7f]", t) is not None
        s_.defs.append(Def("string", f"TXT_{i:03d}", s_.path, value=t, style={"quote": '"' if ctrl or i % 3 else "'"},
                           flags=["string-const", "string-control" if ctrl else "string-special"]))
    root.defs.append(Def("message", "TXT_HOLDER", root.path, id=4870, flags=["message"], fields=[FieldSpec("a", "int32", "int32"), FieldSpec("b", "int32", "int32")]))
    # free-form descriptions of the files: a metadata section (the header lines of a FileSpec are written verbatim) with a text of several lines
    root.header = ["metadata:", '  DESCRIPTION: "Bench definitions\\nmaintainer:lab\\n  see http://host:80/p"', "  REVISION: 7", ""]
    lib.header = ["metadata:", '  LIB_NOTE: "texts\\n- usage:x"', ""]
    prog = Program([root, lib], "root.yaml", {"auto_pad": True, "validate_alignment": True, "import_coredefs": import_coredefs}, "chain",
                   {"string-const", "string-control", "string-yamlish", "string-special", "covering"})
    probs = prog.problems()
    if probs:
        raise GeneratorBug("string cover program is not well-formed: " + "; ".join(probs[:4]))
    return prog


def add_padding_field_name(program: Program, ch: Chooser) -> Optional[Program]:
    """Copy of a well-formed program in which one user field of one struct/message is named like the compiler's automatic
    padding fields (padding_0_, padding_1_, padding_2_).  Classes "padding-field-name[/<name>]".  The compiler either keeps the
    user's field apart from its own padding (all outputs then show it) or refuses the name; the program stays wellformed=True."""
    cands = [d for d in program.defs if d.kind in ("struct", "message") and d.fields]
    if not cands:
        return None
    q = program.clone()
    t = ch.choice(cands)
    d = [x for x in q.spec(t.file).defs if x.name == t.name and x.kind == t.kind][0]
    name = ch.choice(["padding_0_", "padding_0_", "padding_1_", "padding_2_"])
    if any(f.name == name for f in d.fields):
        return None
    ch.choice(d.fields).name = name
    d.flags = sorted(set(d.flags) | {"padding-field-name"})
    q.classes |= {"padding-field-name", "padding-field-name/" + name}
    q.rerender()
    return q if not q.problems() else None


def add_reserved_field_name(program: Program, ch: Chooser, name: Optional[str] = None, kinds: Sequence[str] = ("message", "message", "struct")) -> Optional[Program]:
    """Near miss: copy of a well-formed program in which one field of one message (or struct) is renamed to one of
    RESERVED_FIELD_NAMES (type_id, type_name, type_hash, type_source, type_def, type_size, hexdump).  The compiler must
    reject it: wellformed False, expected_error "RTMASyntaxError", expect {"outcome": "RTMASyntaxError", "at": name};
    classes "reserved-field-name", "reserved-field-name/<name>".  None if the program has no explicit field list."""
    kind = ch.choice(list(kinds))
    cands = [d for d in program.defs if d.kind == kind and d.fields] or [d for d in program.defs if d.kind in ("message", "struct") and d.fields]
    if not cands:
        return None
    q = program.clone()
    t = ch.choice(cands)
    d = [x for x in q.spec(t.file).defs if x.name == t.name and x.kind == t.kind][0]
    name = name or ch.choice(list(RESERVED_FIELD_NAMES))
    f = ch.choice(d.fields)
    f.name = name
    cls = f"reserved-field-name/{name}"
    d.flags = sorted(set(d.flags) | {"reserved-field-name", cls})
    q.classes |= {"reserved-field-name", cls}
    q.wellformed = False
    q.expected_error = "RTMASyntaxError"
    q.expect = {"outcome": "RTMASyntaxError", "at": d.name, "field": name}
    q.rerender()
    return q


FAULT_KINDS = ["missing-import", "no-id", "no-fields", "signal-as-field-type"]
FAULT_ERRORS = {"missing-import": "FileNotFoundError", "no-id": "KeyError", "no-fields": "KeyError", "signal-as-field-type": "AssertionError"}


def inject_fault(program: Program, kind: str, ch: Chooser, where: Optional[str] = None) -> Optional[Program]:
    """Copy of a well-formed program that the compiler aborts on with an exception that is NOT a ParserError (the parse
    stops half way): an import of a file that does not exist (FileNotFoundError), a message without ``id`` or a
    message/struct without ``fields`` (KeyError), a signal used as a field type (AssertionError).  ``where`` selects the
    file ("root", "leaf" or None = drawn).  wellformed False, expected_error = FAULT_ERRORS[kind], ``fault`` = {"kind","file"}.
    The file set and paths are those of ``program`` (so the corrected closure can overwrite it in place)."""
    if kind not in FAULT_KINDS:
        raise ValueError(kind)
    q = program.clone()
    order = q.file_order
    if where == "root":
        fpath = q.root
    elif where == "leaf":
        fpath = order[0]
    else:
        fpath = ch.choice(order)
    spec = q.spec(fpath)
    ctx = _Ctx(q, ch)
    if kind == "missing-import":
        ghost = posixpath.join(posixpath.dirname(fpath), "does_not_exist.yaml")
        spec.imports.insert(ch.integer(0, len(spec.imports)), ["does_not_exist.yaml", ghost])
    elif kind in ("no-id", "no-fields"):
        pool = [d for d in spec.defs if d.kind == "message" or (kind == "no-fields" and d.kind == "struct")]
        if pool and ch.chance(0.7):
            d = ch.choice(pool)
        else:
            d = Def("message", ctx.fresh_name(), fpath, id=ctx.fresh_msg_id(), fields=[FieldSpec("v", "int32", "int32")])
            _insert(spec, d, ch)
        d.style["omit_id" if kind == "no-id" else "omit_fields"] = True
    else:
        sig = Def("signal", ctx.fresh_name(), fpath, id=ctx.fresh_msg_id())
        msg = Def("message", ctx.fresh_name(), fpath, id=ctx.fresh_msg_id(), fields=[FieldSpec("a", "int32", "int32"), FieldSpec("s", sig.name, sig.name)])
        spec.defs.append(sig)
        spec.defs.append(msg)
    q.wellformed = False
    q.expected_error = FAULT_ERRORS[kind]
    q.fault = {"kind": kind, "file": fpath}
    q._files = None
    q._an = None
    if kind == "missing-import":
        # the analysis would complain about the unknown file; render directly
        q._files = {s_.path: render_file(s_) for s_ in q.specs}
    return q


FRACTIONAL_VARIANTS = ["below-one", "zero", "truncated"]


def add_fractional_length(program: Program, ch: Chooser, variant: Optional[str] = None) -> Optional[Program]:
    """Copy of a well-formed program in which one message gets an extra array field whose length expression uses '/'
    and does not evaluate to a whole number >= 1:
      "below-one"  0 < x < 1 (e.g. 4 / 8)   -> must be rejected: wellformed False, expected_error "RTMASyntaxError"
      "zero"       0.0 (e.g. 0 / 8)          -> must be rejected likewise
      "truncated"  non-integral >= 1 (5 / 2) -> the compiler truncates (int()): accepted with length 2, wellformed stays True
    ``expect`` = {"outcome": "RTMASyntaxError"|"ok", "at": message name}; the model's FieldSpec.length is int(value)
    (0 for the rejected variants).  Two fresh constants are added to the message's file.  None if not applicable."""
    variant = variant or ch.choice(FRACTIONAL_VARIANTS)
    cands = [d for d in program.defs if d.kind == "message" and d.fields is not None]
    if variant == "truncated" and program.validate_alignment and not program.auto_pad:
        return None
    if not cands:
        return None
    q = program.clone()
    target = ch.choice(cands)
    d = [x for x in q.spec(target.file).defs if x.name == target.name and x.kind == "message"][0]
    ctx = _Ctx(q, ch)
    num, den = {"below-one": ch.choice([(4, 8), (1, 2), (3, 1000), (7, 8)]), "zero": (0, ch.choice([8, 3])),
                "truncated": ch.choice([(5, 2), (7, 2), (10, 4), (9, 8)])}[variant]
    a, b = ctx.fresh_name(), ctx.fresh_name()
    spec = q.spec(target.file)
    spec.defs.append(Def("constant", a, spec.path, value=num, text=str(num), flags=["const-int"]))
    spec.defs.append(Def("constant", b, spec.path, value=den, text=str(den), flags=["const-int"]))
    used = {f.name for f in d.fields}
    base = ch.choice(["int32", "uint8", "double", "int16"]) if variant != "truncated" else "uint8"
    ltext = f"{a} / {b}"
    length = int(num / den)
    f = FieldSpec(ctx.fresh_field(used), f"{base}[{ltext}]", base, length, ltext)
    if variant == "truncated":
        d.fields.append(f)
    else:
        d.fields.insert(ch.integer(0, len(d.fields)), f)
    cls = f"fractional-length/{variant}"
    d.flags = sorted(set(d.flags) | {"fractional-length", cls})
    q.classes |= {"fractional-length", cls}
    if variant == "truncated":
        q.expect = {"outcome": "ok", "at": d.name}
        q.rerender()
        if q.problems():
            return None
    else:
        q.wellformed = False
        q.expected_error = "RTMASyntaxError"
        q.expect = {"outcome": "RTMASyntaxError", "at": d.name}
        q.rerender()
    return q


# ------------------------------------------------------------------------------------------------
# value and name hygiene: single constructs the compiler either has to refuse or has to carry through all four outputs

PY_DESCRIPTOR_FOR = {  # descriptor class the generated Python class body calls for a field of that type text
    "Double": "double", "Float": "float", "Int8": "int8", "Int16": "int16", "Int32": "int32", "Int64": "int64", "Uint8": "uint8", "Uint16": "uint16",
    "Uint32": "uint32", "Uint64": "uint64", "Char": "char", "Byte": "byte", "String": "char[8]", "ByteArray": "byte[4]", "IntArray": "int32[4]",
    "FloatArray": "double[2]",
}
PY_ONLY_KEYWORDS = ["from", "class", "def", "lambda", "import", "pass", "None", "and", "or", "not", "is", "in", "as", "assert", "del", "elif",
                    "except", "raise", "with", "yield"]  # keywords of Python that no other target language reserves for field names
C_ONLY_KEYWORDS = ["char", "float", "double", "struct", "int", "short", "long", "unsigned", "signed", "void", "const", "static", "union", "enum",
                   "typedef", "auto", "register", "volatile", "extern", "goto", "sizeof"]  # keywords of C only (legal in Python, JavaScript object keys, MATLAB fields)
NATIVE_SINGLE_WORDS = [n for n in NATIVE_NAMES if " " not in n]
_BAD_NAMES = ["MAX-N", "N.MAX", "MAX N", "A+B", "RATE/2", "N-1", "pos-x"]
HYGIENE_KINDS = (
    ["const-nonfinite/inf", "const-nonfinite/neg-inf", "const-nonfinite/nan", "const-nonfinite/expr-inf", "const-nonfinite/expr-nan", "const-bool/true", "const-bool/false"]
    + [f"name-not-identifier/{k}" for k in ("constant", "string", "alias", "host", "module", "struct", "message", "signal", "field")]
    + [f"definition-named-like-native-type/{k}" for k in ("alias", "struct", "message", "signal")]
    + ["field-named-like-descriptor/scalar", "field-named-like-descriptor/struct", "field-named-like-later-type/struct", "field-named-like-later-type/message",
       "field-named-like-python-keyword", "field-named-like-c-keyword", "constant-named-like-field/constant", "constant-named-like-field/string",
       "constant-named-like-field/imported", "id-bool/message-true", "id-bool/message-false", "id-bool/signal-true"]
    # a host id that shares its name with a constant / string constant / alias / struct (separate namespaces for the parser; ONE for the
    # generated Python module, which writes all five under their bare name): of the closure itself, of the core definitions (host id
    # MAX_MODULES, MODULE_ID, DATA_SET), or a user definition called like the core host ids LOCAL_HOST / ALL_HOSTS
    + [f"host-shares-name/{k}" for k in ("constant", "string", "alias", "struct", "core-constant", "core-alias", "core-struct", "constant-like-core-host",
                                         "string-like-core-host", "alias-like-core-host", "struct-like-core-host")]
)
# kinds whose names are identifiers in Python, C, JavaScript and MATLAB alike
HYGIENE_LEGAL_IDENTIFIERS = tuple(k for k in HYGIENE_KINDS if k.split("/")[0] in ("const-nonfinite", "const-bool", "id-bool", "field-named-like-descriptor",
                                                                                 "field-named-like-later-type", "constant-named-like-field", "host-shares-name"))


def hygiene_needs_core(kind: str) -> bool:
    """Kinds of add_hygiene that borrow a name from the core definitions (without them they fall back to their user-only sibling)."""
    return kind.startswith("host-shares-name/") and "core" in kind


def minimal_program(import_coredefs: bool = False) -> Program:
    """One file, one plain message: the smallest base for add_hygiene()."""
    spec = FileSpec(path="root.yaml", defs=[Def("message", "HYG_BASE", "root.yaml", id=4990, flags=["message"],
                                                fields=[FieldSpec("first", "int32", "int32"), FieldSpec("second", "int32", "int32")])])
    return Program([spec], "root.yaml", {"auto_pad": True, "validate_alignment": True, "import_coredefs": import_coredefs}, "single", {"message"})


def add_hygiene(program: Program, ch: Chooser, kind: Optional[str] = None) -> Optional[Program]:
    """Copy of a well-formed program with ONE extra construct (new definitions appended to the root file, everything else
    untouched) of a kind a careful compiler refuses and a careless one writes verbatim into its outputs:
      const-nonfinite/*, const-bool/*   a constant whose value is .inf / -.inf / .nan (literal or result of an expression) or a YAML bool
      name-not-identifier/<kind>        a constant / string constant / alias / host / module / struct / message / signal / field whose name
                                        starts with a letter but is no identifier (MAX-N, N.MAX, MAX N, ...)
      definition-named-like-native-type/<kind>   an alias / struct / message / signal called int, double, uint8, ...
      field-named-like-descriptor/*     a field called like a descriptor class of the generated Python class body (Double, Int32, Struct,
                                        ...) followed by a field that needs that descriptor
      field-named-like-later-type/*     a field called like the struct (or MDF_<message>) type of a LATER field of the same definition
      field-named-like-python-keyword   a field called from, class, lambda, ...
      field-named-like-c-keyword        a field called char, float, struct, ... (the repository's own test definitions do that)
      constant-named-like-field/*       a constant / string constant that has the name of a field (the C header #defines it)
    The result has wellformed False (it is a near miss, not a member of the well-formed domain), classes "hygiene" and
    "hygiene/<kind>", and ``expect`` = {"outcome": "ok-or-refused", "hygiene": kind, "label": kind's head (the construct class
    for finding keys), "at": name of the added message, "legal_identifiers": bool}.  Contract for the checks: the compiler
    either refuses the closure with one of its own errors, or every output loads and agrees."""
    kind = kind or ch.choice(HYGIENE_KINDS)
    if kind not in HYGIENE_KINDS:
        raise ValueError(kind)
    q = program.clone()
    ctx = _Ctx(q, ch)
    spec = q.spec(q.root)
    path = spec.path
    head, _, sub = kind.partition("/")
    new: List[Def] = []
    mname = ctx.fresh_name()
    mfields = [FieldSpec("seq", "int32", "int32"), FieldSpec("val", "int32", "int32")]
    info: Dict[str, Any] = {}

    def fs(name, text):
        m = re.match(r"\s*([\s\w]*?)\s*(?:\[(.*)\])?$", text)
        ln = m.group(2)
        return FieldSpec(name, text, m.group(1), int(ln) if ln and ln.isdigit() else (1 if ln else None), ln)

    if head in ("const-nonfinite", "const-bool"):
        text = {"inf": ".inf", "neg-inf": "-.inf", "nan": ".nan", "expr-inf": "1e308 * 10", "expr-nan": "1e308 * 10 - 1e308 * 10",
                "true": ch.cos.choice(["true", "True"]), "false": "false"}[sub]
        nm = ctx.fresh_name()
        new.append(Def("constant", nm, path, value=None, text=text, flags=["hygiene"]))
        info["name"] = nm
    elif head == "name-not-identifier":
        bad = ch.cos.choice(_BAD_NAMES)
        while q.has(bad):
            bad += "x"
        info["name"] = bad
        if sub == "constant":
            new.append(Def("constant", bad, path, value=3, text="3"))
        elif sub == "string":
            new.append(Def("string", bad, path, value="text", style={"quote": '"'}))
        elif sub == "alias":
            new.append(Def("alias", bad, path, value="int32"))
        elif sub == "host":
            new.append(Def("host", bad, path, value=ctx.fresh_host_id()))
        elif sub == "module":
            new.append(Def("module", bad, path, value=ctx.fresh_mod_id()))
        elif sub == "struct":
            new.append(Def("struct", bad, path, fields=[fs("a", "int32"), fs("b", "int32")]))
        elif sub == "message":
            new.append(Def("message", bad, path, id=ctx.fresh_msg_id(), fields=[fs("a", "int32"), fs("b", "int32")]))
        elif sub == "signal":
            new.append(Def("signal", bad, path, id=ctx.fresh_msg_id()))
        else:
            mfields.insert(ch.integer(0, 2), fs(bad, "int32"))
            mfields.append(fs("tail", "int32"))
    elif head == "definition-named-like-native-type":
        ckw = [n for n in NATIVE_SINGLE_WORDS if n in C_ONLY_KEYWORDS]
        nm = ch.choice(ckw) if ch.chance(0.7) else ch.choice([n for n in NATIVE_SINGLE_WORDS if n not in ckw])
        info["name"] = nm
        if sub == "alias":
            new.append(Def("alias", nm, path, value=ch.choice(["int16", "double", "uint8"])))
        elif sub == "struct":
            new.append(Def("struct", nm, path, fields=[fs("a", "double"), fs("b", "int32"), fs("c", "int32")]))
        elif sub == "message":
            new.append(Def("message", nm, path, id=ctx.fresh_msg_id(), fields=[fs("a", "double"), fs("b", "int32"), fs("c", "int32")]))
        else:
            new.append(Def("signal", nm, path, id=ctx.fresh_msg_id()))
    elif head == "field-named-like-descriptor":
        if sub == "scalar":
            desc = ch.choice(sorted(PY_DESCRIPTOR_FOR))
            tt = PY_DESCRIPTOR_FOR[desc]
            first_t = tt if ch.chance(0.5) else "int32"
            mfields = [fs(desc, first_t), fs("other", tt), fs("more", tt)]
        else:
            sname = ctx.fresh_name()
            new.append(Def("struct", sname, path, fields=[fs("p", "double"), fs("q", "double")]))
            desc = ch.choice(["Struct", "StructArray"])
            mfields = [fs(desc, "double"), fs("other", sname if desc == "Struct" else f"{sname}[2]"), fs("more", sname if desc == "Struct" else f"{sname}[3]")]
        info["name"] = desc
    elif head == "field-named-like-later-type":
        tname = ctx.fresh_name()
        if sub == "struct":
            new.append(Def("struct", tname, path, fields=[fs("x", "double"), fs("y", "double")]))
            fname = tname
        else:
            new.append(Def("message", tname, path, id=ctx.fresh_msg_id(), fields=[fs("x", "double"), fs("y", "double")]))
            fname = "MDF_" + tname
        first_t = tname if (sub == "struct" and ch.chance(0.5)) else "double"
        mfields = [fs(fname, first_t), fs("q", tname if ch.chance(0.5) else f"{tname}[2]")]
        info["name"] = fname
    elif head in ("field-named-like-python-keyword", "field-named-like-c-keyword"):
        kw = ch.choice(PY_ONLY_KEYWORDS if "python" in head else C_ONLY_KEYWORDS)
        mfields.insert(ch.integer(0, 2), fs(kw, ch.choice(["int32", "double", "int32[2]"])))
        if len(mfields) % 2 and all(f.base == "int32" for f in mfields):
            mfields.append(fs("tail", "int32"))
        info["name"] = kw
    elif head == "constant-named-like-field":
        fname = ch.cos.choice(["count", "n_chans", "size", "len", "default_msg", "width", "rate"])
        cfile = path
        if sub == "imported" and len(q.file_order) > 1:
            cfile = ch.choice([f for f in q.file_order if f != path])
        if sub == "string":
            cdef = Def("string", fname, cfile, value="hello_world", style={"quote": '"'})
            mfields = [fs(fname, "int32"), fs("data", "int32[3]")]
        else:
            cdef = Def("constant", fname, cfile, value=4, text="4")
            mfields = [fs(fname, "int32"), fs("data", f"int32[{fname}]" if ch.chance(0.5) else "int32[3]")]
            if mfields[1].length_text == fname:
                mfields[1].length = 4
        if q.has(fname):
            return None
        if cfile == path:
            new.append(cdef)
        else:
            q.spec(cfile).defs.append(cdef)
        info["name"] = fname
    elif head == "host-shares-name":
        core = _core_names_by_kind() if q.import_coredefs else {}
        bkind = sub.split("-like-")[0]
        bkind = bkind[5:] if bkind.startswith("core-") else bkind
        if sub.startswith("core-") and core.get(bkind):
            nm = ch.choice(core[bkind])  # a host id called like a core constant / alias / struct
            new.append(Def("host", nm, path, value=ctx.fresh_host_id()))
            if bkind == "constant":
                mfields = [fs("seq", "int32"), fs("data", "int32[3]")]
        else:
            if sub.endswith("-like-core-host") and core.get("host"):
                nm = ch.choice(core["host"])  # a user definition called like the core host id LOCAL_HOST / ALL_HOSTS
            else:
                nm = ctx.fresh_name()
                new.append(Def("host", nm, path, value=ctx.fresh_host_id()))
            if bkind == "constant":
                new.append(Def("constant", nm, path, value=4, text="4"))
                mfields = [fs("seq", "int32"), fs("data", f"int32[{nm}]")]
                mfields[1].length = 4
            elif bkind == "string":
                new.append(Def("string", nm, path, value="some text", style={"quote": '"'}))
            elif bkind == "alias":
                new.append(Def("alias", nm, path, value="int32"))
                mfields = [fs("seq", nm), fs("val", f"{nm}[3]")]
            else:
                new.append(Def("struct", nm, path, fields=[fs("a", "int32"), fs("b", "int32")]))
                mfields = [fs("seq", "double"), fs("one", nm), fs("two", f"{nm}[2]")]
        info["name"] = nm
    elif head == "id-bool":
        # a YAML bool where a message id belongs (bool is an int for Python): written verbatim it is no number in C / JavaScript
        nm = ctx.fresh_name()
        val = {"true": True, "false": False}[sub.split("-")[-1]]
        if sub.startswith("signal"):
            new.append(Def("signal", nm, path, id=val, flags=["signal", "hygiene"]))
        else:
            new.append(Def("message", nm, path, id=val, fields=[fs("a", "int32"), fs("b", "int32")], flags=["message", "hygiene"]))
        info["name"] = nm
    else:  # pragma: no cover
        raise ValueError(kind)
    new.append(Def("message", mname, path, id=ctx.fresh_msg_id(), fields=mfields, flags=["message", "hygiene"]))
    spec.defs.extend(new)
    q.classes |= {"hygiene", "hygiene/" + kind}
    q.wellformed = False
    q.expected_error = None
    q.expect = {"outcome": "ok-or-refused", "hygiene": kind, "label": head, "at": mname, "legal_identifiers": kind in HYGIENE_LEGAL_IDENTIFIERS, **info}
    q._files = None
    q._an = None
    q._files = {s_.path: render_file(s_) for s_ in q.specs}  # rendered directly: the analysis has no model for these constructs
    return q


def hygiene_programs(kinds: Optional[Sequence[str]] = None, **kw):
    """Strategy: a well-formed closure (``programs(**kw)``) plus one construct of add_hygiene(), kind drawn from ``kinds``."""
    from hypothesis import strategies as st

    core_defs()
    pool = list(kinds or HYGIENE_KINDS)

    @st.composite
    def _hp(draw):
        ch = HypChooser(draw)
        kind = ch.choice(pool)
        base = build_program(ch, **kw)
        return add_hygiene(base, ch, kind) or add_hygiene(minimal_program(base.import_coredefs), ch, kind)

    return _hp()


def build_name_cover_program(ch: Chooser, import_coredefs: bool = False, lengths: Sequence[int] = tuple(COVER_NAME_LENGTHS),
                             extra_random: int = 2) -> Program:
    """One well-formed closure (1-2 files) that contains, for EVERY identifier length in ``lengths`` (default
    COVER_NAME_LENGTHS = 1, 2, 31, 32, 40, 45, 46, 47, 48, 63) plus ``extra_random`` drawn lengths <= 63, a constant, a
    module id, a host id, a struct, a message and a signal whose names have exactly that length; the message uses the
    struct and the constant (as array length) of its length class.  Classes: "long-names", "name-length-<n>"."""
    cs = ch.cos
    lens = list(lengths) + [cs.integer(3, MAX_NAME_LENGTH) for _ in range(extra_random)]
    two = ch.chance(0.5)
    specs = [FileSpec(path="root.yaml", indent=cs.choice([2, 4]))]
    if two:
        specs[0].imports.append(["names/long.yaml", "names/long.yaml"])
        specs.append(FileSpec(path="names/long.yaml", indent=cs.choice([2, 4])))
    opts = {"auto_pad": True, "validate_alignment": True, "import_coredefs": import_coredefs}
    prog = Program(specs, "root.yaml", opts, "chain" if two else "single", {"long-names"})
    used = set(core_defs()["names"]) | set(core_defs()["host_ids"]) | set(core_defs()["module_ids"])
    ids = iter(cs.shuffled(range(1000, 9999)))
    mods = iter(cs.shuffled(range(10, 99)))
    hosts = iter(cs.shuffled(range(1, 32766))[:64])
    for i, n in enumerate(lens):
        lib = specs[1] if two and i % 2 else specs[0]
        top = specs[0]
        c = Def("constant", name_of_length(n, used, cs), lib.path, value=2 + i % 7, text=str(2 + i % 7), flags=["const-int"])
        st_ = Def("struct", name_of_length(n, used, cs), lib.path, flags=["struct"],
                  fields=[FieldSpec("a", "int32", "int32"), FieldSpec("b", f"uint8[{c.name}]", "uint8", c.value, c.name)])
        m = Def("message", name_of_length(n, used, cs), top.path, id=next(ids), flags=["message"],
                fields=[FieldSpec("s", st_.name, st_.name), FieldSpec("v", f"double[ {c.name} ]", "double", c.value, c.name)])
        sg = Def("signal", name_of_length(n, used, cs), lib.path, id=next(ids), flags=["signal"])
        lib.defs += [c, st_, sg, Def("module", name_of_length(n, used, cs), lib.path, value=next(mods), flags=["module-id"]),
                     Def("host", name_of_length(n, used, cs), lib.path, value=next(hosts), flags=["host-id"])]
        top.defs.append(m)
        prog.classes.add(f"name-length-{n}")
    prog.rerender()
    probs = prog.problems()
    if probs:
        raise GeneratorBug("name cover program is not well-formed: " + "; ".join(probs[:4]))
    return prog


def build_prefix_cover_program(ch: Chooser, import_coredefs: bool = False, prefixes: Sequence[str] = tuple(TABLE_PREFIXES)) -> Program:
    """One well-formed closure with, for EVERY output-table prefix P of the back ends (TABLE_PREFIXES: hash, HASH, MT, MID, HID,
    MDF, SDF, typedefs, defines, constants, aliases, ...), a message ``P_<W>`` and a signal ``P_<V>``, for every second prefix also a
    message / signal named like the remainders ``<W>`` / ``<V>``, plus a struct, a constant, a module id and a host id ``P_<X>``.
    Classes "prefix-names", "table-prefix-name", "table-prefix/<P>", "table-prefix-name-with-remainder"."""
    cs = ch.cos
    spec = FileSpec(path="root.yaml", indent=cs.choice([2, 4]))
    opts = {"auto_pad": True, "validate_alignment": True, "import_coredefs": import_coredefs}
    prog = Program([spec], "root.yaml", opts, "single", {"prefix-names", "table-prefix-name"})
    used = set(core_defs()["names"]) | set(core_defs()["host_ids"]) | set(core_defs()["module_ids"])
    ids = iter(cs.shuffled(range(1000, 9999)))
    mods = iter(cs.shuffled(range(10, 99)))
    hosts = iter(cs.shuffled(range(1, 32766))[:64])

    def word():
        for _ in range(100):
            w = cs.choice(_UP) + "_" + cs.choice(_UP)
            if w not in used and not any(f"{p}_{w}" in used for p in prefixes):
                used.add(w)
                return w
        raise GeneratorBug("no free word")

    for i, pre in enumerate(prefixes):
        w, v, x = word(), word(), word()
        spec.defs.append(Def("message", f"{pre}_{w}", spec.path, id=next(ids), flags=["message"], fields=[FieldSpec("a", "int32", "int32"), FieldSpec("b", "double", "double")]))
        spec.defs.append(Def("signal", f"{pre}_{v}", spec.path, id=next(ids), flags=["signal"]))
        if i % 2 == 0:
            spec.defs.append(Def("message", w, spec.path, id=next(ids), flags=["message"], fields=[FieldSpec("c", "uint8", "uint8", 4, "4")]))
            spec.defs[-1].fields[0].type_text = "uint8[4]"
            spec.defs.append(Def("signal", v, spec.path, id=next(ids), flags=["signal"]))
            prog.classes.add("table-prefix-name-with-remainder")
        spec.defs.append(Def("struct", f"{pre}_{x}", spec.path, flags=["struct"], fields=[FieldSpec("a", "int16", "int16")]))
        if i < 40:
            spec.defs.append(Def("constant", f"{pre}_{x}_C", spec.path, value=3 + i, text=str(3 + i), flags=["const-int"]))
            spec.defs.append(Def("module", f"{pre}_{x}_M", spec.path, value=next(mods), flags=["module-id"]))
            spec.defs.append(Def("host", f"{pre}_{x}_H", spec.path, value=next(hosts), flags=["host-id"]))
        prog.classes.add(f"table-prefix/{pre}")
    spec.defs = cs.shuffled(spec.defs)
    prog.rerender()
    probs = prog.problems()
    if probs:
        raise GeneratorBug("prefix cover program is not well-formed: " + "; ".join(probs[:4]))
    return prog


def name_cover_programs(**kw):
    from hypothesis import strategies as st

    core_defs()

    @st.composite
    def _nc(draw):
        return build_name_cover_program(HypChooser(draw), **kw)

    return _nc()


def random_program(seed, **kw) -> Program:
    return build_program(RandomChooser(seed), **kw)


def programs(**kw):
    from hypothesis import strategies as st

    core_defs()  # load once outside the strategy (its imports touch the global random state)

    @st.composite
    def _programs(draw):
        return build_program(HypChooser(draw), **kw)

    return _programs()


# ------------------------------------------------------------------------------------------------
# naming context for transformations of an existing program


class _Ctx:
    def __init__(self, program: Program, ch: Chooser):
        self.p = program
        self.ch = ch
        core = core_defs()
        self.names = set(core["names"]) | set(core["host_ids"]) | set(core["module_ids"])
        self.msg_ids = set(core["message_defs"].values())
        self.mod_ids = set(core["module_ids"].values())
        self.host_ids = set(core["host_ids"].values())
        for d in program.defs:
            self.names.add(d.name)
            if d.kind in ("message", "signal"):
                self.msg_ids.add(d.id)
            elif d.kind == "reserved":
                self.msg_ids.update(d.reserved_ids())
            elif d.kind == "module":
                self.mod_ids.add(d.value)
            elif d.kind == "host":
                self.host_ids.add(d.value)

    def fresh_name(self) -> str:
        c = self.ch.cos
        a = c.choice(_UP)
        n = a + "_" + c.choice([w for w in _UP if w != a])
        if c.chance(0.3):
            n += "_" + str(c.integer(2, 9))
        base, k = n, 2
        while n in self.names:
            n = f"{base}_{k}"
            k += 1
        self.names.add(n)
        return n

    def fresh_field(self, used: Set[str]) -> str:
        c = self.ch.cos
        n = c.choice(_LOW) + ("_" + c.choice(_SUFFIX) if c.chance(0.6) else "")
        base, k = n, 2
        while n in used or n in RESERVED_FIELD_NAMES:
            n = f"{base}{k}"
            k += 1
        used.add(n)
        return n

    def _fresh(self, pool: Set[int], lo: int, hi: int, span: int = 1) -> int:
        for _ in range(500):
            i = self.ch.cos.integer(lo, hi)
            if all(j not in pool for j in range(i - span, i + span + 1)):
                pool.add(i)
                return i
        raise GeneratorBug("no free id")

    def fresh_msg_id(self, span: int = 1) -> int:
        return self._fresh(self.msg_ids, 1100, 9800, span)

    def fresh_mod_id(self) -> int:
        return self._fresh(self.mod_ids, 10, 99, 0)

    def fresh_host_id(self) -> int:
        return self._fresh(self.host_ids, 1, 32766, 0)


def _insert(spec: FileSpec, d: Def, ch: Chooser, where: Optional[str] = None):
    """Insert d among the definitions of its section (position drawn unless where in {"first","last"})."""
    idx = [i for i, x in enumerate(spec.defs) if x.section == d.section]
    if not idx or where == "last":
        spec.defs.append(d)
    elif where == "first":
        spec.defs.insert(idx[0], d)
    else:
        k = ch.integer(0, len(idx))
        spec.defs.insert(idx[k] if k < len(idx) else idx[-1] + 1, d)


# ------------------------------------------------------------------------------------------------
# C11 profile: free field sequences with a computed expectation


def build_layout_program(ch: Chooser, auto_pad: Optional[bool] = None, import_coredefs: bool = False,
                         boundary: Optional[bool] = None) -> Program:
    """Field sequences over widths 1/2/4/8, arrays of any length, nested structs of alignment 1/2/4/8, struct
    arrays, reuse; NOT aligned by construction.  ``program.expect`` = {"outcome", "at"}: the first definition (in
    processing order) the compiler must reject and with which exception, or outcome "ok".  The program ends at
    that definition."""
    opts = {"auto_pad": ch.choice([True, False]) if auto_pad is None else auto_pad, "validate_alignment": True,
            "import_coredefs": import_coredefs}
    boundary = ch.chance(0.15) if boundary is None else boundary
    two = ch.chance(0.3)
    specs = [FileSpec(path="root.yaml")]
    if two:
        sub = ch.choice(["types.yaml", "lib/types.yaml", "./types.yaml"])
        tgt = posixpath.normpath(sub)
        specs[0].imports.append([sub, tgt])
        specs.append(FileSpec(path=tgt))
    for s in specs:
        s.indent = ch.cos.choice([2, 4])
    prog = Program(specs, "root.yaml", opts, "chain" if two else "single", {"layout-profile"}, wellformed=True)
    ctx = _Ctx(prog, ch)
    order = [specs[1], specs[0]] if two else [specs[0]]
    an_size: Dict[str, Tuple[int, int]] = {}  # natural (size, align) of aliases/structs/messages usable as types
    expect = {"outcome": "ok", "at": None}
    classes = prog.classes
    nrec_total = 0
    for si, spec in enumerate(order):
        aliases = []
        for _ in range(ch.weighted([(0, 3), (1, 2), (2, 1)])):
            n = ctx.fresh_name()
            prev = [a for a in an_size if prog_has_alias(specs, a)]
            st_imp = [d.name for s_ in order[:si] for d in s_.defs if d.kind == "struct" and d.name in an_size]
            if st_imp and ch.chance(0.5):
                t = ch.choice(st_imp)
                fl = ["alias-of-imported-struct"]
                classes.add("alias-of-imported-struct")
            elif prev and ch.chance(0.3):
                t = ch.choice(prev)
                fl = ["alias-of-alias"]
            else:
                t = ch.choice(BY_WIDTH[ch.choice([1, 2, 4, 8])])
                fl = ["alias-native"]
            spec.defs.append(Def("alias", n, spec.path, value=t, flags=fl))
            an_size[n] = an_size[t] if t in an_size else (NATIVES[t], NATIVES[t])
            aliases.append(n)
        kinds = ["struct"] * ch.integer(0 if si else 1, 4) + ["message"] * ch.integer(1 if spec is specs[0] else 0, 3)
        for kind in kinds:
            if expect["outcome"] != "ok":
                break
            nrec_total += 1
            name = ctx.fresh_name()
            mid = ctx.fresh_msg_id() if kind == "message" else None
            recs = [d for s in order[: si + 1] for d in s.defs if d.kind in (("struct", "message") if kind == "message" else ("struct",))
                    and d.name in an_size]
            d = None
            if recs and ch.chance(0.1):
                o = ch.choice(recs)
                d = Def(kind, name, spec.path, id=mid, reuse=o.name, flags=[kind, "reuse"])
            else:
                nf = ch.weighted([(1, 2), (2, 4), (3, 4), (4, 3), (5, 2), (7, 1)])
                fields, used = [], set()
                target = ch.choice([65535, 65536, 65534, 65537, 65528, 65532, 65529, 65540]) if boundary and ch.chance(0.6) else None
                off, maxal = 0, 1
                # "tidy": the user pads explicitly, so that nothing needs to be added (the accepted side of auto_pad off)
                tidy = ch.chance(0.3 if opts["auto_pad"] else 0.85)
                sloppy = tidy and ch.chance(0.12)  # ... but forgets one of the pads
                for k in range(nf):
                    cat = ch.weighted([("native", 8), ("alias", 2 if an_size and any(a in an_size for a in aliases_all(specs)) else 0),
                                       ("rec", 5 if recs else 0)])
                    if cat == "native":
                        base = ch.choice(BY_WIDTH[ch.choice([1, 2, 4, 8])])
                        es, al = NATIVES[base], NATIVES[base]
                    elif cat == "alias":
                        base = ch.choice([a for a in aliases_all(specs) if a in an_size])
                        es, al = an_size[base]
                    else:
                        base = ch.choice(recs).name
                        es, al = an_size[base]
                    length = None
                    if ch.chance(0.45):
                        mode = ch.weighted([("small", 6), ("set", 3), ("any", 2), ("huge", 1 if boundary else 0)])
                        if mode == "small":
                            length = ch.integer(1, 9)
                        elif mode == "set":
                            length = ch.choice(LENGTHS)
                        elif mode == "any":
                            length = ch.integer(1, max(1, 4000 // es))
                        else:
                            length = max(1, ch.choice([65535, 65536, 65530, 66000, 70000, 32768]) // es + ch.integer(-1, 1))
                    tt = base if length is None else f"{base}[{length}]"
                    gap = (-off) % al
                    if tidy and gap and not (sloppy and ch.chance(0.5)):
                        pb = ch.choice(["char", "uint8", "byte", "int8"])
                        if gap == 1 and ch.chance(0.5):
                            fields.append(FieldSpec(ctx.fresh_field(used), pb, pb))
                        else:
                            fields.append(FieldSpec(ctx.fresh_field(used), f"{pb}[{gap}]", pb, gap, str(gap)))
                        classes.add("explicit-padding")
                    fields.append(FieldSpec(ctx.fresh_field(used), tt, base, length, None if length is None else str(length)))
                    off += gap + es * (length or 1)
                    maxal = max(maxal, al)
                if target is not None and off < target:
                    # a final byte array that brings the natural size to (about) the target
                    k = target - off
                    fields.append(FieldSpec(ctx.fresh_field(used), f"char[{k}]", "char", k, str(k)))
                    off += k
                    classes.add("boundary-size")
                tail = (-off) % maxal
                if tidy and tail and not (sloppy and ch.chance(0.5)) and target is None:
                    fields.append(FieldSpec(ctx.fresh_field(used), f"uint8[{tail}]" if tail > 1 else "uint8", "uint8",
                                            tail if tail > 1 else None, str(tail) if tail > 1 else None))
                    classes.add("explicit-padding")
                d = Def(kind, name, spec.path, id=mid, fields=fields, flags=[kind])
            spec.defs.append(d)
            prog.rerender()
            lay = natural_layout(prog, name)
            an_size[name] = (lay.size, lay.align)
            if lay.own_padding:
                classes.add("needs-padding")
                d.flags.append("needs-padding")
            if d.reuse:
                classes.add("reuse")
            if any(f.length is not None and prog.resolve_type(f.base).kind != "native" for f in (d.fields or [])):
                classes.add("struct-array")
            for f in d.fields or []:
                r = prog.resolve_type(f.base)
                if r.kind != "native":
                    classes.add(f"nested-align-{type_size_align(prog, f.base)[1]}")
                if r.via:
                    classes.add("alias-field")
            if lay.own_padding and not opts["auto_pad"]:
                expect = {"outcome": "AlignmentError", "at": name}
            elif lay.size > MAX_SIZE:
                expect = {"outcome": "InvalidMessageSize", "at": name}
        if expect["outcome"] != "ok":
            break
    if not any(d.kind == "message" for s in specs for d in s.defs) and expect["outcome"] == "ok":
        spec = specs[0]
        spec.defs.append(Def("message", ctx.fresh_name(), spec.path, id=ctx.fresh_msg_id(),
                             fields=[FieldSpec("value", "int32", "int32")], flags=["message"]))
    prog.expect = expect
    prog.wellformed = expect["outcome"] == "ok"
    prog.rerender()
    probs = prog.problems()
    if prog.wellformed and probs:
        raise GeneratorBug("layout program expected ok but: " + "; ".join(probs[:4]))
    if not prog.wellformed and not all(q.startswith(expect["at"] + ":") for q in probs):
        raise GeneratorBug(f"layout program expected {expect} but: " + "; ".join(probs[:4]))
    return prog


def prog_has_alias(specs: List[FileSpec], name: str) -> bool:
    return any(d.kind == "alias" and d.name == name for s in specs for d in s.defs)


def aliases_all(specs: List[FileSpec]) -> List[str]:
    return [d.name for s in specs for d in s.defs if d.kind == "alias"]


def layout_programs(**kw):
    from hypothesis import strategies as st

    core_defs()  # load once outside the strategy (its imports touch the global random state)

    @st.composite
    def _lp(draw):
        return build_layout_program(HypChooser(draw), **kw)

    return _lp()


# ------------------------------------------------------------------------------------------------
# conflicts

PLACEMENTS = ["same", "parent-child", "siblings", "cousins"]
_ID_ITEMS = ["msg", "signal", "reserved"]
CONFLICT_KINDS = (
    [f"msgid/{a}-{b}" for a in _ID_ITEMS for b in _ID_ITEMS]
    + ["msgid/user-core", "modid/dup", "modid/user-core", "hostid/dup", "hostid/user-core"]
    + [f"name/{a}-{b}" for a in SHARED_KINDS for b in SHARED_KINDS]
    + [f"name/user-core/{a}" for a in SHARED_KINDS]
    + [f"generated-name/{pre}-{k}" for pre in ("MT", "MDF", "HASH", "MID", "HID") for k in ("constant", "string", "alias", "host", "struct")]
    + ["generated-name/user-core"]
    + ["range/msgid-low", "range/msgid-high", "range/reserved-low", "range/reserved-high", "range/modid-low",
       "range/modid-mid", "range/hostid-low", "range/hostid-high"]
)
RESERVED_SPELLINGS = ["int", "dash", "dash-tight", "to"]
RANGE_VALUES = {
    "range/msgid-low": [-1, -1000], "range/msgid-high": [10001, 65536, 2 ** 31], "range/reserved-low": [-3],
    "range/reserved-high": [10001, "9999 - 10001", "10001 to 10002"], "range/modid-low": [9, 1, -1], "range/modid-mid": [100, 150, 199],
    "range/hostid-low": [0, -1], "range/hostid-high": [32768, 70000],
}
NEEDS_CORE = {"generated-name/user-core", "msgid/user-core", "modid/user-core", "hostid/user-core", "range/modid-low", "range/modid-mid",
              "range/hostid-low", "range/hostid-high"} | {f"name/user-core/{a}" for a in SHARED_KINDS}


def file_pairs(program: Program, placement: str) -> List[Tuple[str, str]]:
    """Ordered pairs (A, B) of files that stand in the given relation in the import graph."""
    files = program.file_order
    clo = {f: program.closure(f) for f in files}
    direct = {f: {t for _, t in program.spec(f).imports if t != f} for f in files}
    out = []
    for a in files:
        for b in files:
            if placement == "same":
                if a == b:
                    out.append((a, b))
                continue
            if a == b:
                continue
            if placement == "parent-child":
                if b in direct[a] and a not in clo[b]:
                    out.append((a, b))
                continue
            if a in clo[b] or b in clo[a]:
                continue
            common = [p for p in files if a in direct[p] and b in direct[p]]
            if placement == "siblings" and common:
                out.append((a, b))
            if placement == "cousins" and not common and a != program.root and b != program.root:
                out.append((a, b))
    return out


def _reserved_entry(spelling: str, hit: int, pos: str, ch: Chooser, avoid: Set[int]):
    """A reserved entry that contains id ``hit`` at the start / middle / end of its range."""
    if spelling == "int":
        return [hit, [hit]]
    for n in (ch.choice([3, 4, 7]), 3, 2):
        if pos == "start":
            a = hit
        elif pos == "end":
            a = hit - n + 1
        else:
            a = hit - n // 2
            if n < 3:
                a = hit - 1
                n = 3
        ids = list(range(a, a + n))
        if a >= 0 and not any(i in avoid for i in ids if i != hit):
            break
    b = ids[-1]
    text = {"dash": f"{a} - {b}", "dash-tight": f"{a}-{b}", "to": f"{a} to {b}"}[spelling]
    return [text, ids]


# spellings of a reserved entry that no document shows but a user can plausibly write (several ranges in one quoted string, a chain,
# trailing or leading text, a single id as a string, a descending range).  Contract used by the checks: such an entry is either
# honoured IN FULL (every id it names is reserved) or rejected as a syntax error; silently reserving only a part is wrong.
LOOSE_RESERVED_SPELLINGS = ["multi-comma", "multi-space", "multi-semicolon", "multi-to", "chain", "garbage-and", "garbage-semicolon",
                            "string-id", "descending", "leading-garbage"]


def _reserved_entry_loose(spelling: str, h: int) -> list:
    """[quoted text, ids it names] with id ``h`` in the part that a first-match reading would drop (needs h-12 .. h+2 free)."""
    lo = list(range(h - 12, h - 9))
    near = [h - 1, h, h + 1]
    text, ids = {
        "multi-comma": (f"{h - 12}-{h - 10}, {h - 1}-{h + 1}", lo + near),
        "multi-space": (f"{h - 12} - {h - 10} {h - 1} - {h + 1}", lo + near),
        "multi-semicolon": (f"{h - 12}-{h - 10};{h - 1}-{h + 1}", lo + near),
        "multi-to": (f"{h - 12} to {h - 10}, {h - 1} to {h + 1}", lo + near),
        "chain": (f"{h - 12}-{h - 10}-{h + 2}", list(range(h - 12, h + 3))),
        "garbage-and": (f"{h - 12}-{h - 10} and {h}", lo + [h]),
        "garbage-semicolon": (f"{h - 12}-{h - 10};{h}", lo + [h]),
        "string-id": (f"{h}", [h]),
        "descending": (f"{h + 1}-{h - 1}", near),
        "leading-garbage": (f"x{h - 1}-{h + 1}", near),
    }[spelling]
    return [f'"{text}"', ids]


def _add_reserved(spec: FileSpec, entry: list, ch: Chooser, where: Optional[str] = None):
    for d in spec.defs:
        if d.kind == "reserved":
            if where == "first":
                d.entries.insert(0, entry)
            else:
                d.entries.append(entry)
            return d
    d = Def("reserved", "_RESERVED_", spec.path, entries=[entry], flags=["reserved"], style={"block_list": ch.chance(0.2)})
    _insert(spec, d, ch, where)
    return d


def _mk_named(kind: str, name: str, path: str, ctx: _Ctx, ch: Chooser, flavour: Optional[str] = None) -> Def:
    if kind == "constant":
        return Def("constant", name, path, value=7, text="7")
    if kind == "string":
        return Def("string", name, path, value="dup", style={"quote": '"'})
    if kind == "alias":
        return Def("alias", name, path, value=ch.choice(["int32", "double", "uint8"]))
    if kind == "struct":
        return Def("struct", name, path, fields=[FieldSpec("v", "int32", "int32")])
    if kind == "message":
        if flavour == "signal" or (flavour is None and ch.chance(0.3)):
            return Def("signal", name, path, id=ctx.fresh_msg_id())
        return Def("message", name, path, id=ctx.fresh_msg_id(), fields=[FieldSpec("v", "int32", "int32")])
    raise ValueError(kind)


def inject_conflict(program: Program, kind: str, placement: str, ch: Chooser, swap: bool = False,
                    variant: Optional[dict] = None, files: Optional[Tuple[str, str]] = None) -> Optional[Program]:
    """Copy of ``program`` (which must be well-formed) with exactly one conflict.  Item 1 goes to file A, item 2 to
    file B of a file pair with the requested placement (``swap`` exchanges the roles; in one file it exchanges the
    order).  Returns None when the import graph has no such pair.  The result's ``conflict`` dict names the files,
    the items and the acceptable exception class names."""
    if kind not in CONFLICT_KINDS or placement not in PLACEMENTS:
        raise ValueError((kind, placement))
    variant = dict(variant or {})
    pairs = file_pairs(program, placement)
    if files is not None:  # explicit location of the two items (the placement is then only a label)
        pairs = [tuple(files)]
    if not pairs:
        return None
    q = program.clone()
    q.wellformed = False
    if kind in NEEDS_CORE:
        q.options["import_coredefs"] = True
    fa, fb = ch.choice(pairs)
    if swap:
        fa, fb = fb, fa
    sa, sb = q.spec(fa), q.spec(fb)
    ctx = _Ctx(q, ch)
    same = fa == fb
    w1, w2 = (("first", "last") if not swap else ("last", "first")) if same else (None, None)
    expected: List[str]
    names: List[str] = []
    info: Dict[str, Any] = {}
    fam, _, rest = kind.partition("/")
    if fam == "msgid" and rest != "user-core":
        k1, k2 = rest.split("-")
        hit = ctx.fresh_msg_id(span=16)
        info["id"] = hit
        loose = False
        for k, spec, where, n in ((k1, sa, w1, 1), (k2, sb, w2, 2)):
            if k == "reserved":
                sp = variant.get(f"spelling{n}") or ch.choice(RESERVED_SPELLINGS)
                ps = variant.get(f"pos{n}") or ch.choice(["start", "mid", "end"])
                if sp in LOOSE_RESERVED_SPELLINGS:
                    ent = _reserved_entry_loose(sp, hit)
                    loose = True
                    info["loose_spelling"] = sp
                else:
                    ent = _reserved_entry(sp, hit, ps, ch, ctx.msg_ids - {hit})
                ctx.msg_ids.update(ent[1])
                _add_reserved(spec, ent, ch, where)
                names.append(f"_RESERVED_[{ent[0]}]")
                info[f"reserved{n}"] = {"spelling": sp, "pos": ps, "text": ent[0]}
            else:
                nm = ctx.fresh_name()
                d = (Def("signal", nm, spec.path, id=hit) if k == "signal"
                     else Def("message", nm, spec.path, id=hit, fields=[FieldSpec("v", "int32", "int32")]))
                _insert(spec, d, ch, where)
                names.append(nm)
        expected = ["MessageIDError"]
        if loose:  # undocumented spelling: honoured in full (=> the id conflict) or refused as a syntax error
            expected = ["MessageIDError", "RTMASyntaxError"]
    elif kind == "msgid/user-core":
        core = core_defs()
        hit = ch.choice(sorted(core["message_defs"].values()))
        info["id"] = hit
        how = variant.get("item") or ch.choice(_ID_ITEMS)
        if how == "reserved":
            sp = variant.get("spelling1") or ch.choice(RESERVED_SPELLINGS)
            ent = [hit, [hit]] if sp == "int" else [{"dash": f"{hit} - {hit}", "dash-tight": f"{hit}-{hit}", "to": f"{hit} to {hit}"}[sp], [hit]]
            _add_reserved(sa, ent, ch)
            names.append(f"_RESERVED_[{ent[0]}]")
        else:
            nm = ctx.fresh_name()
            d = Def("signal", nm, fa, id=hit) if how == "signal" else Def("message", nm, fa, id=hit, fields=[FieldSpec("v", "int32", "int32")])
            _insert(sa, d, ch)
            names.append(nm)
        fb = fa
        expected = ["MessageIDError"]
    elif kind in ("modid/dup", "hostid/dup"):
        k = "module" if kind.startswith("modid") else "host"
        hit = ctx.fresh_mod_id() if k == "module" else ctx.fresh_host_id()
        if variant.get("oor"):
            # an id outside the permitted range, which is tolerated when the core definitions are not imported (the range
            # checks are off then): two definitions sharing it are a conflict all the same
            hit = ch.choice([5, 150, -3, 0] if k == "module" else [0, -1, 32768, 40000])
        info["id"] = hit
        for spec, where in ((sa, w1), (sb, w2)):
            nm = ctx.fresh_name()
            _insert(spec, Def(k, nm, spec.path, value=hit), ch, where)
            names.append(nm)
        expected = ["ModuleIDError" if k == "module" else "HostIDError"]
    elif kind in ("modid/user-core", "hostid/user-core"):
        k = "module" if kind.startswith("modid") else "host"
        hit = 0 if k == "module" else 32767
        info["id"] = hit
        nm = ctx.fresh_name()
        _insert(sa, Def(k, nm, fa, value=hit), ch)
        names.append(nm)
        fb = fa
        expected = ["ModuleIDError" if k == "module" else "HostIDError"]
    elif fam == "name" and not rest.startswith("user-core"):
        k1, k2 = rest.split("-")
        nm = ctx.fresh_name()
        _insert(sa, _mk_named(k1, nm, fa, ctx, ch, variant.get("flavour1")), ch, w1)
        _insert(sb, _mk_named(k2, nm, fb, ctx, ch, variant.get("flavour2")), ch, w2)
        names = [nm, nm]
        expected = ["DuplicateNameError"]
        if same and SECTION_OF[k1] == SECTION_OF[k2]:
            expected = ["YAMLSyntaxError", "DuplicateNameError"]  # two identical keys in one YAML mapping
    elif fam == "name":
        k1 = rest.split("/")[1]
        core = core_defs()
        ns = variant.get("core_ns") or ch.choice(["constants", "aliases", "struct_defs", "message_defs"])
        pool = sorted(core[ns]) if not isinstance(core[ns], list) else sorted(core[ns])
        nm = variant.get("core_name") or ch.choice(pool)
        info["core_ns"] = ns
        _insert(sa, _mk_named(k1, nm, fa, ctx, ch, variant.get("flavour1")), ch)
        names = [nm]
        fb = fa
        expected = ["DuplicateNameError"]
    elif fam == "generated-name":
        # a definition emitted under its own name is called like the name the outputs generate for another definition
        if rest == "user-core":
            core = core_defs()
            pre, pool = ch.choice([("MT", sorted(core["message_defs"])), ("MDF", sorted(core["message_defs"])), ("HASH", sorted(core["message_defs"])),
                                   ("MID", sorted(core["module_ids"])), ("HID", sorted(core["host_ids"]))])
            x = ch.choice(pool)
            k2 = variant.get("bare") or ch.choice(list(BARE_NAME_KINDS))
            fb = fa
            sb = sa
        else:
            pre, k2 = rest.split("-")
            x = ctx.fresh_name()
            if pre in ("MT", "MDF", "HASH"):
                fl = variant.get("flavour1") or ch.choice(["message", "signal"])
                d1 = Def("signal", x, fa, id=ctx.fresh_msg_id()) if fl == "signal" else Def("message", x, fa, id=ctx.fresh_msg_id(), fields=[FieldSpec("v", "int32", "int32")])
            elif pre == "MID":
                d1 = Def("module", x, fa, value=ctx.fresh_mod_id())
            else:
                d1 = Def("host", x, fa, value=ctx.fresh_host_id())
            _insert(sa, d1, ch, w1)
        nm = f"{pre}_{x}"
        d2 = Def("host", nm, fb, value=ctx.fresh_host_id()) if k2 == "host" else _mk_named(k2, nm, fb, ctx, ch)
        _insert(sb, d2, ch, w2)
        names = [x, nm]
        info["generated_for"] = x
        expected = ["DuplicateNameError"]
    elif fam == "range":
        val = variant.get("value")
        if val is None:
            val = ch.choice(RANGE_VALUES[kind])
        if isinstance(val, str):
            # a range that crosses the limit also registers its in-range ids first: they must be free, or there would be two conflicts
            lo, hi = [int(x) for x in re.findall(r"\d+", val)]
            if any(i in ctx.msg_ids for i in range(lo, hi + 1) if i <= 10000):
                val = "10001 to 10002" if rest.startswith("reserved-high") else val
        info["value"] = val
        nm = ctx.fresh_name()
        if rest.startswith("msgid"):
            fl = variant.get("flavour1") or ch.choice(["message", "signal"])
            d = Def("signal", nm, fa, id=val) if fl == "signal" else Def("message", nm, fa, id=val, fields=[FieldSpec("v", "int32", "int32")])
            _insert(sa, d, ch)
        elif rest.startswith("reserved"):
            if isinstance(val, int):
                ent = [val, [val]]
            else:
                a, b = [int(x) for x in re.findall(r"\d+", val)]
                ent = [val, list(range(a, b + 1))]
            _add_reserved(sa, ent, ch)
            nm = f"_RESERVED_[{val}]"
        elif rest.startswith("modid"):
            _insert(sa, Def("module", nm, fa, value=val), ch)
        else:
            _insert(sa, Def("host", nm, fa, value=val), ch)
        names = [nm]
        fb = fa
        expected = ["RTMASyntaxError"]
    else:  # pragma: no cover
        raise ValueError(kind)
    q.conflict = {"kind": kind, "placement": placement, "swap": swap, "variant": variant, "files": [fa, fb], "names": names,
                  "expected": expected, **info}
    q.rerender()
    if not q.problems():
        raise GeneratorBug(f"injected conflict {kind} left the program well-formed")
    return q


def all_conflict_cases() -> List[dict]:
    """The full table kinds x placements (x order x reserved spelling x position in the range x boundary value)."""
    out = []

    def add(kind, placement, swap=False, **variant):
        out.append({"kind": kind, "placement": placement, "swap": swap, "variant": variant})

    def rvars(n):
        vs = [{f"spelling{n}": "int"}]
        for sp in RESERVED_SPELLINGS[1:]:
            for ps in ("start", "mid", "end"):
                vs.append({f"spelling{n}": sp, f"pos{n}": ps})
        return vs

    for pl in PLACEMENTS:
        for swap in (False, True):
            for a in ("msg", "signal"):
                for b in ("msg", "signal"):
                    add(f"msgid/{a}-{b}", pl, swap)
                for v in rvars(2):
                    add(f"msgid/{a}-reserved", pl, swap, **v)
                for v in rvars(1):
                    add(f"msgid/reserved-{a}", pl, swap, **v)
            for v1, v2 in (("int", "int"), ("int", "dash"), ("dash", "to"), ("to", "dash-tight"), ("dash-tight", "int")):
                for ps in ("start", "end"):
                    add("msgid/reserved-reserved", pl, swap, spelling1=v1, spelling2=v2, pos1=ps, pos2="end" if ps == "start" else "start")
            add("modid/dup", pl, swap)
            add("hostid/dup", pl, swap)
            add("modid/dup", pl, swap, oor=1)
            add("hostid/dup", pl, swap, oor=1)
        for pre in ("MT", "MDF", "HASH", "MID", "HID"):
            for k in ("constant", "string", "alias", "host", "struct"):
                add(f"generated-name/{pre}-{k}", pl, False, flavour1="message")
                add(f"generated-name/{pre}-{k}", pl, True, flavour1="signal")
        for sp in LOOSE_RESERVED_SPELLINGS:
            add("msgid/msg-reserved", pl, False, spelling2=sp)
            add("msgid/reserved-signal", pl, True, spelling1=sp)
        for a in SHARED_KINDS:
            for b in SHARED_KINDS:
                add(f"name/{a}-{b}", pl, False, flavour1="message", flavour2="message")
                if "message" in (a, b):
                    add(f"name/{a}-{b}", pl, False, flavour1="signal", flavour2="signal")
    for pl in ("same", "parent-child", "cousins"):  # for single-item kinds the placement only selects the file
        for swap in (False, True):
            for item in _ID_ITEMS:
                add("msgid/user-core", pl, swap, item=item, spelling1="int")
            add("msgid/user-core", pl, swap, item="reserved", spelling1="to")
            add("modid/user-core", pl, swap)
            add("hostid/user-core", pl, swap)
            for kind, vals in RANGE_VALUES.items():
                for v in vals:
                    if kind.startswith("range/msgid"):
                        add(kind, pl, swap, value=v, flavour1="message")
                        add(kind, pl, swap, value=v, flavour1="signal")
                    else:
                        add(kind, pl, swap, value=v)
    for k in BARE_NAME_KINDS:
        add("generated-name/user-core", "same", False, bare=k)
        add("generated-name/user-core", "cousins", True, bare=k)
    for a in SHARED_KINDS:
        for ns in ("constants", "aliases", "struct_defs", "message_defs"):
            add(f"name/user-core/{a}", "same", False, core_ns=ns)
            add(f"name/user-core/{a}", "cousins", True, core_ns=ns)
    return out


def conflict_programs(kinds: Optional[Sequence[str]] = None, placements: Optional[Sequence[str]] = None, **kw):
    from hypothesis import strategies as st

    kw.setdefault("skeleton", True)
    core_defs()

    @st.composite
    def _cp(draw):
        ch = HypChooser(draw)
        base = build_program(ch, **kw)
        kind = ch.choice(list(kinds or CONFLICT_KINDS))
        pls = [pl for pl in (placements or PLACEMENTS) if file_pairs(base, pl)]
        variant = {}
        if kind.startswith("msgid/") and "reserved" in kind and kind != "msgid/user-core" and ch.chance(0.3):
            n = 1 if kind.split("/")[1].startswith("reserved") else 2
            variant[f"spelling{n}"] = ch.choice(LOOSE_RESERVED_SPELLINGS)  # undocumented way of writing the reservation
        q = inject_conflict(base, kind, ch.choice(pls), ch, swap=ch.chance(0.5), variant=variant)
        return q

    return _cp()


# ------------------------------------------------------------------------------------------------
# single edits of one message, relocation, noise (C13)

EDIT_KINDS = ["rename", "id", "field-rename", "field-type", "field-insert", "field-delete", "field-reorder", "to-signal",
              "to-message"]


def _references(program: Program, name: str) -> List[Def]:
    out = []
    for d in program.defs:
        if d.reuse == name or (d.kind == "alias" and d.value == name) or any(f.base == name for f in (d.fields or [])):
            out.append(d)
    return out


def applicable_edits(program: Program, name: str) -> List[str]:
    d = program.by_name(name)
    if d.kind == "signal":
        return ["rename", "id", "to-message"]
    if d.kind != "message":
        return []
    out = ["rename", "id"]
    if d.fields is not None:
        out += ["field-rename", "field-type", "field-insert"]
        if len(d.fields) >= 2:
            out += ["field-delete", "field-reorder"]
    if not _references(program, name):
        out.append("to-signal")
    return out


def _retext(f: FieldSpec, base: Optional[str] = None, length="keep", ltext=None):
    if base is not None:
        f.base = base
    if length != "keep":
        f.length, f.length_text = length, (None if length is None else (ltext or str(length)))
    f.type_text = f.base if f.length is None else f"{f.base}[{f.length_text}]"


def edit(program: Program, message_name: str, kind: str, ch: Chooser) -> Optional[Program]:
    """One single edit of one message definition; every other message keeps its name, id and field texts (a rename
    also rewrites the references to the message).  Returns None when the edit is not applicable or no variant of it
    keeps the closure well-formed."""
    if kind not in applicable_edits(program, message_name):
        return None
    for attempt in range(12):
        q = program.clone()
        q.relocated = None
        d = q.by_name(message_name)
        ctx = _Ctx(q, ch)
        new_name = message_name
        what = ""
        if kind == "rename":
            new_name = ctx.fresh_name() if ch.chance(0.8) else message_name + ch.choice(["_2", "X", "_V2", "A"])
            if new_name in ctx.names and new_name != message_name and not new_name.startswith(message_name):
                pass
            for o in q.defs:
                if o.reuse == message_name:
                    o.reuse = new_name
                for f in o.fields or []:
                    if f.base == message_name:
                        _retext(f, base=new_name)
            d.name = new_name
            what = f"{message_name} -> {new_name}"
        elif kind == "id":
            old = d.id
            d.id = ctx.fresh_msg_id(span=0) if ch.chance(0.7) else None
            if d.id is None:
                for delta in (1, -1, 10, 2, 3):
                    if old + delta not in ctx.msg_ids and 0 <= old + delta <= 9999:
                        d.id = old + delta
                        break
                else:
                    d.id = ctx.fresh_msg_id(span=0)
            d.style.pop("id_text", None)
            what = f"id {old} -> {d.id}"
        elif kind == "field-rename":
            f = ch.choice(d.fields)
            used = {x.name for x in d.fields}
            old = f.name
            f.name = ctx.fresh_field(used) if ch.chance(0.7) else old + ch.choice(["2", "_b", "x"])
            if f.name in used - {f.name} and f.name != old:
                pass
            what = f"field {old} -> {f.name}"
        elif kind == "field-type":
            f = ch.choice(d.fields)
            old = f.type_text
            r = q.resolve_type(f.base)
            how = ch.weighted([("same-width", 4), ("any-native", 2), ("length", 3), ("toggle-array", 2)])
            if how == "same-width" and r.kind == "native":
                c = [n for n in BY_WIDTH[NATIVES[r.name]] if n != f.base]
                _retext(f, base=ch.choice(c))
            elif how == "any-native" or (how == "same-width" and r.kind != "native"):
                _retext(f, base=ch.choice([n for n in NATIVE_NAMES if n != f.base]))
            elif how == "length" and f.length is not None:
                _retext(f, length=ch.choice([L for L in (f.length + 1, f.length * 2, max(1, f.length - 1), 4, 6) if L != f.length]))
            elif f.length is None:
                _retext(f, length=ch.choice([2, 4, 8]))
            else:
                _retext(f, length=None)
            if f.type_text.replace(" ", "") == old.replace(" ", ""):
                continue
            what = f"field {f.name}: {old} -> {f.type_text}"
        elif kind == "field-insert":
            used = {x.name for x in d.fields}
            base = ch.choice(NATIVE_NAMES)
            nf = FieldSpec(ctx.fresh_field(used), base, base)
            if ch.chance(0.3):
                _retext(nf, length=ch.choice([2, 4, 8]))
            k = ch.integer(0, len(d.fields))
            d.fields.insert(k, nf)
            what = f"insert {nf.name}: {nf.type_text} at {k}"
        elif kind == "field-delete":
            k = ch.integer(0, len(d.fields) - 1)
            what = f"delete {d.fields[k].name}"
            del d.fields[k]
        elif kind == "field-reorder":
            i = ch.integer(0, len(d.fields) - 2)
            j = ch.integer(i + 1, len(d.fields) - 1)
            d.fields[i], d.fields[j] = d.fields[j], d.fields[i]
            what = f"swap fields {i} and {j}"
        elif kind == "to-signal":
            d.kind, d.fields, d.reuse = "signal", None, None
            what = "message -> signal"
        elif kind == "to-message":
            d.kind = "message"
            base = ch.choice(["int32", "double", "uint8", "int16"])
            d.fields = [FieldSpec(ctx.fresh_field(set()), base, base)]
            what = "signal -> message"
        q.edited = {"kind": kind, "old": message_name, "new": new_name, "what": what}
        q.rerender()
        if not q.problems():
            return q
    return None


def relocate(program: Program, message_name: str, ch: Chooser, new_file: Optional[bool] = None) -> Optional[Program]:
    """Move one message definition into another file of the import graph (or into a new file, possibly in a new
    directory, that an existing file imports).  Its name, id and field texts are untouched.  None when no target
    keeps the closure well-formed."""
    d0 = program.by_name(message_name)
    if d0.kind not in ("message", "signal"):
        return None
    targets = [f for f in program.file_order if f != d0.file]
    cands: List[Tuple[str, Optional[str]]] = [(t, None) for t in ch.shuffled(targets)]
    fresh = [(None, imp) for imp in ch.shuffled(program.file_order)]
    if new_file is True:
        cands = fresh
    elif new_file is None:
        cands = cands + fresh if ch.chance(0.7) else fresh + cands
    for tgt, importer in cands[:8]:
        q = program.clone()
        q.edited = None
        src = q.spec(d0.file)
        d = [x for x in src.defs if x.name == message_name and x.kind == d0.kind][0]
        src.defs.remove(d)
        created = False
        if tgt is None:
            dirs = sorted({posixpath.dirname(s.path) for s in q.specs}) + ["moved", "deep/er", "core_defs", "lib/core_defs"]
            dd = ch.cos.choice(dirs)
            base = ch.cos.choice(["moved", "relocated", "split", "part"])
            k = 0
            tgt = (dd + "/" if dd else "") + base + ".yaml"
            while any(s.path == tgt for s in q.specs):
                k += 1
                tgt = (dd + "/" if dd else "") + f"{base}{k}.yaml"
            ns = FileSpec(path=tgt, indent=ch.cos.choice([2, 4]))
            q.specs.append(ns)
            isp = q.spec(importer)
            sp = _spell(ch, importer, tgt, [], variant=0)
            isp.imports.insert(ch.integer(0, len(isp.imports)), [sp, tgt])
            created = True
        d.file = tgt
        _insert(q.spec(tgt), d, ch)
        q.relocated = {"name": message_name, "from": d0.file, "to": tgt, "new_file": created}
        q.rerender()
        if not q.problems():
            return q
    return None


def add_noise(program: Program, ch: Chooser, intensity: int = 3) -> Program:
    """Text-level and unrelated-definition changes that leave every existing definition's name, id and field
    texts alone: comments, blank lines, indentation, section order, null sections, key spacing, quoting, id written
    in hex, id/fields key order, unrelated new definitions, import reordering / respelling / an extra import edge
    (the latter three only when the closure stays well-formed).  ``result.noise`` lists what was done."""
    q = program.clone()
    done: List[str] = []
    ctx = _Ctx(q, ch)
    for _ in range(max(1, intensity)):
        op = ch.choice(["comments", "blank", "indent", "sections", "nulls", "spacing", "quote", "hexid", "idlast", "newdefs",
                        "imports-order", "respell", "extra-import", "header"])
        s = ch.choice(q.specs)
        cs = ch.cos
        if op == "comments":
            for d in s.defs:
                if cs.chance(0.4):
                    d.pre.append(cs.choice(["", "  "]) + "# " + cs.choice(_COMMENT_WORDS))
                if cs.chance(0.3):
                    d.post = cs.choice(_COMMENT_WORDS)
                for f in d.fields or []:
                    if cs.chance(0.3):
                        f.comment = cs.choice(_COMMENT_WORDS)
        elif op == "blank":
            for d in s.defs:
                if cs.chance(0.5):
                    d.pre.insert(0, "")
        elif op == "indent":
            s.indent = 6 - s.indent if s.indent in (2, 4) else 2
        elif op == "sections":
            s.section_order = cs.shuffled(s.section_order)
        elif op == "nulls":
            s.null_sections = [sec for sec in ["imports"] + SECTIONS if cs.chance(0.4)]
        elif op == "spacing":
            for d in s.defs:
                for f in d.fields or []:
                    if cs.chance(0.5):
                        f.sep = cs.choice([":  ", " : ", ":   "])
        elif op == "quote":
            for d in s.defs:
                if d.fields and cs.chance(0.5):
                    d.style["quote_types"] = not d.style.get("quote_types")
        elif op == "hexid":
            for d in s.defs:
                if d.kind in ("message", "signal") and cs.chance(0.5):
                    d.style["id_text"] = hex(d.id)
        elif op == "idlast":
            for d in s.defs:
                if d.kind in ("message", "signal") and cs.chance(0.5):
                    d.style["id_last"] = not d.style.get("id_last")
        elif op == "header":
            s.header = ["# " + cs.choice(_COMMENT_WORDS), ""] + s.header
        elif op == "newdefs":
            for _k in range(ch.integer(1, 3)):
                kind = ch.choice(["constant", "string", "alias", "struct", "message", "signal", "host", "module"])
                nm = ctx.fresh_name()
                if kind in ("constant", "string", "alias", "struct"):
                    d = _mk_named(kind, nm, s.path, ctx, ch)
                elif kind == "message":
                    d = Def("message", nm, s.path, id=ctx.fresh_msg_id(), fields=[FieldSpec("a", "double", "double"), FieldSpec("b", "int32[2]", "int32", 2, "2")])
                elif kind == "signal":
                    d = Def("signal", nm, s.path, id=ctx.fresh_msg_id())
                elif kind == "host":
                    d = Def("host", nm, s.path, value=ctx.fresh_host_id())
                else:
                    d = Def("module", nm, s.path, value=ctx.fresh_mod_id())
                _insert(s, d, ch)
        elif op in ("imports-order", "respell", "extra-import"):
            trial = q.clone()
            t = trial.spec(s.path)
            if op == "imports-order":
                if len(t.imports) < 2:
                    continue
                t.imports = ch.shuffled(t.imports)
            elif op == "respell":
                if not t.imports:
                    continue
                k = ch.integer(0, len(t.imports) - 1)
                dirs = sorted({posixpath.dirname(x.path) for x in trial.specs})
                t.imports[k][0] = _spell(ch, t.path, t.imports[k][1], dirs, variant=ch.integer(0, 2))
            else:
                other = ch.choice(trial.specs).path
                dirs = sorted({posixpath.dirname(x.path) for x in trial.specs})
                t.imports.insert(ch.integer(0, len(t.imports)), [_spell(ch, t.path, other, dirs, variant=0), other])
            trial.rerender()
            if trial.problems():
                continue
            q = trial
            ctx.p = q
        done.append(op)
        q.rerender()
    q.noise = done
    q.rerender()
    probs = q.problems()
    if probs:
        raise GeneratorBug("add_noise broke the program: " + "; ".join(probs[:4]))
    return q


# ------------------------------------------------------------------------------------------------
# drivers (the only part that touches pyrtma; imported lazily so that the model above stays independent)


@dataclass
class ParseOutcome:
    outcome: str  # "ok" or the exception class name
    parser: Any = None
    exc: Optional[BaseException] = None
    root: Optional[str] = None

    @property
    def ok(self) -> bool:
        return self.outcome == "ok"


def quiet():
    """Silence pyrtma's console chatter (parser INFO lines on stderr, compile()'s progress prints on stdout, rich's
    traceback hook, black).  Idempotent; call once per process before parsing/compiling."""
    import logging
    import sys

    logging.disable(logging.CRITICAL)
    try:
        import pyrtma.compile as pc
        import pyrtma.compilers.python as pyc

        sys.excepthook = sys.__excepthook__
        if not hasattr(pyc, "subprocess"):
            raise GeneratorBug("seam pyrtma.compilers.python.subprocess is gone")

        class _NoBlack:
            @staticmethod
            def run(*a, **k):
                return None

        if not isinstance(pyc.subprocess, type) or pyc.subprocess.__name__ != "_NoBlack":
            pyc._real_subprocess = pyc.subprocess
            pyc.subprocess = _NoBlack
        pc.print = lambda *a, **k: None
    except ImportError:
        pass


def scratch_dir(prefix: str = "defgen") -> str:
    import tempfile

    base = "/dev/shm" if os.path.isdir("/dev/shm") and os.access("/dev/shm", os.W_OK) else None
    return tempfile.mkdtemp(prefix=prefix + "-", dir=base)


class _ParseTimeout(BaseException):
    pass


def parse_program(program: Program, dirpath: Optional[str] = None, keep: bool = False, timeout: float = 60.0) -> ParseOutcome:
    """Materialise the program (in a fresh scratch directory unless ``dirpath`` is given) and run the real
    ``Parser(**options).parse(root)``.  Never raises for parser failures: the exception is in the outcome.
    A parse (normally 2-60 ms) that is still running after ``timeout`` seconds is interrupted (SIGALRM, main thread
    only) and reported as outcome "Timeout" - callers count that as inconclusive, never as a verdict."""
    import logging
    import shutil
    import signal
    import threading
    from pyrtma.parser import Parser

    use_alarm = timeout and threading.current_thread() is threading.main_thread() and hasattr(signal, "setitimer")

    def _on_alarm(signum, frame):
        raise _ParseTimeout()

    own = dirpath is None
    d = scratch_dir() if own else dirpath
    cwd = os.getcwd()
    try:
        root = program.write(d)
        ps = Parser(**program.compile_kwargs())
        # a bystander with the opposite switches, built after the parser under test and before it is used: the options of
        # one Parser object are its own (another instance alive in the process must not change them)
        kw = program.compile_kwargs()
        _bystander = Parser(**{k: (not v if isinstance(v, bool) and k in ("auto_pad", "validate_alignment") else v) for k, v in kw.items()})
        prev = None
        try:
            if use_alarm:
                prev = signal.signal(signal.SIGALRM, _on_alarm)
                signal.setitimer(signal.ITIMER_REAL, timeout)
            ps.parse(root)
            out = ParseOutcome("ok", ps, None, root)
        except _ParseTimeout:
            out = ParseOutcome("Timeout", None, None, root)
        except BaseException as e:  # noqa
            if isinstance(e, (KeyboardInterrupt, SystemExit)):
                raise
            out = ParseOutcome(type(e).__name__, None, e, root)
        finally:
            if use_alarm:
                signal.setitimer(signal.ITIMER_REAL, 0)
                signal.signal(signal.SIGALRM, prev)
            for h in list(ps.logger.handlers):
                ps.logger.removeHandler(h)
            logging.Logger.manager.loggerDict.pop(ps.logger.name, None)
        return out
    finally:
        try:
            os.chdir(cwd)
        except OSError:
            pass
        if own and not keep:
            shutil.rmtree(d, ignore_errors=True)


class ShrinkBudget:
    """Bounds the effort Hypothesis spends minimising a failure when generation itself is not free: once
    ``seconds`` have passed since the first violation, the wrapped strategy draws nothing and yields None, and the
    wrapped body ignores None, so the remaining shrink attempts cost nothing.

        sb = ShrinkBudget(15); hyp_run(sb.body(check), sb.wrap(programs()), seed, n, res)
    """

    def __init__(self, seconds: float = 15.0):
        self.seconds = seconds
        self.t0 = None

    def expired(self) -> bool:
        import time

        return self.t0 is not None and time.time() - self.t0 > self.seconds

    def wrap(self, strategy):
        from hypothesis import strategies as st

        self._none = st.just(None)

        @st.composite
        def _g(draw):
            if self.expired():
                return draw(self._none)
            return draw(strategy)

        return _g()

    def body(self, fn):
        import time

        def _b(value):
            if value is None:
                return
            try:
                fn(value)
            except Exception as e:  # noqa
                if type(e).__name__ == "Violation" and self.t0 is None:
                    self.t0 = time.time()
                raise

        return _b
