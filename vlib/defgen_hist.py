"""Generator classes for compile HISTORIES and for the combined-YAML round trip (C16) and for field-list reuse (C13).

Everything here builds on vlib.defgen (imported, never modified); every choice goes through a defgen.Chooser, so the same
code runs under Hypothesis (HypChooser) and from a seed (RandomChooser).

Closures that re-use NAMES of an earlier closure with another meaning (state kept by a long-lived compiler process is keyed
by names):
    derive_closure(prev, ch) -> Program | None
        a copy of ``prev`` (same files, same names) after 2-6 name-keeping edits; classes "derived", "derived/<edit>":
        alias-retarget   an alias gets another base type (int16 -> double, alias of a struct -> native ...)
        kind-flip        a struct becomes a message (fresh id) or a message becomes a struct, same name and fields
        fields-change    a struct/message keeps its name and gets another field list (retyped / inserted / deleted / swapped fields)
        constant-value   an integer constant gets another value (dependent constants and array lengths are recomputed)
        id-change        a message/signal keeps its name and gets another id
        every edit is kept only if the closure stays well-formed by the independent checker (Program.problems())
    transplant_names(new, old, ch) -> Program | None
        ``new`` (an unrelated closure) with up to 6 of its alias/struct/message/signal names replaced by names that ``old``
        uses for definitions of the same or ANOTHER kind (alias <-> struct <-> message); classes "transplant",
        "transplant/<old kind>-as-<new kind>"
    rename_defs(program, mapping) -> Program    consistent renaming of aliases/structs/messages/signals (references included)
Compiler options written in files:
    with_file_options(program, ch, root="consistent"|"random"|None, imported=True) -> Program
        ``compiler_options:`` sections in imported files (any values: only the root file's options are ever honoured, and only
        by the command line; class "imported-file-options") and in the root file (root="consistent": exactly program.options, so
        that `python -m pyrtma.compile` without switches compiles it like compile(**program.compile_kwargs()); class
        "root-file-options/consistent"; root="random": any values - compile() ignores them; class "root-file-options/random")
Long field type texts:
    with_long_type_text(program, ch) -> Program | None
        one array field gets its length written as an expression over three new constants with long names and two or three
        blanks around the operators, > 90 columns (class "long-type-text"); value unchanged
User definitions that embed CORE structs / messages (model-free: the independent layout model does not know the core types):
    core_embedding_program(ch, ...) -> Program   import_coredefs on; 1-2 files; user structs with fields of native and core
        struct types, user messages with fields of native, core struct, core message and user struct types, preferably at offsets
        that are multiples of 4 but not of 8; class "core-embedding".  Program.problems() is NOT meaningful for these.
    core_kind(name) -> "struct" | "message" | "signal" | "alias" | None   kind of a core definition
Field-list reuse (C13):
    edit_reused_fields(program, ch) -> Program | None
        one single field edit (insert / delete / retype / swap) of a struct or message whose field list other messages copy
        with ``fields: NAME``; result.edited = {"kind": "reused-fields/<edit>", "old": NAME, "new": NAME, "what", "users": [messages
        that copy NAME's fields]}
Editions of a definition (C13):
    layout_preserving_edit(program, ch, max_messages=2) -> Program | None
        1-2 messages keep their name, id and MEMORY LAYOUT and get another definition TEXT (hence another version hash): a field type
        replaced by a native name of the same width, kind and ctypes class (int -> int32, unsigned int -> uint32, long -> int32, short ->
        int16, byte -> uint8 ...: SAME_CTYPE), an alias replaced by the native it stands for, an array length written differently
        (char[MAX_LEN] -> char[32], int32[8] -> int32[4 * 2]); result.edited = {"kind": "layout-preserving", "names": [messages], "old",
        "new", "what"}; messages whose fields are all natives / aliases of natives are preferred (their two editions are
        indistinguishable by name, id, size and ctypes fields)
"""
from __future__ import annotations

import copy
import os
import re
from typing import Dict, List, Optional, Sequence

from vlib import defgen as G

DERIVE_EDITS = ["alias-retarget", "kind-flip", "fields-change", "constant-value", "id-change"]


def _snapshot(q: G.Program):
    return copy.deepcopy(q.specs)


def _restore(q: G.Program, specs):
    q.specs = specs
    q.rerender()


def _find(q: G.Program, name: str, kinds: Sequence[str]) -> Optional[G.Def]:
    for s in q.specs:
        for d in s.defs:
            if d.name == name and d.kind in kinds:
                return d
    return None


# ------------------------------------------------------------------------------------------------
# constants: recompute what depends on a changed value


def _recompute_values(q: G.Program) -> bool:
    """Re-evaluate every expression constant and every array-length text in processing order with the word-bounded
    substitution the documented grammar describes.  False when something does not evaluate to a usable value."""
    consts = dict(G.core_defs()["constants"]) if q.import_coredefs else {}
    q.rerender()
    ok = True

    def ev(text):
        expr = str(text)
        for sym in dict.fromkeys(re.findall(r"\b[a-zA-Z_]+\w*\b", expr)):
            if re.fullmatch(r"0[xX][0-9a-fA-F]+", sym) or re.fullmatch(r"[eE]\d*", sym):
                continue
            if sym not in consts:
                return None
            expr = re.sub(rf"\b{sym}\b", str(consts[sym]), expr)
        if not re.fullmatch(r"[0-9a-fA-FxX.+\-*/() eE]*", expr):
            return None
        try:
            return eval(expr, {"__builtins__": {}}, {})
        except Exception:  # noqa
            return None

    for d in q.defs:
        if d.kind == "constant":
            if isinstance(d.text, str) and re.search(r"[A-Za-z_]", d.text) and not re.fullmatch(r"0[xX][0-9a-fA-F]+", d.text.strip()):
                v = ev(d.text)
                if v is None:
                    ok = False
                else:
                    d.value = v
            consts[d.name] = d.value
        elif d.kind in ("struct", "message") and d.fields:
            for f in d.fields:
                if f.length is None:
                    continue
                m = re.match(r"\s*[\s\w]*\[(?P<l>.*)\]", f.type_text)
                if not m or not re.search(r"[A-Za-z_]", m.group("l")):
                    continue
                v = ev(m.group("l"))
                if v is None or v != int(v) or int(v) < 1:
                    ok = False
                else:
                    f.length = int(v)
    q.rerender()
    return ok


# ------------------------------------------------------------------------------------------------
# closure k+1 = closure k with the same names and other meanings


def _edit_alias(q: G.Program, ch: G.Chooser) -> Optional[str]:
    al = [d for d in q.defs if d.kind == "alias"]
    if not al:
        return None
    used = {f.base for d in q.defs for f in (d.fields or [])}
    pref = [d for d in al if d.name in used] or al
    d = ch.choice(pref if ch.chance(0.8) else al)
    try:
        r = q.resolve_type(d.value)
    except Exception:  # noqa
        return None
    old = d.value
    if r.kind == "native":
        width = G.NATIVES[r.name]
        kind = G.NATIVE_KIND[r.name]
        strict = q.validate_alignment and not q.auto_pad
        same_w = [n for n in G.BY_WIDTH[width] if G.NATIVE_KIND[n] != kind] or [n for n in G.BY_WIDTH[width] if n != r.name]
        other = [n for n in G.NATIVE_NAMES if G.NATIVE_KIND[n] != kind and G.NATIVES[n] != width]
        pool = same_w if (strict or ch.chance(0.4) or not other) else other
        d.value = ch.choice(pool)
    else:
        d.value = ch.choice(["double", "int32", "int16", "uint8", "float", "char"])
    d.flags = [fl for fl in d.flags if not fl.startswith("alias-")] + ["alias-native"]
    return f"alias {d.name}: {old} -> {d.value}"


def _edit_kind(q: G.Program, ch: G.Chooser) -> Optional[str]:
    cands = [d for d in q.defs if d.kind in ("struct", "message") and not any(o.kind == "alias" and o.value == d.name for o in q.defs)]
    if not cands:
        return None
    used = {f.base for o in q.defs for f in (o.fields or [])}
    pref = [d for d in cands if d.name in used] or cands
    d = ch.choice(pref if ch.chance(0.8) else cands)
    spec = q.spec(d.file)
    d = _find(q, d.name, ("struct", "message"))
    if d.kind == "struct":
        d.kind, d.id = "message", G._Ctx(q, ch).fresh_msg_id()
        what = f"struct {d.name} -> message {d.name} (id {d.id})"
    else:
        d.kind, d.id = "struct", None
        for k in ("id_text", "id_last"):
            d.style.pop(k, None)
        what = f"message {d.name} -> struct {d.name}"
    # sections are rendered by kind; inside its new section the definition comes first as a message (every message of the
    # file may use it) and last as a struct (it may use every struct of the file)
    rest = [x for x in spec.defs if x is not d]
    spec.defs = [d] + rest if d.kind == "message" else rest + [d]
    return what


def _edit_fields(q: G.Program, ch: G.Chooser) -> Optional[str]:
    cands = [d for d in q.defs if d.kind in ("struct", "message") and d.fields]
    if not cands:
        return None
    d0 = ch.choice(cands)
    d = _find(q, d0.name, ("struct", "message"))
    strict = q.validate_alignment and not q.auto_pad
    how = ch.weighted([("retype", 4), ("insert", 0 if strict else 2), ("delete", 0 if strict or len(d.fields) < 2 else 2), ("swap", 0 if strict or len(d.fields) < 2 else 1)])
    if how == "retype":
        nat = [f for f in d.fields if f.base in G.NATIVES]
        if not nat:
            return None
        f = ch.choice(nat)
        old = f.type_text
        w = G.NATIVES[f.base]
        pool = [n for n in G.BY_WIDTH[w] if G.NATIVE_KIND[n] != G.NATIVE_KIND[f.base]] or [n for n in G.BY_WIDTH[w] if n != f.base]
        if not strict and ch.chance(0.4):
            pool = [n for n in G.NATIVE_NAMES if n != f.base]
        G._retext(f, base=ch.choice(pool))
        return f"{d.name}.{f.name}: {old} -> {f.type_text}"
    if how == "insert":
        base = ch.choice(G.NATIVE_NAMES)
        nf = G.FieldSpec(G._Ctx(q, ch).fresh_field({x.name for x in d.fields}), base, base)
        if ch.chance(0.3):
            G._retext(nf, length=ch.choice([2, 3, 8]))
        k = ch.integer(0, len(d.fields))
        d.fields.insert(k, nf)
        return f"{d.name}: insert {nf.name}: {nf.type_text} at {k}"
    if how == "delete":
        k = ch.integer(0, len(d.fields) - 1)
        what = f"{d.name}: delete {d.fields[k].name}"
        del d.fields[k]
        return what
    i = ch.integer(0, len(d.fields) - 2)
    d.fields[i], d.fields[i + 1] = d.fields[i + 1], d.fields[i]
    return f"{d.name}: swap fields {i} and {i + 1}"


def _edit_constant(q: G.Program, ch: G.Chooser) -> Optional[str]:
    cands = [d for d in q.defs if d.kind == "constant" and isinstance(d.value, int) and not isinstance(d.value, bool)
             and isinstance(d.text, str) and re.fullmatch(r"\s*(\d+|0[xX][0-9a-fA-F]+)\s*", d.text)]
    if not cands:
        return None
    d0 = ch.choice(cands)
    d = _find(q, d0.name, ("constant",))
    old = d.value
    new = ch.choice([v for v in (old + 1, old * 2, max(1, old - 1), max(1, old // 2), old + 8) if v != old])
    d.value, d.text = new, (hex(new) if d.text.strip().lower().startswith("0x") else str(new))
    if not _recompute_values(q):
        return None
    return f"constant {d.name}: {old} -> {new}"


def _edit_id(q: G.Program, ch: G.Chooser) -> Optional[str]:
    cands = [d for d in q.defs if d.kind in ("message", "signal")]
    if not cands:
        return None
    d0 = ch.choice(cands)
    d = _find(q, d0.name, ("message", "signal"))
    old = d.id
    d.id = G._Ctx(q, ch).fresh_msg_id()
    d.style.pop("id_text", None)
    return f"{d.name}: id {old} -> {d.id}"


_EDITS = {"alias-retarget": _edit_alias, "kind-flip": _edit_kind, "fields-change": _edit_fields, "constant-value": _edit_constant, "id-change": _edit_id}


def derive_closure(prev: G.Program, ch: G.Chooser, min_edits: int = 2, max_edits: int = 6) -> Optional[G.Program]:
    """The same files and names as ``prev`` with other meanings.  None when not a single edit could be applied."""
    q = prev.clone()
    q.edited = q.relocated = q.conflict = None
    q.rerender()
    if q.problems():
        return None
    want = ch.integer(min_edits, max_edits)
    # the two edits that change what a field TYPE NAME means come first, then a drawn mixture
    plan = ["alias-retarget", "kind-flip"] + [ch.weighted([("alias-retarget", 3), ("kind-flip", 3), ("fields-change", 3), ("constant-value", 2), ("id-change", 1)])
                                              for _ in range(want + 4)]
    done: List[str] = []
    whats: List[str] = []
    for kind in plan:
        if len(done) >= want:
            break
        snap = _snapshot(q)
        try:
            what = _EDITS[kind](q, ch)
            q.rerender()
            bad = what is None or bool(q.problems())
        except (KeyError, G.GeneratorBug):
            bad = True
        if bad:
            _restore(q, snap)
            continue
        done.append(kind)
        whats.append(what)
    if not done:
        return None
    q.classes |= {"derived"} | {"derived/" + k for k in done}
    # class bookkeeping of the layout-dependent classes the checks look at
    q.classes.discard("needs-padding")
    try:
        if any(G.natural_layout(q, d.name).needs_padding for d in q.defs if d.kind in ("struct", "message")):
            q.classes.add("needs-padding")
    except Exception:  # noqa
        pass
    q.derived = whats
    return q


# ------------------------------------------------------------------------------------------------
# renaming / transplanting names


def rename_defs(program: G.Program, mapping: Dict[str, str]) -> G.Program:
    """Rename aliases / structs / messages / signals consistently (alias targets, field types, ``fields: NAME`` included)."""
    q = program.clone()
    q.edited = q.relocated = None
    if not mapping:
        return q.rerender()
    pat = re.compile(r"\b(" + "|".join(re.escape(n) for n in sorted(mapping, key=len, reverse=True)) + r")\b")
    for s in q.specs:
        for d in s.defs:
            if d.kind in ("alias", "struct", "message", "signal") and d.name in mapping:
                d.name = mapping[d.name]
            if d.kind == "alias" and d.value in mapping:
                d.value = mapping[d.value]
            if d.reuse in mapping:
                d.reuse = mapping[d.reuse]
            for f in d.fields or []:
                if f.base in mapping:
                    head, br, rest = f.type_text.partition("[")
                    f.type_text = pat.sub(lambda m: mapping[m.group(1)], head) + br + rest
                    f.base = mapping[f.base]
    return q.rerender()


_TKINDS = ("alias", "struct", "message", "signal")


def transplant_names(new: G.Program, old: G.Program, ch: G.Chooser, max_names: int = 6) -> Optional[G.Program]:
    """``new`` with some of its type/message names replaced by names ``old`` uses (for the same or another kind)."""
    mine = [d for d in new.defs if d.kind in _TKINDS]
    theirs = [d for d in old.defs if d.kind in _TKINDS]
    taken = {d.name for d in new.defs}
    theirs = [d for d in theirs if d.name not in taken]
    if not mine or not theirs:
        return None
    used = {f.base for d in new.defs for f in (d.fields or [])}
    # names that are field types in BOTH closures first
    old_used = {f.base for d in old.defs for f in (d.fields or [])}
    mine = [d for d in ch.shuffled(mine) if d.name in used] + [d for d in ch.shuffled(mine) if d.name not in used]
    theirs = [d for d in ch.shuffled(theirs) if d.name in old_used] + [d for d in ch.shuffled(theirs) if d.name not in old_used]
    n = min(len(mine), len(theirs), ch.integer(2, max_names))
    pairs = []
    for a in mine[:n]:
        # another kind when possible (alias <-> struct <-> message), the same kind otherwise
        diff = [b for b in theirs if b.kind != a.kind and not {a.kind, b.kind} <= {"signal"}]
        b = (diff or theirs)[0] if ch.chance(0.7) else theirs[0]
        theirs.remove(b)
        pairs.append((a, b))
        if not theirs:
            break
    while pairs:
        q = rename_defs(new, {a.name: b.name for a, b in pairs})
        if not q.problems():
            q.classes |= {"transplant"} | {f"transplant/{b.kind}-as-{a.kind}" for a, b in pairs}
            q.derived = [f"{a.kind} {a.name} is now called {b.name} (a {b.kind} of the earlier closure)" for a, b in pairs]
            return q
        pairs.pop()
    return None


# ------------------------------------------------------------------------------------------------
# compiler_options sections


def with_file_options(program: G.Program, ch: G.Chooser, root: Optional[str] = None, imported: bool = True) -> G.Program:
    q = program.clone()
    opt_name = {"auto_pad": "AUTO_PAD", "validate_alignment": "VALIDATE_ALIGNMENT", "import_coredefs": "IMPORT_COREDEFS"}
    if imported:
        others = [s for s in q.specs if s.path != q.root]
        if others:
            chosen = [s for s in others if ch.chance(0.5)] or [ch.choice(others)]
            for s in chosen:
                # at least one alignment switch that differs from what the closure is compiled with
                key = ch.choice(["validate_alignment", "auto_pad"])
                co = {opt_name[key]: not q.options[key]}
                for k in ("validate_alignment", "auto_pad", "import_coredefs"):
                    if k != key and ch.chance(0.4):
                        co[opt_name[k]] = ch.chance(0.5)
                s.compiler_options = co
            q.classes.add("imported-file-options")
    rs = q.spec(q.root)
    if root == "consistent":
        rs.compiler_options = {opt_name[k]: bool(v) for k, v in q.options.items()}
        q.classes.add("root-file-options/consistent")
    elif root == "random":
        rs.compiler_options = {opt_name[k]: ch.chance(0.5) for k in ch.subset(sorted(opt_name), 0.7) or ["validate_alignment"]}
        q.classes.add("root-file-options/random")
    return q.rerender()


# ------------------------------------------------------------------------------------------------
# long type texts


def with_long_type_text(program: G.Program, ch: G.Chooser) -> Optional[G.Program]:
    cands = [(d, f) for d in program.defs if d.kind in ("struct", "message") and d.fields for f in d.fields
             if f.length is not None and f.length >= 1 and not d.style.get("quote_types")]
    if not cands:
        return None
    d0, f0 = ch.choice(cands)
    q = program.clone()
    d = _find(q, d0.name, ("struct", "message"))
    f = [x for x in d.fields if x.name == f0.name][0]
    ctx = G._Ctx(q, ch)
    L = f.length
    div = ch.choice([k for k in (1, 2, 3, 4, 8) if k <= L])
    vals = [L // div, div, L % div]
    names = [G.name_of_length(ch.cos.integer(24, 34), ctx.names, ch.cos) for _ in vals]
    gap = lambda: " " * ch.cos.choice([2, 2, 3])  # noqa: E731
    ltext = f"{names[0]}{gap()}*{gap()}{names[1]}{gap()}+{gap()}{names[2]}"
    spec = q.spec(d.file)
    for n, v in zip(names, vals):
        c = G.Def("constant", n, d.file, value=v, text=str(v), flags=["const-int"])
        # constants of a file are read before its structs and messages wherever they are written
        spec.defs.append(c)
    f.length_text = ltext
    f.type_text = f"{f.base}[{ltext}]"
    if len(f.type_text) < 90:
        return None
    q.classes |= {"long-type-text", "expr-length"}
    q.rerender()
    if q.problems():
        return None
    return q


# ------------------------------------------------------------------------------------------------
# core types as field types (model-free)

_CORE_KIND = None


def _core_tables():
    global _CORE_KIND
    if _CORE_KIND is None:
        from ruamel.yaml import YAML
        import pyrtma

        d = os.path.join(os.path.dirname(os.path.realpath(pyrtma.__file__)), "core_defs")
        kinds = {}
        for fn in ("core_defs.yaml", "data_logger.yaml", "quick_logger.yaml"):
            with open(os.path.join(d, fn)) as f:
                data = YAML(typ="safe").load(f.read())
            for n in (data.get("aliases") or {}):
                kinds[n] = "alias"
            for n in (data.get("struct_defs") or {}):
                kinds[n] = "struct"
            for n, m in (data.get("message_defs") or {}).items():
                if n != "_RESERVED_":
                    kinds[n] = "message" if m.get("fields") else "signal"
        _CORE_KIND = kinds
    return _CORE_KIND


def core_kind(name: str) -> Optional[str]:
    return _core_tables().get(name)


# natives whose size is a multiple of 4 but not of 8 come first: they put what follows at an offset = 4 (mod 8)
_HALF = [("int32", None), ("float", None), ("uint32", None), ("int16", 2), ("char", 4), ("uint8", 4), ("int32", 3), ("int", None)]
_ANY = [("double", None), ("int64", None), ("char", None), ("int16", None), ("uint8", 3), ("char", 32), ("double", 2), ("int8", None), ("uint16", None)]


def core_embedding_program(ch: G.Chooser, validate_alignment: Optional[bool] = None, max_size_hint: int = 3) -> G.Program:
    """User definitions with fields of CORE struct / message types (see module docstring)."""
    kinds = _core_tables()
    cstructs = sorted(n for n, k in kinds.items() if k == "struct")
    cmsgs = sorted(n for n, k in kinds.items() if k == "message")
    caliases = sorted(n for n, k in kinds.items() if k == "alias")
    opts = {"auto_pad": True, "validate_alignment": ch.chance(0.9) if validate_alignment is None else validate_alignment, "import_coredefs": True}
    two = ch.chance(0.5)
    root = G.FileSpec(path="app.yaml", indent=ch.cos.choice([2, 4]))
    files = [root]
    lib = None
    if two:
        lib = G.FileSpec(path=ch.cos.choice(["lib/records.yaml", "records.yaml", "shared/base.yaml"]), indent=2)
        root.imports.append([lib.path, lib.path])
        files.append(lib)
    used_names = set(kinds) | set(G.core_defs()["names"])
    ids = set(G.core_defs()["message_defs"].values())

    def name(prefix):
        for _ in range(100):
            n = prefix + "_" + ch.cos.choice(["ENTRY", "REQUEST", "RECORD", "STATE", "REPORT", "ITEM", "INFO2", "BLOCK"]) + ch.cos.choice(["", "_A", "_B", "_2", "_X"])
            if n not in used_names:
                used_names.add(n)
                return n
        raise G.GeneratorBug("no free name")

    def fresh_id():
        for _ in range(500):
            i = ch.cos.integer(1100, 9800)
            if i not in ids:
                ids.add(i)
                return i
        raise G.GeneratorBug("no free id")

    def fields(pool_types: List[str], n_core: int):
        out, used = [], set()
        k = ch.integer(2, 5)
        core_at = set(ch.shuffled(range(1, k))[:n_core]) if k > 1 else set()
        for i in range(k):
            fname = ch.cos.choice(["count", "stamp", "flags", "entry", "request", "state", "value", "last", "set_info", "who"]) + f"_{i}"
            used.add(fname)
            if i in core_at and pool_types:
                t = ch.choice(pool_types)
                ln = ch.choice([2, 3]) if ch.chance(0.2) else None
            else:
                t, ln = ch.choice(_HALF if (i + 1 in core_at or ch.chance(0.5)) else _ANY)
                if t == "int32" and ch.chance(0.2) and caliases:
                    t = ch.choice(caliases)
            tt = t if ln is None else f"{t}[{ln}]"
            out.append(G.FieldSpec(fname, tt, t, ln, None if ln is None else str(ln)))
        return out

    ustructs: List[str] = []
    home = lib if lib is not None else root
    for _ in range(ch.integer(0, 2)):
        n = name("USER")
        home.defs.append(G.Def("struct", n, home.path, fields=fields(cstructs + ustructs, ch.integer(1, 2)), flags=["struct", "core-embedding"]))
        ustructs.append(n)
    umsgs: List[str] = []
    for i in range(ch.integer(1, 3)):
        where = home if (lib is not None and ch.chance(0.4)) else root
        n = name("APP")
        pool = cstructs + cmsgs + cmsgs + ustructs + umsgs
        where.defs.append(G.Def("message", n, where.path, id=fresh_id(), fields=fields(pool, ch.integer(1, 2)), flags=["message", "core-embedding"]))
        umsgs.append(n)
    # a message may only use messages that are complete when it is read: keep the order of creation inside a file and
    # let root-file messages use library messages only
    for s in files:
        for d in s.defs:
            if d.kind == "message":
                for f in d.fields:
                    if f.base in umsgs:
                        prov = _find_in(files, f.base)
                        ok = (prov.file == s.path and s.defs.index(prov) < s.defs.index(d)) or (prov.file != s.path and s is root)
                        if not ok:
                            f.base, f.type_text, f.length, f.length_text = "int32", "int32", None, None
    p = G.Program(files, "app.yaml", opts, "chain" if two else "single", {"core-embedding", "message", "struct"} if ustructs else {"core-embedding", "message"})
    return p


def _find_in(files, name):
    for s in files:
        for d in s.defs:
            if d.name == name:
                return d
    return None


# ------------------------------------------------------------------------------------------------
# C13: edit the fields of a definition whose field list is copied by ``fields: NAME``


def reuse_users(program: G.Program, name: str) -> List[str]:
    """Messages whose field list is (transitively) the field list of ``name``."""
    out = []
    for d in program.defs:
        if d.kind != "message" or d.reuse is None:
            continue
        t, seen = d, set()
        while t is not None and t.reuse is not None and t.name not in seen:
            seen.add(t.name)
            if t.reuse == name:
                out.append(d.name)
                break
            t = program.by_name(t.reuse) if program.has(t.reuse) else None
    return out


def edit_reused_fields(program: G.Program, ch: G.Chooser) -> Optional[G.Program]:
    targets = sorted({d.reuse for d in program.defs if d.kind == "message" and d.reuse})
    targets = [t for t in targets if program.has(t) and program.by_name(t).fields]
    if not targets:
        return None
    for _attempt in range(8):
        tname = ch.choice(targets)
        q = program.clone()
        q.relocated = None
        d = _find(q, tname, ("struct", "message"))
        if d is None or not d.fields:
            continue
        ctx = G._Ctx(q, ch)
        how = ch.weighted([("insert", 3), ("retype", 3), ("delete", 2 if len(d.fields) > 1 else 0), ("swap", 2 if len(d.fields) > 1 else 0), ("rename", 2)])
        if how == "insert":
            base = ch.choice(G.NATIVE_NAMES)
            nf = G.FieldSpec(ctx.fresh_field({x.name for x in d.fields}), base, base)
            if ch.chance(0.3):
                G._retext(nf, length=ch.choice([2, 4, 8]))
            k = ch.integer(0, len(d.fields))
            d.fields.insert(k, nf)
            what = f"insert {nf.name}: {nf.type_text} at {k} of {tname}"
        elif how == "retype":
            f = ch.choice(d.fields)
            old = f.type_text
            G._retext(f, base=ch.choice([n for n in G.NATIVE_NAMES if n != f.base]))
            if f.type_text.replace(" ", "") == old.replace(" ", ""):
                continue
            what = f"{tname}.{f.name}: {old} -> {f.type_text}"
        elif how == "delete":
            k = ch.integer(0, len(d.fields) - 1)
            what = f"delete {tname}.{d.fields[k].name}"
            del d.fields[k]
        elif how == "swap":
            i = ch.integer(0, len(d.fields) - 2)
            j = ch.integer(i + 1, len(d.fields) - 1)
            if (d.fields[i].name, d.fields[i].type_text) == (d.fields[j].name, d.fields[j].type_text):
                continue
            d.fields[i], d.fields[j] = d.fields[j], d.fields[i]
            what = f"swap fields {i} and {j} of {tname}"
        else:
            f = ch.choice(d.fields)
            old = f.name
            f.name = ctx.fresh_field({x.name for x in d.fields})
            what = f"field {tname}.{old} -> {f.name}"
        q.rerender()
        if q.problems():
            continue
        q.edited = {"kind": "reused-fields/" + how, "old": tname, "new": tname, "what": what, "users": reuse_users(q, tname)}
        return q
    return None


# ------------------------------------------------------------------------------------------------
# C13: editions of a message that differ in the definition text only (same name, id, size and ctypes layout)

# native type names the Python back end maps to one and the same ctypes class
SAME_CTYPE = [["int32", "int", "signed int", "long", "signed long"], ["uint32", "unsigned int", "unsigned", "unsigned long"], ["int16", "short", "signed short"],
              ["uint16", "unsigned short"], ["int64", "long long", "signed long long"], ["uint64", "unsigned long long"], ["uint8", "unsigned char", "byte"]]
_CTYPE_GROUP = {n: g for g in SAME_CTYPE for n in g}


def _length_respelled(f: G.FieldSpec, ch: G.Chooser) -> Optional[str]:
    """Another text for the array length of ``f`` with the same value (None for a scalar)."""
    if f.length is None or f.length_text is None:
        return None
    n = f.length
    cands = []
    if re.search(r"[A-Za-z_]", f.length_text) and not re.fullmatch(r"\s*0[xX][0-9a-fA-F]+\s*", f.length_text):
        cands.append(str(n))  # a constant expression replaced by its value: char[MAX_LEN] -> char[32]
    else:
        cands += [f"{n // k} * {k}" for k in (2, 4, 8) if n % k == 0 and n // k >= 1] + [f"{n - 1} + 1" if n > 1 else "2 - 1", hex(n)]
    cands = [c for c in cands if c.replace(" ", "") != f.length_text.replace(" ", "")]
    return ch.choice(cands) if cands else None


def layout_preserving_edit(program: G.Program, ch: G.Chooser, max_messages: int = 2) -> Optional[G.Program]:
    def options(q, f):
        out = []
        try:
            r = q.resolve_type(f.base)
        except Exception:  # noqa
            return out
        if r.kind == "native":
            grp = [n for n in _CTYPE_GROUP.get(r.name, []) if n != f.base]
            if f.base in G.NATIVES and grp:
                out.append("synonym")
            if f.base not in G.NATIVES:
                out.append("alias-to-native")
        if f.length is not None and f.length_text is not None:
            out.append("length-text")
        return out

    def plain(q, d):
        try:
            return all(q.resolve_type(f.base).kind == "native" for f in d.fields)
        except Exception:  # noqa
            return False

    msgs = [d for d in program.defs if d.kind == "message" and d.fields and not d.style.get("quote_types") and any(options(program, f) for f in d.fields)]
    if not msgs:
        return None
    pref = [d for d in msgs if plain(program, d)]
    q = program.clone()
    q.relocated = None
    chosen = []
    for _ in range(ch.integer(1, max_messages)):
        pool = [d for d in (pref if pref and ch.chance(0.85) else msgs) if d.name not in chosen]
        if pool:
            chosen.append(ch.choice(pool).name)
    whats = []
    for name in chosen:
        d = _find(q, name, ("message",))
        cands = [f for f in d.fields if options(q, f)]
        picked = [f for f in cands if ch.chance(0.6)] or [ch.choice(cands)]
        for f in picked:
            how = ch.choice(options(q, f))
            old = f.type_text
            if how == "synonym":
                G._retext(f, base=ch.choice([n for n in _CTYPE_GROUP[q.resolve_type(f.base).name] if n != f.base]))
            elif how == "alias-to-native":
                nat = q.resolve_type(f.base).name
                G._retext(f, base=ch.choice(_CTYPE_GROUP.get(nat, [nat])) if ch.chance(0.5) else nat)
            else:
                lt = _length_respelled(f, ch)
                if lt is None:
                    continue
                G._retext(f, length=f.length, ltext=lt)
            if f.type_text.replace(" ", "") != old.replace(" ", ""):
                whats.append(f"{name}.{f.name}: {old} -> {f.type_text}")
    if not whats:
        return None
    q.rerender()
    if q.problems():
        return None
    touched = sorted({w.split(".")[0] for w in whats})
    q.edited = {"kind": "layout-preserving", "names": touched, "old": touched[0], "new": touched[0], "what": "; ".join(whats)}
    return q
