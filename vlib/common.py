"""Common machinery: run context, findings, evidence, known findings, sharding, Hypothesis driver.

Exit protocol (see DESIGN.md 2.2): 0 held / 1 VIOLATION (not listed as known) / 2 harness error.
"""
from __future__ import annotations

import hashlib
import json
import os
import sys
import time
import traceback
from dataclasses import dataclass, field
from typing import Any, Callable, Dict, List, Optional

VERIF_DIR = os.path.dirname(os.path.dirname(os.path.abspath(__file__)))
REPO_DIR = os.environ.get("VERIF_REPO", "/repo")
KNOWN_FILE = os.path.join(VERIF_DIR, "KNOWN_FINDINGS.txt")
# the sensitivity self-test (tools/mutants.py) points checks at a mutated copy of the repository and
# redirects their evidence / replay output so that the committed files are not overwritten
OUT_DIR = os.environ.get("VERIF_OUT", VERIF_DIR)
NCPU = int(os.environ.get("VERIF_JOBS", "16"))


class HarnessError(Exception):
    """Something is wrong with the verification machinery itself (exit 2, never VIOLATION)."""


class Violation(Exception):
    """The property under test does not hold on this case.

    key   root-cause bucket (stable, used to match KNOWN_FINDINGS.txt)
    what  human readable description of what failed
    trace JSON-serialisable concrete case that replays without Hypothesis
    """

    def __init__(self, key: str, what: str, trace: Any = None):
        super().__init__(f"{key}: {what}")
        self.key = key
        self.what = what
        self.trace = trace


@dataclass
class Finding:
    key: str
    what: str
    trace: Any

    def to_json(self):
        return {"key": self.key, "what": self.what, "trace": self.trace}


@dataclass
class Result:
    """What one shard (or the whole check) covered."""

    evaluations: int = 0
    shapes: set = field(default_factory=set)  # hashes of distinct non-trivial cases
    samples: list = field(default_factory=list)
    counters: Dict[str, int] = field(default_factory=dict)
    findings: List[Finding] = field(default_factory=list)
    notes: List[str] = field(default_factory=list)
    exhaustive: Optional[bool] = None
    inconclusive: int = 0

    def count(self, name: str, n: int = 1):
        self.counters[name] = self.counters.get(name, 0) + n

    def shape(self, *parts):
        self.shapes.add(shape_hash(*parts))

    def sample(self, s, limit=5):
        if len(self.samples) < limit:
            self.samples.append(s)

    def add_finding(self, key, what, trace):
        # keep the smallest trace per key
        size = len(json.dumps(trace, default=str))
        for i, f in enumerate(self.findings):
            if f.key == key:
                if size < len(json.dumps(f.trace, default=str)):
                    self.findings[i] = Finding(key, what, trace)
                return
        self.findings.append(Finding(key, what, trace))

    def merge(self, other: "Result"):
        self.evaluations += other.evaluations
        self.shapes |= other.shapes
        for s in other.samples:
            self.sample(s)
        for k, v in other.counters.items():
            self.counters[k] = self.counters.get(k, 0) + v
        for f in other.findings:
            self.add_finding(f.key, f.what, f.trace)
        for n in other.notes:
            if n not in self.notes:
                self.notes.append(n)
        self.inconclusive += other.inconclusive
        if other.exhaustive is not None:
            self.exhaustive = (
                other.exhaustive if self.exhaustive is None else (self.exhaustive and other.exhaustive)
            )
        return self


def shape_hash(*parts) -> str:
    return hashlib.sha1(repr(parts).encode()).hexdigest()[:16]


@dataclass
class RunContext:
    prop: str
    tier: str
    seed: int
    replay: Optional[str] = None
    regressions: list = field(default_factory=list)  # (path, Violation) of committed replays that fail again
    regressions_ok: int = 0

    @property
    def quick(self) -> bool:
        return self.tier == "quick"

    def scale(self, quick: int, thorough: int) -> int:
        v = quick if self.quick else thorough
        mult = float(os.environ.get("VERIF_SCALE", "1"))
        return max(1, int(v * mult))


# ----------------------------------------------------------------------------------------------
# known findings


def load_known():
    """Parse KNOWN_FINDINGS.txt -> (open {(prop,key): text}, fixed [(prop, commit, text)])."""
    open_, fixed = {}, []
    if not os.path.exists(KNOWN_FILE):
        return open_, fixed
    for line in open(KNOWN_FILE):
        line = line.strip()
        if not line or line.startswith("#"):
            continue
        if line.startswith("open:"):
            rest = line[5:].strip().split(None, 2)
            prop = rest[0].split("=", 1)[1]
            key = rest[1].split("=", 1)[1]
            text = rest[2] if len(rest) > 2 else ""
            open_[(prop, key)] = text
        elif line.startswith("fixed:"):
            rest = line[6:].strip().split(None, 2)
            prop = rest[0].split("=", 1)[1]
            fixed.append((prop, rest[1], rest[2] if len(rest) > 2 else ""))
    return open_, fixed


# ----------------------------------------------------------------------------------------------
# sharded execution


def _cpu_busy():
    out = {}
    try:
        for line in open("/proc/stat"):
            if line.startswith("cpu") and line[3].isdigit():
                f = line.split()
                v = list(map(int, f[1:9]))
                out[int(f[0][3:])] = (sum(v) - v[3] - v[4], sum(v))
    except Exception:
        pass
    return out


def idle_ranked_cpus():
    """CPUs this process may use, least busy first (busy fraction sampled over 0.25 s)."""
    try:
        allowed = sorted(os.sched_getaffinity(0))
    except Exception:
        return []
    a = _cpu_busy()
    time.sleep(0.25)
    b = _cpu_busy()
    load = {}
    for c in allowed:
        if c in a and c in b and b[c][1] > a[c][1]:
            load[c] = (b[c][0] - a[c][0]) / (b[c][1] - a[c][1])
        else:
            load[c] = 0.0
    return sorted(allowed, key=lambda c: (round(load[c], 1), c))


def _shard_entry(fn, args, q, idx, cpu=None):
    if cpu is not None and not os.environ.get("VERIF_NO_PIN"):
        # the lock-stepped manager thread and the harness thread hand a baton back and forth: keeping both on
        # one core avoids cross-core wake-up latency.  The parent hands every running shard its own core,
        # least busy cores first, so that concurrent runs do not pile up on the same cores.
        try:
            os.sched_setaffinity(0, {cpu})
        except Exception:
            pass
    try:
        res = fn(*args)
        q.put((idx, "ok", res))
    except HarnessError as e:
        q.put((idx, "harness", "".join(traceback.format_exception(e))))
    except BaseException as e:  # noqa
        q.put((idx, "harness", "".join(traceback.format_exception(e))))


def run_shards(fn: Callable[..., Result], arglist: List[tuple], jobs: Optional[int] = None) -> Result:
    """Run fn(*args) for every args in arglist in forked worker processes; merge Results.

    Fork happens from the (single threaded) main process.  A worker that raises is a harness
    error for the whole check.
    """
    import multiprocessing as mp

    jobs = jobs or NCPU
    ctx = mp.get_context("fork")
    total = Result()
    if jobs <= 1 or len(arglist) <= 1 or os.environ.get("VERIF_INPROC"):
        for a in arglist:
            total.merge(fn(*a))
        return total
    q = ctx.Queue()
    pending = list(enumerate(arglist))
    running = {}
    done = 0
    errors = []
    free_cpus = idle_ranked_cpus()
    cpu_of = {}
    while pending or running:
        while pending and len(running) < jobs:
            idx, a = pending.pop(0)
            cpu = free_cpus.pop(0) if free_cpus else None
            cpu_of[idx] = cpu
            p = ctx.Process(target=_shard_entry, args=(fn, a, q, idx, cpu), daemon=True)
            p.start()
            running[idx] = p
        try:
            idx, status, payload = q.get(timeout=1.0)
        except Exception:
            # check for dead workers that never reported
            for idx, p in list(running.items()):
                if not p.is_alive() and p.exitcode not in (0, None):
                    errors.append(f"shard {idx} died with exit code {p.exitcode}")
                    del running[idx]
                    if cpu_of.get(idx) is not None:
                        free_cpus.append(cpu_of.pop(idx))
            continue
        p = running.pop(idx, None)
        if cpu_of.get(idx) is not None:
            free_cpus.append(cpu_of.pop(idx))
        if p is not None:
            p.join(timeout=10)
        if status == "ok":
            total.merge(payload)
        else:
            errors.append(f"shard {idx}: {payload}")
        done += 1
    if errors:
        raise HarnessError("worker failure(s):\n" + "\n".join(errors))
    return total


def derive_seed(seed: int, shard: int) -> int:
    return (int(seed) * 1000 + shard) & 0xFFFFFFFFFFFF


# ----------------------------------------------------------------------------------------------
# Hypothesis driver


def hyp_run(
    body: Callable[[Any], None],
    strategy,
    seed: int,
    max_examples: int,
    res: Result,
    shrink_budget_s: float = 25.0,
    collect: bool = False,
    shrink: bool = True,
):
    """Drive `body(value)` with Hypothesis.

    body raises Violation when the property fails on the case.  Any other exception is a harness
    error.  With collect=True violations are recorded in `res` (bucketed by key) and the search
    goes on; otherwise Hypothesis shrinks the first failure (bounded by shrink_budget_s of wall
    clock, which only limits minimisation effort, never decides pass/fail) and the smallest
    failing case seen is recorded.
    """
    import hypothesis
    from hypothesis import given, settings, HealthCheck, Phase

    # Hypothesis keeps every example of a campaign in its data tree; long campaigns are therefore run as a
    # sequence of campaigns of at most CHUNK examples with derived seeds (same total, bounded memory)
    CHUNK = 4000
    if max_examples > CHUNK:
        done = 0
        k = 0
        while done < max_examples:
            n = min(CHUNK, max_examples - done)
            before = len(res.findings)
            hyp_run(body, strategy, (seed * 1000003 + k) & 0xFFFFFFFFFFFF, n, res, shrink_budget_s, collect, shrink)
            done += n
            k += 1
            if not collect and len(res.findings) > before:
                break  # first failure found and minimised: stop like a single campaign would
        return

    state = {"best": None, "t_first": None, "n": 0, "harness": None}

    phases = [Phase.generate] + ([Phase.shrink] if shrink and not collect else [])

    @hypothesis.seed(seed)
    @settings(
        max_examples=max_examples,
        deadline=None,
        database=None,
        derandomize=False,
        report_multiple_bugs=False,
        phases=phases,
        suppress_health_check=[HealthCheck.too_slow, HealthCheck.data_too_large, HealthCheck.large_base_example],
        print_blob=False,
    )
    @given(strategy)
    def test(value):
        if state["t_first"] is not None and time.time() - state["t_first"] > shrink_budget_s:
            return  # minimisation budget used up: stop exploring smaller candidates
        state["n"] += 1
        try:
            body(value)
        except Violation as v:
            if collect:
                res.add_finding(v.key, v.what, v.trace)
                return
            size = len(json.dumps(v.trace, default=str))
            if state["best"] is None or size < state["best"][0]:
                state["best"] = (size, v)
            if state["t_first"] is None:
                state["t_first"] = time.time()
            raise
        except HarnessError as e:
            state["harness"] = e
            raise

    try:
        test()
    except Violation:
        pass
    except HarnessError:
        raise
    except BaseException as e:  # Flaky / FailedHealthCheck / harness bug
        if state["harness"] is not None:
            raise state["harness"]
        if state["best"] is None:
            raise HarnessError(
                "Hypothesis/harness failure: " + "".join(traceback.format_exception(e))
            ) from e
    res.evaluations += state["n"]
    if state["best"] is not None:
        v = state["best"][1]
        res.add_finding(v.key, v.what, v.trace)


# ----------------------------------------------------------------------------------------------
# evidence + verdict


def write_evidence(ctx: RunContext, res: Result, rule: str, level: str, assumptions: List[str], wall: float, n_viol: int):
    cov = {
        "evaluations": int(res.evaluations),
        "distinct_nontrivial": len(res.shapes),
        "rule": rule,
        "samples": res.samples[:5] if res.samples else [],
        "classes": dict(sorted(res.counters.items())),
    }
    if res.exhaustive is not None:
        cov["exhaustive"] = bool(res.exhaustive)
    if res.inconclusive:
        cov["inconclusive"] = res.inconclusive
    if res.notes:
        cov["notes"] = res.notes
    ev = {
        "property_id": ctx.prop,
        "tier": ctx.tier,
        "seed": int(ctx.seed),
        "level": level,
        "coverage": cov,
        "assumptions": assumptions,
        "wall_s": round(wall, 2),
        "violations": n_viol,
    }
    os.makedirs(os.path.join(OUT_DIR, "evidence"), exist_ok=True)
    path = os.path.join(OUT_DIR, "evidence", f"{ctx.prop}.json")
    tmp = path + ".tmp"
    with open(tmp, "w") as f:
        json.dump(ev, f, indent=1, default=str)
        f.write("\n")
    os.replace(tmp, path)
    return path


def write_replay(prop: str, finding: Finding) -> str:
    body = {"property": prop, "key": finding.key, "what": finding.what, "trace": finding.trace}
    blob = json.dumps(body, indent=1, default=str, sort_keys=True)
    sha = hashlib.sha1(blob.encode()).hexdigest()[:10]
    d = os.path.join(OUT_DIR, "replays")
    os.makedirs(d, exist_ok=True)
    path = os.path.join(d, f"tmp-{prop}-{sha}.json")
    with open(path, "w") as f:
        f.write(blob + "\n")
    return path


def conclude(ctx: RunContext, res: Result, rule: str, assumptions: List[str], t0: float, level: str = "exploration") -> int:
    """Print KNOWN-FINDING / VIOLATION lines, write evidence, return exit code."""
    known_open, _fixed = load_known()
    new = []
    for path, v in ctx.regressions:
        print(f"VIOLATION property={ctx.prop} replay={path}", flush=True)
        print(f"  key={v.key} (committed regression replay fails again)\n  what={v.what}", flush=True)
    res.count("regression-replays-passed", ctx.regressions_ok)
    res.evaluations += ctx.regressions_ok + len(ctx.regressions)
    for f in res.findings:
        if (ctx.prop, f.key) in known_open:
            print(f"KNOWN-FINDING: property={ctx.prop} key={f.key} {known_open[(ctx.prop, f.key)]}", flush=True)
        else:
            new.append(f)
    for f in new:
        path = write_replay(ctx.prop, f)
        print(f"VIOLATION property={ctx.prop} replay={path}", flush=True)
        print(f"  key={f.key}\n  what={f.what}", flush=True)
    if len(res.shapes) < 2 and not new:
        # the generators must produce non-trivial cases; otherwise the run says nothing
        write_evidence(ctx, res, rule, level, assumptions, time.time() - t0, len(new))
        raise HarnessError(f"{ctx.prop}: only {len(res.shapes)} distinct non-trivial cases were generated")
    write_evidence(ctx, res, rule, level, assumptions, time.time() - t0, len(new) + len(ctx.regressions))
    print(
        f"{ctx.prop} tier={ctx.tier} seed={ctx.seed} evaluations={res.evaluations} "
        f"distinct_nontrivial={len(res.shapes)} violations={len(new) + len(ctx.regressions)} known={len(res.findings) - len(new)} "
        f"wall={time.time() - t0:.1f}s",
        flush=True,
    )
    return 1 if (new or ctx.regressions) else 0
