"""Wire-level helpers written from the protocol documentation (core_defs.yaml), independent of
pyrtma's ctypes classes: frame building and stream parsing with `struct`."""
from __future__ import annotations

import struct
from dataclasses import dataclass
from typing import List, Optional, Tuple

HDR = struct.Struct("<iiddhhhhiiiI")
HDR_FIELDS = ("msg_type", "msg_count", "send_time", "recv_time", "src_host_id", "src_mod_id",
              "dest_host_id", "dest_mod_id", "num_data_bytes", "remaining_bytes", "is_dynamic", "reserved")
TC_EXTRA = struct.Struct("<II")

MT_EXIT = 0
MT_ACKNOWLEDGE = 2
MT_CONNECT_V2 = 4
MT_FAILED_MESSAGE = 8
MT_CONNECT = 13
MT_DISCONNECT = 14
MT_SUBSCRIBE = 15
MT_UNSUBSCRIBE = 16
MT_MODULE_READY = 26
MT_MESSAGE_TRAFFIC = 30
MT_ACTIVE_CLIENTS = 31
MT_CLIENT_INFO = 32
MT_CLIENT_CLOSED = 33
MT_CLIENT_SET_NAME = 34
MT_RTMA_LOG = 40
MT_RTMA_LOGS = (40, 41, 42, 43, 44, 45)
MT_TIMING_MESSAGE = 80
MT_PAUSE_SUBSCRIPTION = 85
MT_RESUME_SUBSCRIPTION = 86
ALL_MESSAGE_TYPES = 0x7FFFFFFF
MAX_MODULES = 200
DYN_MOD_ID_START = 100
MAX_HOSTS = 5
MAX_MESSAGE_TYPES = 10000
MESSAGE_TRAFFIC_SIZE = 64

CONTROL_TYPES = {MT_CONNECT, MT_CONNECT_V2, MT_DISCONNECT, MT_SUBSCRIBE, MT_UNSUBSCRIBE,
                 MT_PAUSE_SUBSCRIPTION, MT_RESUME_SUBSCRIPTION, MT_CLIENT_SET_NAME, MT_MODULE_READY}
SUBCTL_TYPES = {MT_SUBSCRIBE, MT_UNSUBSCRIBE, MT_PAUSE_SUBSCRIPTION, MT_RESUME_SUBSCRIPTION}

CONNECT = struct.Struct("<hh")
CONNECT_V2 = struct.Struct("<hhhhi32s")
SUBSCRIBE = struct.Struct("<i")
MODULE_READY = struct.Struct("<i")
SET_NAME = struct.Struct("<32s")
CLIENT_INFO = struct.Struct("<32siihhhH32s")  # addr uid pid mod_id is_logger is_unique port name
FAILED_MESSAGE = struct.Struct("<h3hd")  # dest_mod_id reserved[3] time_of_failure, then a 48-byte header
TRAFFIC_HEAD = struct.Struct("<IIdd")


@dataclass
class Frame:
    msg_type: int
    msg_count: int
    send_time: float
    recv_time: float
    src_host_id: int
    src_mod_id: int
    dest_host_id: int
    dest_mod_id: int
    num_data_bytes: int
    remaining_bytes: int
    is_dynamic: int
    reserved: int
    payload: bytes = b""
    tc: Tuple[int, int] = (0, 0)

    def brief(self):
        return dict(t=self.msg_type, n=self.msg_count, src=self.src_mod_id, dst=self.dest_mod_id,
                    dh=self.dest_host_id, sz=self.num_data_bytes)


def build(msg_type, payload=b"", src_mod=0, src_host=0, dest_mod=0, dest_host=0, send_time=0.0,
          msg_count=0, recv_time=0.0, num_data_bytes=None, remaining=0, is_dynamic=0, reserved=0,
          timecode=False, tc=(0, 0)) -> bytes:
    n = len(payload) if num_data_bytes is None else num_data_bytes
    h = HDR.pack(msg_type, msg_count, send_time, recv_time, src_host, src_mod, dest_host, dest_mod,
                 n, remaining, is_dynamic, reserved & 0xFFFFFFFF)
    if timecode:
        h += TC_EXTRA.pack(*tc)
    return h + payload


def cstr(s, n=32) -> bytes:
    b = s if isinstance(s, bytes) else s.encode("latin-1")
    return b[:n].ljust(n, b"\0")


def parse_stream(buf: bytearray, timecode=False) -> List[Frame]:
    """Consume as many whole frames as `buf` holds; the rest stays in buf."""
    hs = HDR.size + (8 if timecode else 0)
    out = []
    pos = 0
    while len(buf) - pos >= hs:
        f = HDR.unpack_from(buf, pos)
        n = f[8]
        if n < 0:
            raise ValueError(f"negative num_data_bytes {n} in a frame written by the manager")
        if len(buf) - pos < hs + n:
            break
        tc = TC_EXTRA.unpack_from(buf, pos + HDR.size) if timecode else (0, 0)
        out.append(Frame(*f, payload=bytes(buf[pos + hs: pos + hs + n]), tc=tc))
        pos += hs + n
    del buf[:pos]
    return out


def tag_payload(seq: int, size: int) -> bytes:
    """Deterministic payload of `size` bytes identifying publish number `seq`."""
    if size <= 0:
        return b""
    if size < 8:
        return bytes(((seq * 7 + i * 13 + 1) & 0xFF) for i in range(size))
    head = struct.pack("<Q", seq | (0xA5 << 56))
    body_len = size - 8
    if body_len == 0:
        return head
    unit = struct.pack("<I", (seq * 2654435761) & 0xFFFFFFFF)
    body = (unit * (body_len // 4 + 1))[:body_len]
    return head + body


def tag_of(fr: Frame) -> Optional[int]:
    """Sequence number of a harness-published frame (payload tag if >= 8 bytes, else send_time)."""
    if len(fr.payload) >= 8:
        (v,) = struct.unpack_from("<Q", fr.payload, 0)
        if v >> 56 == 0xA5:
            return v & ((1 << 56) - 1)
        return None
    st = fr.send_time
    if st == st and st >= 1 and st == int(st) and st < 2 ** 52:
        return int(st)
    return None


def parse_client_info(payload: bytes):
    addr, uid, pid, mod_id, is_logger, is_unique, port, name = CLIENT_INFO.unpack_from(payload, 0)
    return dict(addr=addr.split(b"\0")[0].decode("latin-1"), uid=uid, pid=pid, mod_id=mod_id,
                is_logger=is_logger, is_unique=is_unique, port=port, name=name.split(b"\0")[0])


def parse_failed(payload: bytes):
    dest_mod_id, _r0, _r1, _r2, tof = FAILED_MESSAGE.unpack_from(payload, 0)
    h = HDR.unpack_from(payload, FAILED_MESSAGE.size)
    return dict(dest_mod_id=dest_mod_id, time_of_failure=tof, header=dict(zip(HDR_FIELDS, h)))
