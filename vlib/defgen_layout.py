"""Layout-profile additions to the definition-program generator (used by checks/c11.py; vlib/defgen.py stays untouched).

* padding identified by POSITION: ``split_emitted`` (parser model) and ``expected_slots`` / ``header_mismatch`` (C header) say which
  emitted fields are the user's and which are padding without looking at field names, so user fields may be called ``padding_0_``;
* the generator class "user field named like an automatic padding field": ``with_padding_names`` (transformation of any layout
  program), ``padname_programs`` (Hypothesis strategy) and ``padname_table`` (deterministic covering table);
* HISTORIES on one Parser object: ``build_layout_history`` / ``layout_histories`` (drawn) and ``history_table`` (deterministic):
  2-3 closures parsed one after the other by the same Parser instance, later ones re-using struct / message / alias names of
  earlier ones with other field lists (same size and another alignment, another size, other order, ...), ``parse_on`` and ``snapshot``
  to drive and observe them;
* the generator class "user constants named like the core's limit constants": ``with_limit_constants`` (transformation of any layout
  program compiled WITHOUT the core definitions), ``LIMIT_VARIANTS`` (deterministic value sets: larger, smaller, off by one, other
  kinds of constant) and ``limit_const_programs`` (Hypothesis strategy, sizes next to 65535): the size limit of the statement is the
  number 65535 whatever constants the compiled files declare;
* ``one_short_programs``: deterministic closures for the gcc sample of the quick tier - structs / messages whose fields end exactly
  1 (and 2..7) bytes short of their alignment, nested, as array elements, behind aliases.
"""
from __future__ import annotations

import copy
import os
import shutil
from typing import Any, Dict, List, Optional, Tuple

from vlib import defgen as G

PAD_NAME_NUMBERS = [0, 1, 2, 3]


# ----------------------------------------------------------------------------------------------
# padding by position


def split_emitted(em: List[tuple], user: List[tuple]) -> Tuple[List[int], bool]:
    """em, user: [(name, type, length)].  -> (indices of the emitted fields that are NOT the user's, whole user list found in order).
    The user's list is matched as a subsequence from the left; whatever is not matched is padding the compiler added.  (A padding
    field is always followed by the field it aligns or ends the list, so an emitted field equal to the next user field is that
    field or indistinguishable from it.)"""
    j = 0
    pads = []
    for i, e in enumerate(em):
        if j < len(user) and tuple(e) == tuple(user[j]):
            j += 1
        else:
            pads.append(i)
    return pads, j == len(user)


def expected_slots(p: G.Program, name: str, padded: bool = True) -> List[tuple]:
    """What a C header must declare for definition ``name``: ("user", field name, length) in the user's order and - with validation
    and automatic padding on - ("pad", bytes, declared length) exactly in the gaps of the natural layout (an interior gap of k bytes
    as char[k], also for k == 1; a trailing gap of one byte as a scalar - ``header_mismatch`` takes a scalar and [1] for one byte
    alike, the declared bytes count).  Padding NAMES are not part of the expectation."""
    d = p.by_name(name)
    if d.reuse is not None:
        return expected_slots(p, d.reuse, padded)
    lay = G.natural_layout(p, name)
    out, pos = [], 0
    for lf in lay.fields:
        if lf.offset > pos and padded:
            out.append(("pad", lf.offset - pos, lf.offset - pos))
        out.append(("user", lf.name, lf.length))
        pos = lf.offset + lf.size
    if lay.size > pos and padded:
        k = lay.size - pos
        out.append(("pad", k, None if k == 1 else k))
    return out


def header_mismatch(got: Optional[List[Tuple[str, Optional[int]]]], slots: List[tuple]) -> Optional[str]:
    """got: [(member name, array length or None)] of a C struct.  None if it is the slot list, else a description."""
    if got is None:
        return "the struct is not declared"
    if len(got) != len(slots):
        return f"{len(got)} members declared, {len(slots)} expected"
    for k, ((n, ln), s) in enumerate(zip(got, slots)):
        if s[0] == "user" and (n, ln) != (s[1], s[2]):
            return f"member {k} is {n}{'' if ln is None else '[%d]' % ln}, the user's field there is {s[1]}{'' if s[2] is None else '[%d]' % s[2]}"
        if s[0] == "pad" and (ln == 0 or (1 if ln is None else ln) != s[1]):
            return f"member {k} ({n}) should be {s[1]} padding byte(s), it is declared with length {ln}"
    names = [n for n, _ in got]
    dup = sorted({n for n in names if names.count(n) > 1})
    if dup:
        return f"member name(s) {dup} declared twice (a user field and a padding field of the same name)"
    return None


# ----------------------------------------------------------------------------------------------
# user fields named like automatic padding fields


def _gap_classes(p: G.Program, name: str) -> List[str]:
    lay = G.natural_layout(p, name)
    pos, interior = 0, False
    for lf in lay.fields:
        interior = interior or lf.offset > pos
        pos = lf.offset + lf.size
    out = []
    if interior:
        out.append("padding-name/interior-gap")
    if lay.size > pos:
        out.append("padding-name/trailing-gap")
    return out or ["padding-name/no-gap"]


def with_padding_names(p: G.Program, ch: G.Chooser) -> Optional[G.Program]:
    """Copy of a layout program in which, in one or more structs / messages, 1-3 user fields are called ``padding_<n>_`` (n in 0..3,
    mostly 0) - the names the compiler gives its automatic padding fields.  Names do not change a layout: the expectation
    (``expect``) is that of ``p``.  Classes: padding-name, padding-name/{interior-gap,trailing-gap,no-gap}."""
    q = p.clone()
    recs = [d for s in q.specs for d in s.defs if d.kind in ("struct", "message") and d.fields]
    if not recs:
        return None
    chosen = [d for d in recs if ch.chance(0.6)] or [ch.choice(recs)]
    for d in chosen:
        k = min(len(d.fields), ch.weighted([(1, 5), (2, 3), (3, 1)]))
        idx = ch.shuffled(range(len(d.fields)))[:k]
        nums = ch.shuffled(PAD_NAME_NUMBERS)[:k]
        if 0 not in nums and ch.chance(0.6):
            nums[0] = 0
        for i, n in zip(idx, nums):
            d.fields[i].name = f"padding_{n}_"
        d.flags = sorted(set(d.flags) | {"padding-name"})
    q.rerender()
    q.classes.add("padding-name")
    for d in chosen:
        q.classes.update(_gap_classes(q, d.name))
    return q


def padname_programs(**kw):
    from hypothesis import strategies as st

    G.core_defs()

    @st.composite
    def _pp(draw):
        ch = G.HypChooser(draw)
        return with_padding_names(G.build_layout_program(ch, **kw), ch)

    return _pp()


_PN_LAYOUTS = {
    "interior": ["uint8", "int32"],
    "trailing": ["int32", "uint8"],
    "both": ["uint8", "int32", "int16"],
    "none": ["int32", "int16", "int16"],
    "many": ["uint8", "int16", "uint8", "double", "uint8"],
    "array": ["char[3]", "uint64[2]", "char"],
}


def _fs(name: str, text: str) -> G.FieldSpec:
    if "[" in text:
        base, ln = text[:-1].split("[")
        return G.FieldSpec(name, text, base, int(ln), ln)
    return G.FieldSpec(name, text, text)


def padname_table() -> List[G.Program]:
    """Deterministic covering table: six small layouts (interior gap, trailing gap, both, none, several gaps, arrays) x every single
    field called padding_0_/1_/2_, plus all fields called padding_<index>_ in rising and in falling order, as a struct (also used as
    an array element behind one byte) and as a message, auto_pad on and off."""
    out = []
    for lname, types in _PN_LAYOUTS.items():
        namings = []
        for i in range(len(types)):
            for n in (0, 1, 2):
                namings.append({i: n})
        namings.append({i: i for i in range(len(types))})
        namings.append({i: len(types) - 1 - i for i in range(len(types))})
        namings.append({0: 1, len(types) - 1: 0})
        for naming in namings:
            for auto_pad in (True, False):
                fields = [_fs(f"padding_{naming[i]}_" if i in naming else f"f{i}", t) for i, t in enumerate(types)]
                defs = [G.Def("struct", "PN_REC", "root.yaml", fields=copy.deepcopy(fields), flags=["padding-name"]),
                        G.Def("message", "PN_MSG", "root.yaml", id=1234, fields=copy.deepcopy(fields), flags=["padding-name"])]
                if auto_pad:
                    defs.append(G.Def("message", "PN_WRAP", "root.yaml", id=1235,
                                      fields=[_fs("padding_0_", "uint8"), _fs("elems", "PN_REC[2]"), _fs("padding_1_", "int16")], flags=["padding-name"]))
                spec = G.FileSpec(path="root.yaml", defs=defs)
                p = G.Program([spec], "root.yaml", {"auto_pad": auto_pad, "validate_alignment": True, "import_coredefs": False}, "single",
                              {"padding-name", "padding-name-table", "layout/" + lname})
                p.classes.update(_gap_classes(p, "PN_REC"))
                out.append(p)
    return out


# ----------------------------------------------------------------------------------------------
# user constants named like the limit constants of the core definitions


def core_limit_constants() -> Dict[str, int]:
    """The integer constants core_defs.yaml publishes (MAX_MESSAGE_SIZE, MAX_CONTIGUOUS_MESSAGE_DATA, MAX_MESSAGE_TYPES, ...)."""
    return {n: v for n, v in G.core_defs()["constants"].items() if isinstance(v, int) and not isinstance(v, bool)}


SIZE_LIMIT_NAME = "MAX_MESSAGE_SIZE"
# name -> what a closure compiled WITHOUT the core definitions declares: [(kind, name, value, text)], kind constant | string
LIMIT_VARIANTS = {
    "size-limit-larger": lambda: [("constant", SIZE_LIMIT_NAME, 1048576, "1048576")],
    "size-limit-huge": lambda: [("constant", SIZE_LIMIT_NAME, 0x7FFFFFFF, "0x7FFFFFFF")],
    "size-limit-plus-one": lambda: [("constant", SIZE_LIMIT_NAME, 65536, "65536")],
    "size-limit-smaller": lambda: [("constant", SIZE_LIMIT_NAME, 1000, "1000")],
    "size-limit-minus-one": lambda: [("constant", SIZE_LIMIT_NAME, 65534, "65534")],
    "size-limit-zero": lambda: [("constant", SIZE_LIMIT_NAME, 0, "0")],
    "size-limit-expression": lambda: [("constant", "HALF_OF_IT", 524288, "524288"), ("constant", SIZE_LIMIT_NAME, 1048576, "2 * HALF_OF_IT")],
    "size-limit-float": lambda: [("constant", SIZE_LIMIT_NAME, 1048576.0, "1048576.0")],
    "size-limit-string": lambda: [("string", SIZE_LIMIT_NAME, "1048576", None)],
    "all-core-limits-larger": lambda: [("constant", n, v * 16, str(v * 16)) for n, v in core_limit_constants().items()],
    "all-core-limits-smaller": lambda: [("constant", n, max(1, v // 16), str(max(1, v // 16))) for n, v in core_limit_constants().items()],
    "all-core-limits-same": lambda: [("constant", n, v, str(v)) for n, v in core_limit_constants().items()],
}
LIMIT_PLACES = ("root", "imported")


def add_limit_constants(p: G.Program, items: List[tuple], place: str = "root", tag: str = "drawn") -> Optional[G.Program]:
    """Copy of the layout closure ``p`` (compiled without the core definitions) that also declares the given constants - in the root
    file, or in a file of their own that the root imports FIRST (read before every definition).  Constants do not change a layout and
    the statement's size limit is a number: the expectation (``expect``) is that of ``p``.  None when p imports the core definitions
    (the names would be duplicates) or uses one of the names itself."""
    if p.import_coredefs or any(p.has(n) for _k, n, _v, _t in items):
        return None
    q = p.clone()
    q.fault = p.fault
    if place == "imported":
        path = "site_limits.yaml"
        if any(sp.path == path for sp in q.specs):
            return None
        root = q.spec(q.root)
        root.imports.insert(0, [path if "/" not in q.root else "/".join([".."] * q.root.count("/")) + "/" + path, path])
        spec = G.FileSpec(path=path)
        q.specs.append(spec)
    else:
        path = q.root
        spec = q.spec(path)
    for kind, name, value, text in items:
        spec.defs.append(G.Def(kind, name, path, value=value, text=text, flags=["limit-constant"]))
    q.classes |= {"limit-constants", "limit-constants/" + tag, "limit-constants/in-" + place + "-file"}
    q.rerender()
    probs = [x for x in q.problems() if x not in set(p.problems())]
    if probs:
        raise G.GeneratorBug("limit constants added problems of their own to a layout program: " + "; ".join(probs[:3]))
    return q


def with_limit_constants(p: G.Program, ch: G.Chooser) -> Optional[G.Program]:
    """``add_limit_constants`` with a drawn declaration: one of the deterministic variants, or 1-4 of the core's constant names (mostly
    MAX_MESSAGE_SIZE among them) with drawn values - far above, far below and right next to 65535 and to the core's own value."""
    if ch.chance(0.5):
        tag = ch.choice(sorted(LIMIT_VARIANTS))
        items = LIMIT_VARIANTS[tag]()
    else:
        core = core_limit_constants()
        names = [n for n in ch.shuffled(sorted(core))[: ch.integer(0, 3)] if n != SIZE_LIMIT_NAME]
        if ch.chance(0.85) or not names:
            names.insert(ch.integer(0, len(names)), SIZE_LIMIT_NAME)
        items = []
        for n in names:
            v = ch.weighted([(core[n] * ch.choice([2, 16, 1000]), 3), (max(0, core[n] // ch.choice([2, 16, 1000])), 3), (core[n] + ch.choice([-1, 1]), 1),
                             (ch.choice([65534, 65536, 65537, 70000, 131072, 1 << 20, 1 << 31, 1 << 40]), 3), (ch.integer(0, 200000), 2)])
            items.append(("constant", n, v, str(v)))
        tag = "drawn"
    return add_limit_constants(p, items, ch.choice(LIMIT_PLACES), tag)


def limit_const_programs(**kw):
    from hypothesis import strategies as st

    G.core_defs()

    @st.composite
    def _lp(draw):
        ch = G.HypChooser(draw)
        return with_limit_constants(G.build_layout_program(ch, boundary=ch.chance(0.8), **kw), ch)

    return _lp()


# ----------------------------------------------------------------------------------------------
# deterministic gcc sample: definitions that end one byte (and 2..7 bytes) short of their alignment

_ONE_SHORT = {
    "TAG": ["int32", "char[3]"],                      # 7 of 8, alignment 4
    "MARK": ["int16", "uint8"],                       # 3 of 4, alignment 2
    "STAMP7": ["double", "char[7]"],                  # 15 of 16, alignment 8
    "STAMP5": ["double", "int32", "int16", "uint8"],  # 15 of 16
    "TRIPLE": ["int16[3]", "int8"],                   # 7 of 8, alignment 2
    "LEAD1": ["uint8", "int16", "uint8"],             # interior 1 + trailing 1
    "SAMPLE": ["double", "TAG", "MARK", "uint8[3]"],  # 23 of 24, nests padded structs
    "ELEMS": ["uint8", "TAG[3]", "MARK[2]", "char"],  # arrays of padded structs
    "VIA_ALIAS": ["SHORT_T", "BYTE_T"],               # 3 of 4 behind aliases
    "PAIR2": ["int32", "int16"],                      # two trailing bytes
    "STAMP1": ["double", "char"],                     # seven trailing bytes
    "TAIL3": ["int64", "char[5]"],                    # three
    "TAIL4": ["double", "float"],                     # four
    "TAIL5": ["double", "char[3]"],                   # five
    "TAIL6": ["double", "int16"],                     # six
    "EXACT": ["int32", "char[4]"],                    # none
}


def one_short_programs() -> List[G.Program]:
    """Closures for the gcc sample of the quick tier (auto_pad on): every definition of the table as a struct and as a message, the
    one-byte cases also as user fields named like padding fields; and the same closure with the trailing byte declared by the user
    (auto_pad off: accepted, nothing added)."""
    out = []
    for variant in ("auto", "padding-names", "user-padded"):
        auto_pad = variant != "user-padded"
        defs = [G.Def("alias", "SHORT_T", "root.yaml", value="int16"), G.Def("alias", "BYTE_T", "root.yaml", value="uint8")]
        mid = 2000
        for name, types in _ONE_SHORT.items():
            fields = [_fs(f"padding_{i}_" if variant == "padding-names" and i != 1 else f"f{i}", t) for i, t in enumerate(types)]
            sd = G.Def("struct", name, "root.yaml", fields=fields, flags=["padding-name"] if variant == "padding-names" else [])
            defs.append(sd)
            if not auto_pad:
                probe = G.Program([G.FileSpec(path="root.yaml", defs=copy.deepcopy(defs))], "root.yaml",
                                  {"auto_pad": True, "validate_alignment": True, "import_coredefs": False})
                sd.fields = [_fs(n, t if ln is None else f"{t}[{ln}]") for n, t, ln in _user_padded(probe, name)]
        for name in list(_ONE_SHORT):
            mid += 1
            defs.append(G.Def("message", "M_" + name, "root.yaml", id=mid, reuse=name) if mid % 2 else
                        G.Def("message", "M_" + name, "root.yaml", id=mid, fields=copy.deepcopy(next(d for d in defs if d.name == name).fields)))
        p = G.Program([G.FileSpec(path="root.yaml", defs=defs)], "root.yaml", {"auto_pad": auto_pad, "validate_alignment": True, "import_coredefs": False},
                      "single", {"one-short-table", "one-short-table/" + variant} | ({"padding-name"} if variant == "padding-names" else set()))
        out.append(p)
    return out


def _user_padded(p: G.Program, name: str) -> List[tuple]:
    """The emitted field list the model expects for ``name`` with the padding fields renamed so that they cannot collide: what a user
    writes who pads by hand."""
    out = []
    for k, (n, t, ln) in enumerate(G.emitted_fields(p, name)):
        out.append((f"pad{k}_by_hand" if n.startswith("padding_") else n, t, ln))
    return out


# ----------------------------------------------------------------------------------------------
# histories on one Parser object

REDEFINE_OPS = ["realign", "resize", "retype", "insert", "delete", "swap", "fresh"]


def _native_field(ch: G.Chooser, name: str, width: Optional[int] = None, total: Optional[int] = None) -> G.FieldSpec:
    w = width or ch.choice([1, 2, 4, 8])
    base = ch.choice(G.BY_WIDTH[w])
    if total is not None:
        n = total // w
        length = None if n == 1 and ch.chance(0.7) else n
    else:
        length = ch.integer(1, 9) if ch.chance(0.4) else None
    return G.FieldSpec(name, base if length is None else f"{base}[{length}]", base, length, None if length is None else str(length))


def _free_field_name(d: G.Def, stem: str = "v") -> str:
    used = {f.name for f in d.fields}
    k = 0
    while f"{stem}{k}" in used:
        k += 1
    return f"{stem}{k}"


def redefine(p: G.Program, ch: G.Chooser) -> Tuple[G.Program, List[str]]:
    """Copy of ``p`` with the SAME file set, definition names and ids in which one or more structs / messages have another field list
    and possibly an alias another target: a native field replaced by one of the same byte size and another alignment (int16[4] <->
    double <-> uint8[8]: 'realign'), another array length ('resize'), another native type ('retype'), a field inserted, deleted, two
    fields swapped, or a whole new list of native fields ('fresh').  References between definitions stay as they are, so alignment
    and size changes propagate into the definitions that nest the changed one.  -> (program, operations applied)."""
    q = p.clone()
    q.expect = None
    q.fault = None
    q.wellformed = True
    recs = [d for s in q.specs for d in s.defs if d.kind in ("struct", "message") and d.fields]
    ops: List[str] = []
    if recs:
        chosen = [d for d in recs if ch.chance(0.5)] or [ch.choice(recs)]
        for d in chosen:
            for _ in range(ch.weighted([(1, 5), (2, 2), (3, 1)])):
                nat = [i for i, f in enumerate(d.fields) if f.base in G.NATIVES]
                op = ch.weighted([("realign", 6 if nat else 0), ("resize", 3 if nat else 0), ("retype", 3 if nat else 0), ("insert", 2),
                                  ("delete", 2 if len(d.fields) > 1 else 0), ("swap", 2 if len(d.fields) > 1 else 0), ("fresh", 2)])
                if op == "realign":
                    i = ch.choice(nat)
                    f = d.fields[i]
                    w = G.NATIVES[f.base]
                    total = w * (f.length or 1)
                    ws = [x for x in (1, 2, 4, 8) if total % x == 0 and x != w]
                    if not ws:
                        op = "retype"
                    else:
                        d.fields[i] = _native_field(ch, f.name, ch.choice(ws), total)
                if op == "resize":
                    i = ch.choice(nat)
                    f = d.fields[i]
                    n = ch.choice([x for x in (None, 1, 2, 3, 4, 5, 8) if x != f.length])
                    d.fields[i] = G.FieldSpec(f.name, f.base if n is None else f"{f.base}[{n}]", f.base, n, None if n is None else str(n))
                if op == "retype":
                    i = ch.choice(nat)
                    f = d.fields[i]
                    w = ch.choice([x for x in (1, 2, 4, 8) if x != G.NATIVES[f.base]])
                    base = ch.choice(G.BY_WIDTH[w])
                    d.fields[i] = G.FieldSpec(f.name, base if f.length is None else f"{base}[{f.length}]", base, f.length, f.length_text)
                if op == "insert":
                    d.fields.insert(ch.integer(0, len(d.fields)), _native_field(ch, _free_field_name(d)))
                if op == "delete":
                    d.fields.pop(ch.integer(0, len(d.fields) - 1))
                if op == "swap":
                    i = ch.integer(0, len(d.fields) - 2)
                    d.fields[i], d.fields[i + 1] = d.fields[i + 1], d.fields[i]
                if op == "fresh":
                    keep = [f for f in d.fields if f.base not in G.NATIVES and ch.chance(0.5)]
                    d.fields = []
                    for k in range(ch.integer(1, 4)):
                        d.fields.append(_native_field(ch, f"w{k}"))
                    for f in keep:
                        d.fields.insert(ch.integer(0, len(d.fields)), f)
                ops.append(op)
    al = [d for s in q.specs for d in s.defs if d.kind == "alias" and d.value in G.NATIVES]
    if al and ch.chance(0.4 if recs else 1.0):
        d = ch.choice(al)
        w = ch.choice([x for x in (1, 2, 4, 8) if x != G.NATIVES[d.value]])
        d.value = ch.choice(G.BY_WIDTH[w])
        ops.append("alias-retarget")
    q.classes = {c for c in q.classes if c in ("layout-profile", "padding-name")} | {"history-step"}
    q.rerender()
    return q, ops


def rename_onto(q: G.Program, p: G.Program) -> Tuple[G.Program, int]:
    """Copy of the independent closure ``q`` whose aliases / structs / messages bear the names the closure ``p`` gave ITS aliases /
    structs / messages (k-th of a kind onto k-th of that kind; a name ``q`` uses otherwise is left alone).  -> (program, names shared)."""
    r = q.clone()
    r.expect = copy.deepcopy(q.expect)
    own = {d.name for s in r.specs for d in s.defs}
    mapping: Dict[str, str] = {}
    for kind in ("alias", "struct", "message"):
        theirs = [d.name for s in p.specs for d in s.defs if d.kind == kind]
        mine = [d.name for s in r.specs for d in s.defs if d.kind == kind]
        for a, b in zip(mine, theirs):
            if b not in own and b not in mapping.values():
                mapping[a] = b
    for s in r.specs:
        for d in s.defs:
            d.name = mapping.get(d.name, d.name)
            if d.reuse is not None:
                d.reuse = mapping.get(d.reuse, d.reuse)
            if d.kind == "alias":
                d.value = mapping.get(d.value, d.value)
            for f in d.fields or []:
                if f.base in mapping:
                    nb = mapping[f.base]
                    f.type_text = nb + f.type_text[len(f.base):]
                    f.base = nb
    if r.expect and r.expect.get("at") in mapping:
        r.expect["at"] = mapping[r.expect["at"]]
    r.classes.add("history-step")
    r.rerender()
    return r, len(mapping)


def late_fault(p: G.Program, kind: str = "unknown-field-type") -> G.Program:
    """Copy of ``p`` that the compiler rejects only at the very END of the root file, after every struct and message of the closure has
    been checked: a last message whose field has an unknown type (RTMASyntaxError) or whose id repeats that of an earlier message
    (MessageIDError).  ``fault`` = {"kind", "file"}; no layout expectation belongs to such a step."""
    q = p.clone()
    ids = [d.id for s in q.specs for d in s.defs if d.kind in ("message", "signal") and isinstance(d.id, int)]
    names = {d.name for s in q.specs for d in s.defs}
    name = "LATE_FAULT"
    while name in names:
        name += "_X"
    if kind == "duplicate-message-id" and ids:
        d = G.Def("message", name, q.root, id=ids[0], fields=[G.FieldSpec("v", "int32", "int32")], flags=["late-fault"])
    else:
        kind = "unknown-field-type"
        mid = next(i for i in range(9999, 0, -1) if i not in ids)
        d = G.Def("message", name, q.root, id=mid, fields=[G.FieldSpec("v", "int32", "int32"), G.FieldSpec("oops", "no_such_type", "no_such_type")],
                  flags=["late-fault"])
    q.spec(q.root).defs.append(d)
    q.wellformed = False
    q.expect = None
    q.fault = {"kind": kind, "file": q.root}
    q.classes.add("late-fault")
    q.rerender()
    return q


def build_layout_history(ch: G.Chooser) -> Dict[str, Any]:
    """-> {"steps": [Program, ...], "clear": [bool, ...], "ops": [[...], ...]}: 2-3 closures for ONE Parser object (all with the options
    of the first).  Step k+1 is step k redefined (``redefine``), an independent layout closure under the names of step k
    (``rename_onto``) or - rarely - the very same closure again; about half of the steps that the model accepts get a ``late_fault``,
    so that the parse is rejected after all layouts were computed; the others end rejected by the layout rules themselves (auto_pad
    off and padding needed, size > 65535) or accepted.  ``clear[k]``: call Parser.clear() explicitly before parse k (it is always
    called after an ACCEPTED parse - nothing is claimed about accumulating closures; a rejected parse() has cleared already)."""
    ap = ch.choice([True, False])
    plain = [G.build_layout_program(ch, auto_pad=ap)]
    ops: List[List[str]] = [[]]
    for _ in range(ch.weighted([(1, 3), (2, 2)])):
        mode = ch.weighted([("redefine", 6), ("independent", 2), ("same", 1)])
        if mode == "redefine":
            q, o = redefine(plain[-1], ch)
        elif mode == "independent":
            q, n = rename_onto(G.build_layout_program(ch, auto_pad=ap), plain[-1])
            o = [f"independent/{n}-names-shared"]
        else:
            q, o = plain[-1].clone(), ["same"]
            q.expect = None
        if ch.chance(0.15):
            q = with_padding_names(q, ch) or q
        plain.append(q)
        ops.append(o)
    steps = []
    for k, q in enumerate(plain):
        last = k == len(plain) - 1
        if ch.chance(0.2 if last else 0.5):
            q = late_fault(q, ch.choice(["unknown-field-type", "unknown-field-type", "duplicate-message-id"]))
        steps.append(q)
    return {"steps": steps, "clear": [False] + [ch.chance(0.5) for _ in steps[1:]], "ops": ops}


def layout_histories():
    from hypothesis import strategies as st

    G.core_defs()

    @st.composite
    def _lh(draw):
        return build_layout_history(G.HypChooser(draw))

    return _lh()


_HT_LISTS = [["int16[4]"], ["double"], ["uint8[8]"], ["int32", "uint32"], ["int32"], ["int16", "uint16"], ["uint8[4]"], ["uint8[3]"],
             ["double", "int64"]]


def _ht_program(fields: List[str], auto_pad: bool) -> G.Program:
    defs = [G.Def("struct", "HT_REC", "root.yaml", fields=[_fs(f"a{i}", t) for i, t in enumerate(fields)]),
            G.Def("message", "HT_MSG", "root.yaml", id=1001, fields=[_fs("x", "int16"), _fs("s", "HT_REC")]),
            G.Def("message", "HT_ARR", "root.yaml", id=1002, fields=[_fs("c", "uint8"), _fs("elems", "HT_REC[2]")])]
    spec = G.FileSpec(path="root.yaml", defs=defs)
    return G.Program([spec], "root.yaml", {"auto_pad": auto_pad, "validate_alignment": True, "import_coredefs": False}, "single",
                     {"history-table", "history-step"})


def history_table() -> List[Dict[str, Any]]:
    """Every ordered pair (old, new) of nine field lists for one struct HT_REC (8 bytes with alignment 2 / 8 / 1 / 4, 4 bytes with
    alignment 4 / 2 / 1, 3 bytes, 16 bytes) nested in a message after an int16 and used as array element after one byte; the first
    closure is rejected by a late fault (with and without an explicit clear() afterwards) or taken as it is (accepted -> clear(),
    or rejected by the layout rules with auto_pad off); auto_pad on and off."""
    out = []
    for old in _HT_LISTS:
        for new in _HT_LISTS:
            for auto_pad in (True, False):
                for tr in ("late-fault", "late-fault+clear", "as-is"):
                    a, b = _ht_program(old, auto_pad), _ht_program(new, auto_pad)
                    if tr.startswith("late-fault"):
                        a = late_fault(a)
                    out.append({"steps": [a, b], "clear": [False, tr.endswith("+clear")], "ops": [[], ["table"]]})
    return out


# ----------------------------------------------------------------------------------------------
# driving and observing one Parser object


def parse_on(ps, p: G.Program, d: str, timeout: float = 45.0) -> G.ParseOutcome:
    """Replace the content of directory ``d`` by closure p and parse it with the given (possibly used) Parser.  Outcome "Timeout"
    when the parse does not return within ``timeout`` seconds (main thread only)."""
    import signal
    import threading

    for name in os.listdir(d):
        path = os.path.join(d, name)
        shutil.rmtree(path, ignore_errors=True) if os.path.isdir(path) else os.remove(path)
    root = p.write(d)
    cwd = os.getcwd()
    use_alarm = timeout and threading.current_thread() is threading.main_thread() and hasattr(signal, "setitimer")

    def _on_alarm(signum, frame):
        raise G._ParseTimeout()

    prev = None
    try:
        if use_alarm:
            prev = signal.signal(signal.SIGALRM, _on_alarm)
            signal.setitimer(signal.ITIMER_REAL, timeout)
        ps.parse(root)
        return G.ParseOutcome("ok", ps, None, root)
    except G._ParseTimeout:
        return G.ParseOutcome("Timeout", None, None, root)
    except BaseException as e:  # noqa
        if isinstance(e, (KeyboardInterrupt, SystemExit)):
            raise
        return G.ParseOutcome(type(e).__name__, None, e, root)
    finally:
        if use_alarm:
            signal.setitimer(signal.ITIMER_REAL, 0)
            signal.signal(signal.SIGALRM, prev)
        try:
            os.chdir(cwd)
        except OSError:
            pass


def release(ps):
    """Remove the console handler and the logging.Logger object a Parser instance leaves behind."""
    import logging

    for h in list(ps.logger.handlers):
        ps.logger.removeHandler(h)
    logging.Logger.manager.loggerDict.pop(ps.logger.name, None)


def snapshot(ps) -> Dict[str, Any]:
    """The complete layout a Parser holds after an accepted parse: per alias (target, size, alignment), per struct / message
    (alignment, size, [(field name, type name, length, offset, alignment, size)])."""
    out: Dict[str, Any] = {}
    for n, a in ps.aliases.items():
        out["alias " + n] = (a.type_name, a.size, a.alignment)
    for kind, table in (("struct", ps.struct_defs), ("message", ps.message_defs)):
        for n, o in table.items():
            out[f"{kind} {n}"] = (o.alignment, o.size, [(f.name, f.type_name, f.length, f.offset, f.alignment, f.size) for f in o.fields])
    return out
