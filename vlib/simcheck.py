"""Boilerplate shared by the Engine-A checks: one Hypothesis campaign per shard over
(configuration, history) pairs for a given profile."""
from __future__ import annotations

import time
from typing import Callable, List, Optional

from hypothesis import strategies as st

from . import mgen
from .common import Result, RunContext, Violation, conclude, derive_seed, hyp_run, run_shards

SIM_ASSUME = [
    "the kernel is replaced by an in-memory stream model (FIFO byte queues, FIN/RST, MSG_WAITALL, Linux reset semantics)",
    "service order, writable set and clock are supplied by the harness through the manager's module-level select/random/time names",
    "publishes are identified by a tag in the first 8 payload bytes, or by send_time for payloads < 8 bytes",
]


class SimCheck:
    def __init__(self, prop: str, profiles: List[mgen.Profile], cfgs: List[dict], rule: str, assume: List[str],
                 quick=(1000, 50), thorough=(20000, 120), nontrivial: Optional[Callable] = None,
                 extra: Optional[Callable] = None, collect=False, min_len=12, min_clients=2):
        self.prop = prop
        self.profiles = profiles
        self.cfgs = cfgs
        self.rule = rule
        self.assume = SIM_ASSUME + assume
        self.quick = quick
        self.thorough = thorough
        self.nontrivial = nontrivial
        self.extra = extra  # extra(ctx, res): additional deterministic/exhaustive sub-campaigns
        self.collect = collect
        self.min_len = min_len
        self.min_clients = min_clients

    def shard(self, seed: int, n_examples: int, max_len: int, pi: int) -> Result:
        res = Result()
        pf = self.profiles[pi]

        def body(v):
            ci, raws = v
            cfgs = self.cfgs[pf.name] if isinstance(self.cfgs, dict) else self.cfgs
            cfg = cfgs[ci % len(cfgs)]
            w = mgen.run_history(cfg, pf, raws, self.prop)
            if self.nontrivial:
                self.nontrivial(w, res)
            else:
                for s in w.shapes:
                    res.shape(*s)
            for k, n in w.stats.items():
                res.count(k, n)
            res.count("histories")
            res.count("histories-" + pf.name)
            res.count("rounds", w.rounds)
            if len(res.samples) < 2 and w.shapes:
                res.sample({"cfg": cfg, "profile": pf.name, "ops": w.trace[:80]})

        strat = st.tuples(st.integers(0, 5),
                          mgen.raw_ops(pf, max_len, min_len=self.min_len, min_clients=self.min_clients))
        hyp_run(body, strat, seed, n_examples, res, collect=self.collect)
        return res

    def run(self, ctx: RunContext) -> int:
        t0 = time.time()
        n, max_len = self.quick if ctx.quick else self.thorough
        n = ctx.scale(n, n)
        shards = [(derive_seed(ctx.seed, i), n, max_len, i % len(self.profiles)) for i in range(16)]
        res = run_shards(self.shard, shards)
        if self.extra:
            res.merge(self.extra(ctx))
        return conclude(ctx, res, self.rule, self.assume, t0)

    def replay_trace(self, tr: dict):
        if tr.get("kind") and self.replay_extra:
            self.replay_extra(tr)
        else:
            mgen.replay_history(tr, self.prop)

    replay_extra = None
