"""Real pyrtma.Client objects running on the Engine-A simulator.

`pyrtma.client.socket / select / time` are module attributes of the client module; they are
replaced by shims that share the simulator's in-memory network and virtual clock.  A client-side
select for readability *pumps* the manager (one select round at a time, everything ready and
writable) until the client's socket has bytes or the manager is idle; on idle it advances the
virtual clock by the timeout, so a missing ACK ends in AcknowledgementTimeout instead of a hang.
"""
from __future__ import annotations

import logging
from typing import List, Optional

from . import simnet
from .common import HarnessError
from .simnet import LISTENER, SOCK, VTIME, FakeSocket, Sim

_installed = False
CURRENT: Optional["ClientSim"] = None


class ClientSelectShim:
    error = OSError

    def select(self, rlist, wlist, xlist, timeout=None):
        cs = CURRENT
        if cs is None:
            raise HarnessError("client select shim used with no active ClientSim")
        rlist, wlist = list(rlist), list(wlist)
        for s in rlist + wlist:
            if s.closed:
                raise ValueError("file descriptor cannot be a negative integer (-1)")
        if wlist and not rlist:
            if timeout is not None and getattr(cs, "busy_sends", 0) > 0:
                # the manager is momentarily not reading and the client's send buffer is full: a wait with a finite timeout
                # expires (a blocking wait simply lasts until the manager reads again)
                cs.busy_sends -= 1
                VTIME.now += max(0.0, float(timeout))
                return [], [], []
            return [], wlist, []
        if not rlist:
            return [], [], []

        def ready():
            return [s for s in rlist if s.rx or s.rx_fin or s.rx_rst]

        r = ready()
        if r:
            return r, [], []
        cs.pump()
        r = ready()
        if r:
            return r, [], []
        if timeout is None:
            raise HarnessError("client would block forever in select(): no data will ever arrive")
        VTIME.now += max(0.0, float(timeout))
        cs.pump()  # timers may have fired
        return ready(), [], []


CSEL = ClientSelectShim()


def install():
    global _installed
    import pyrtma.client as pc

    simnet.install()
    if _installed:
        return
    for name in ("socket", "select", "time"):
        if not hasattr(pc, name):
            raise HarnessError(f"seam pyrtma.client.{name} no longer exists")
    pc.socket = SOCK
    pc.select = CSEL
    pc.time = VTIME
    pc.print = lambda *a, **k: None

    class QuietLogger(pc.RTMALogger):
        def init_console_handler(self):
            h = logging.NullHandler()
            h.name = "Console Handler"
            return h

    pc.RTMALogger = QuietLogger
    _installed = True


class ClientSim:
    """A Sim plus helpers to run real Clients and raw probe connections against it."""

    def __init__(self, timecode=False, send_msg_timing=True, log_level=logging.ERROR):
        global CURRENT
        install()
        self.sim = Sim(timecode=timecode, send_msg_timing=send_msg_timing, log_level=log_level)
        self.timecode = timecode
        CURRENT = self
        self.clients = []
        self.pumping = False

    def pump(self, max_rounds=10000):
        """Let the manager serve everything pending (everyone writable)."""
        if self.pumping:
            return
        self.pumping = True
        try:
            sim = self.sim
            n = 0
            while not (sim.dead or sim.exited):
                # connections created by real clients are adopted lazily
                known = {c.c for c in sim.conns}
                for cli, srv in sim.net.pairs:
                    if cli not in known:
                        sim.adopt(cli)
                ready = []
                if sim.listener.backlog:
                    ready.append(LISTENER)
                ready += [c for c in sim.conns if sim.readable(c)]
                if not ready:
                    break
                sim.step(ready, [c for c in sim.conns if c.accepted or True], 0.0)
                n += 1
                if n > max_rounds:
                    raise HarnessError("pump does not terminate")
        finally:
            self.pumping = False

    def new_client(self, *args, **kw):
        import pyrtma.client as pc

        SOCK.label = f"cl{len(self.clients)}"
        c = pc.Client(*args, **kw)
        self.clients.append(c)
        return c

    def conn_of(self, client) -> "simnet.Conn":
        for c in self.sim.conns:
            if c.c is client._sock:
                return c
        for cli, srv in self.sim.net.pairs:
            if cli is client._sock:
                return self.sim.adopt(cli)
        raise HarnessError("client has no connection on the simulator")

    def close(self):
        global CURRENT
        for c in self.clients:
            try:
                c._connected = False
                c._sock.close()
            except Exception:
                pass
            name = hex(id(c))
            lg = logging.Logger.manager.loggerDict.pop(name, None)
            if lg is not None and hasattr(lg, "handlers"):
                for h in list(lg.handlers):
                    lg.removeHandler(h)
        self.sim.close()
        if CURRENT is self:
            CURRENT = None
