"""C11 - accepted layouts are naturally aligned with only explicit padding.

Parser level (``Parser(validate_alignment=True, auto_pad=...)``) on generated definition closures.  The oracle is the
harness' own natural-layout model computed from the USER's field list (vlib.defgen.natural_layout: align-up per field,
struct alignment = strictest member, size rounded up, array stride = element size, recursion through nested structs and
aliases), cross-checked by two real C ABIs: ctypes structures built by the check from the emitted field list, and - for
a sample in quick, for every accepted closure in thorough - gcc compiling the generated C header with a probe that
prints sizeof / _Alignof / offsetof.  Which emitted fields are padding is decided by position (what is not the user's), so user
fields may bear the names of the compiler's own padding fields.  Histories (vlib.defgen_layout): several closures parsed by ONE
Parser object, later ones redefining names of earlier ones; every parse must equal a fresh Parser's and satisfy the model.
"""
from __future__ import annotations

import ctypes
import itertools
import os
import re
import shutil
import subprocess
import time

from vlib import defgen as G
from vlib import defgen_layout as L
from vlib.common import HarnessError, Result, RunContext, Violation, conclude, derive_seed, hyp_run, run_shards

RULE = ("Hypothesis draws definition closures for the layout profile: 1-2 files, aliases of natives and of aliases, 1-5 structs and 1-3 messages "
        "whose field sequences are drawn freely over all native names of width 1/2/4/8, aliases, earlier structs (own alignment 1/2/4/8), "
        "earlier messages, arrays of natives and of structs with lengths 1..9, the documented length set, any length up to 4000 bytes worth and "
        "lengths that put the size next to 65535 (65528..65540 exactly), field-list reuse, sequences padded by the user completely, partly or "
        "not at all; auto_pad on and off. A second stream are the general well-formed programs of the generator (cross-file nesting, "
        "constant-expression lengths, alias chains, messages in messages, explicit user padding) with validation on. The sub-domain of ALL "
        "sequences of <= 4 fields over {1,2,4,8}-byte scalars and arrays of length 1 and 3 (22620 structs, each also as element of an array "
        "inside a wrapper message after a single byte) is enumerated completely in both tiers, auto_pad on and off, and so is a table of "
        "definitions whose declared bytes total 65520..65551 for strictest alignment 1/2/4/8 (512 cases), each compiled without the core definitions as it is "
        "and with 12 declarations of user constants NAMED LIKE THE CORE'S LIMIT CONSTANTS (MAX_MESSAGE_SIZE alone: 1048576, 0x7FFFFFFF, 65536, 65534, 1000, 0, as an "
        "expression, a float, a string constant; all 15 integer constants of core_defs.yaml x16, /16 and unchanged), in the root file or in a file imported first, "
        "and every fourth case with the core definitions imported: the limit is the number 65535 whatever constants exist. Generator class limit-constants: drawn "
        "layout closures (80% with sizes next to 65535) that declare 1-4 such constants with drawn values. The configuration itself is chosen in every "
        "documented way: Parser(...) arguments (all of the above), and a deterministic matrix of 5 layouts (interior padding, trailing "
        "padding, none, arrays, user fields named like padding fields) x auto_pad on/off through compile(...) keyword arguments, command line flags (--no_auto_pad, "
        "--no_core_import) and a compiler_options section in the root file (AUTO_PAD, VALIDATE_ALIGNMENT, IMPORT_COREDEFS; honoured by the "
        "command line), each compiled to a C header whose declared fields must be the user's list with padding exactly in the natural "
        "gaps, or rejected with AlignmentError (exit status 1, no output); thorough adds random layout closures through drawn entry points. "
        "The matrix also holds the CONFLICTING combinations: an explicit compile() keyword argument (auto_pad / validate_alignment, either value) or an "
        "explicit command line switch (--no_auto_pad, --no_val_align) against the opposite AUTO_PAD / VALIDATE_ALIGNMENT entry in the root file's "
        "compiler_options section - the explicit choice must take effect (the file only provides the command line's defaults). "
        "The matrix also has two layouts with ONE trailing padding byte ({int32; char[3]}, {int16; uint8}) and the size limit through every way of compiling without "
        "the core definitions (import_coredefs=False, --no_core_import, IMPORT_COREDEFS: false) with such user constants: 70008 and 65536 bytes must fail with "
        "InvalidMessageSize, 65535 bytes must compile. "
        "Generator class padding-name: user fields called padding_<n>_ (n = 0..3, the names of the compiler's own padding fields) in definitions "
        "with interior gaps, trailing gaps and none: a covering table (6 layouts x every field / all fields so named, struct, array element, message, "
        "auto_pad on/off), drawn layout closures with such names, and one layout of the configuration matrix. "
        "HISTORIES on one Parser object: 2-3 layout closures parsed one after the other by the same instance in the same directory (Parser.clear() "
        "after an accepted parse; after a rejected parse - rejected by the layout rules, or by a deliberate fault at the very end of the root file "
        "(unknown field type, repeated message id) so that every layout was computed before - clear() is called or not, parse() has cleared itself); "
        "later closures keep the struct / message / alias names of earlier ones with other field lists (a native field of the same byte size and "
        "another alignment, another length, another type, fields inserted / deleted / swapped, a fresh list, an alias retargeted, or an independent "
        "closure under the same names); a table enumerates all ordered pairs of 9 field lists (8 bytes aligned 2/8/1/4, 4 bytes aligned 4/2/1, 3 and "
        "16 bytes) for one nested struct x 3 transitions x auto_pad on/off. Every parse of a history must have the outcome of a FRESH Parser on the same "
        "files (accepted / exception class; alignment, size and per field name, type, length, offset, alignment, size incl. padding fields) and satisfy "
        "the layout model below. Oracle: accepted <=> "
        "(auto_pad on or the natural layout of the user's list needs no padding anywhere) and natural size <= 65535, else AlignmentError / "
        "InvalidMessageSize; for every accepted definition the user's list (names, types, lengths, order) is contained in the emitted list in "
        "order, everything else in the emitted list is a char padding field (padding is what is NOT the user's, by position - not by name), no two "
        "emitted fields of a definition bear the same name, every field starts at a multiple of its alignment, the size is the sum of the emitted fields, a "
        "multiple of the strictest alignment and equal to the natural sizeof, and ctypes / gcc place every emitted field exactly at the "
        "running sum; in the generated C header gcc's sizeof of every member equals the emitted field's size, the member sizes add up to sizeof(struct) and no "
        "array member is declared with length 0 (a member gcc gives no size is padding the compiler inserts itself). The gcc sample of the quick tier: every 12th drawn "
        "closure, the first batch of the enumerated sub-domain in every shard (16 x 120 structs + their wrappers) and a fixed table of 16 definitions ending 1..7 "
        "bytes short of their alignment (9 of them exactly one byte: {int32; char[3]}, {int16; uint8}, nested, as array elements, behind aliases) as struct and as "
        "message, with automatic padding, with user fields named like padding fields, and padded by hand with auto_pad off. Non-trivial = a definition that needs >= 1 padding byte or nests a struct of alignment < 8; distinct = (auto_pad, "
        "outcome, per field (alignment, scalar/array, native/nested), gap positions); for histories (auto_pad, per parse fault?/outcome, clear() "
        "pattern, kinds of redefinition), non-trivial when a later closure redefines a name.")
ASSUME = [
    "natural alignment of a native type is its size; x86-64 SysV ABI of this machine (gcc 12, ctypes) stands for 'every C compiler'",
    "a padding field is an emitted field that is not the user's (the user's list is matched as a subsequence from the left); padding NAMES are a don't-care except that no two fields of one emitted definition may share a name (every output addresses fields by name: a C struct with a duplicate member does not compile, a ctypes class keeps one of the two) - key user-field-shadowed-by-padding",
    "precedence of configuration sources, read off the unchanged package (no document beyond these): compile()'s docstring defines its keyword arguments as THE configuration (compile() never reads compiler_options); main() reads the root file's compiler_options 'to replace the defaults prior to parsing command line args', so an explicit --no_auto_pad / --no_val_align wins over the file. Not asserted (no document decides): compile() called WITHOUT the keyword argument against an entry in the file; IMPORT_COREDEFS conflicts (no layout consequence)",
    "with --no_val_align given explicitly against VALIDATE_ALIGNMENT: true in the file the expected result is the documented effect of switching validation off (accepted, nothing padded: 'auto_pad has no effect if validate_alignment is False'); this is asserted only as the observable of the precedence rule, two cases",
    "histories: Parser.clear() is public and is what parse() itself calls on rejection; a cleared Parser is expected to behave like a new one. Nothing is claimed about a second parse() WITHOUT clear() after an accepted one (tests/test_parser.py relies on accumulation), so clear() is always called there",
    "a history step with a deliberate late fault has no layout expectation; only equality with a fresh Parser (same exception class) is asserted for it",
    "equality of the padded size with the natural sizeof (minimal padding) is asserted because 'accepted exactly when it needs none' defines what is needed; it has its own finding key (padding-not-minimal)",
    "'Definitions larger than 65535 bytes are rejected' is read literally: 65535 is part of the statement, not the value of whatever constant is called MAX_MESSAGE_SIZE in the files being compiled (core_defs.yaml publishes 65535 under that name; with the core imported a user constant of that name is a DuplicateNameError, so the question only arises without it). Definitions of at most 65535 bytes that need no padding were already expected to be accepted (key rejected-although-size-le-65535); that holds with such constants too",
    "a trailing padding field of one byte may be declared in C as a scalar or as an array of length 1 (both are one declared byte); an array of length 0 declares nothing and is reported",
    "arrays declared with length 0 are not layouts (rejected as a syntax error since the fix of F21) and are not generated",
    "a gcc failure or timeout on a generated header is counted as inconclusive, never as a violation (loading in C is property C15)",
    "a parse that does not return within 45 s (normal: milliseconds) is interrupted and counted as inconclusive; after three of them a shard stops feeding the compiler",
    "every type name in pyrtma.parser.supported_types counts as a native type of the quantifier 'all native widths' (that table is the compiler's own statement of what it supports), also names no document lists",
    "with validate_alignment off nothing is claimed by the property; such programs are not part of this check",
]

# ----------------------------------------------------------------------------------------------
# expectation from the model


def expected_outcome(p: G.Program):
    for d in p.defs:
        if d.kind in ("struct", "message"):
            lay = G.natural_layout(p, d.name)
            if not p.auto_pad and lay.own_padding:
                return "AlignmentError", d.name
            if lay.size > G.MAX_SIZE:
                return "InvalidMessageSize", d.name
    return "ok", None


_CT = {("char", 1): ctypes.c_char, ("int", 1): ctypes.c_int8, ("int", 2): ctypes.c_int16, ("int", 4): ctypes.c_int32,
       ("int", 8): ctypes.c_int64, ("uint", 1): ctypes.c_uint8, ("uint", 2): ctypes.c_uint16, ("uint", 4): ctypes.c_uint32,
       ("uint", 8): ctypes.c_uint64, ("float", 4): ctypes.c_float, ("float", 8): ctypes.c_double}


class _CBuilder:
    """ctypes structures with the platform's natural packing, built from a field-list provider."""

    def __init__(self, p: G.Program, fields_of):
        self.p = p
        self.fields_of = fields_of  # name -> [(fname, type_name, length)]
        self.cache = {}

    def ctype(self, type_name: str):
        r = self.p.resolve_type(type_name)
        if r.kind == "native":
            return _CT[(G.NATIVE_KIND[r.name], G.NATIVES[r.name])]
        return self.struct(r.name)

    def struct(self, name: str):
        if name not in self.cache:
            fl = []
            for i, (fn, tn, ln) in enumerate(self.fields_of(name)):
                t = self.ctype(tn)
                fl.append((f"f{i}", t * ln if ln else t))
            self.cache[name] = type("S_" + name, (ctypes.Structure,), {"_fields_": fl})
        return self.cache[name]


def shape_of(p: G.Program, name: str):
    lay = G.natural_layout(p, name)
    fs = []
    pos = 0
    gaps = []
    for i, lf in enumerate(lay.fields):
        nested = p.resolve_type(lf.base).kind != "native"
        fs.append((lf.align, "a" if lf.length is not None else "s", "n" if nested else "p"))
        if lf.offset > pos:
            gaps.append(i)
        pos = lf.offset + lf.size
    if lay.size > pos:
        gaps.append(-1)
    return tuple(fs), tuple(gaps)


def nontrivial(p: G.Program, name: str) -> bool:
    lay = G.natural_layout(p, name)
    if lay.own_padding:
        return True
    for lf in lay.fields:
        if p.resolve_type(lf.base).kind != "native" and lf.align < 8:
            return True
    return False


# ----------------------------------------------------------------------------------------------
# one program


TIMEOUTS = {"n": 0}


def check_program(p: G.Program, res: Result = None, gcc: bool = False, only=None):
    if not p.validate_alignment:
        raise HarnessError("C11 needs validate_alignment on")
    trace = {"program": p.to_json()}
    exp, at = expected_outcome(p)
    if p.expect is not None and (p.expect["outcome"], p.expect["at"]) != (exp, at):
        raise HarnessError(f"generator expectation {p.expect} disagrees with the layout model {(exp, at)}")
    if TIMEOUTS["n"] >= 3:
        return  # the compiler keeps hanging: stop feeding it (what was found so far is reported)
    out = G.parse_program(p, keep=gcc, timeout=45.0)
    if out.outcome == "Timeout":
        TIMEOUTS["n"] += 1
        if res is not None:
            res.inconclusive += 1
            res.count("inconclusive/parser-did-not-return-within-45s")
        if gcc and out.root:
            shutil.rmtree(_top(p, out.root), ignore_errors=True)
        return
    try:
        _judge(p, out, exp, at, trace, res, gcc, only)
    finally:
        if gcc and out.root:
            shutil.rmtree(_top(p, out.root), ignore_errors=True)


def _top(p: G.Program, root: str) -> str:
    d = root
    for _ in p.root.split("/"):
        d = os.path.dirname(d)
    return d


def _describe(p, name):
    d = p.by_name(name)
    if d.reuse:
        return f"{d.kind} {name} (fields: {d.reuse}) = {[f.type_text for f in p.user_fields(name)]}"
    return f"{d.kind} {name} {[f.type_text for f in p.user_fields(name)]}"


def _judge(p, out, exp, at, trace, res, gcc, only):
    ap = "on" if p.auto_pad else "off"
    if exp == "ok" and not out.ok:
        if out.outcome == "AlignmentError":
            raise Violation("rejected-although-no-padding-needed", f"auto_pad {ap}: every definition is naturally aligned by the user's own "
                            f"fields, yet the compiler raised AlignmentError: {str(out.exc)[:200]}", trace)
        if out.outcome == "InvalidMessageSize":
            lim = ""
            if "limit-constants" in p.classes:
                lim = (" (compiled without the core definitions; the files declare " + ", ".join(f"{d.name}: {d.text if d.text is not None else d.value}" for d in p.defs if "limit-constant" in d.flags)[:200]
                       + " - the limit of the statement is 65535 whatever constants exist)")
            raise Violation("rejected-although-size-le-65535", f"auto_pad {ap}: no definition is larger than 65535 bytes{lim}, yet: {str(out.exc)[:200]}", trace)
        from pyrtma.parser import ParserError

        if not isinstance(out.exc, ParserError):
            sc = " (uses the native type name 'signed char' of the parser's table of supported types)" if "signed-char" in p.classes or "native-name/signed char" in p.classes else ""
            raise Violation(f"internal-error/{out.outcome}", f"auto_pad {ap}: a definition closure built from the parser's supported types{sc} ended in an internal "
                            f"error instead of a layout or a ParserError: {out.outcome}: {str(out.exc)[:300]}", trace)
        raise Violation(f"rejected/{out.outcome}", f"auto_pad {ap}: a definition closure the grammar accepts failed with {out.outcome}: {str(out.exc)[:300]}", trace)
    if exp != "ok":
        lay = G.natural_layout(p, at)
        if out.ok:
            if exp == "AlignmentError":
                raise Violation("accepted-although-padding-needed", f"auto_pad off: {_describe(p, at)} needs {lay.own_padding} padding byte(s) "
                                f"(natural offsets {[lf.offset for lf in lay.fields]}, size {lay.size}) but was accepted", trace)
            lim = ""
            if "limit-constants" in p.classes:
                lim = ("; compiled without the core definitions, the files declare " + ", ".join(f"{d.name}: {d.text if d.text is not None else d.value}" for d in p.defs if "limit-constant" in d.flags)[:200]
                       + " - the limit of the statement is 65535 whatever constants exist")
            raise Violation("accepted-oversize", f"auto_pad {ap}: {_describe(p, at)} has natural size {lay.size} > 65535 but was accepted{lim}", trace)
        if out.outcome != exp:
            raise Violation(f"wrong-error/{exp}/{out.outcome}", f"auto_pad {ap}: {_describe(p, at)} (natural size {lay.size}, padding needed "
                            f"{lay.own_padding}) must fail with {exp}, got {out.outcome}: {str(out.exc)[:200]}", trace)
        if res is not None:
            res.count("programs")
            res.count(f"outcome/{exp}/auto_pad-{ap}")
            if "limit-constants" in p.classes:
                res.count(f"class/limit-constants/{exp}")
            if nontrivial(p, at):
                res.shape(p.auto_pad, exp, *shape_of(p, at))
        return
    ps = out.parser
    emitted_cache = {}

    def emitted(name):
        if name not in emitted_cache:
            obj = ps.struct_defs.get(name) or ps.message_defs.get(name)
            if obj is None:
                raise Violation("definition-missing", f"{name} is not registered after a successful parse", trace)
            emitted_cache[name] = [(f.name, f.type_name, f.length) for f in obj.fields]
        return emitted_cache[name]

    cb = _CBuilder(p, emitted)
    ub = _CBuilder(p, lambda n: [(f.name, f.base, f.length) for f in p.user_fields(n)])
    sizes = {}
    padded_any = False
    for d in p.defs:
        if d.kind not in ("struct", "message") or (only and d.name not in only):
            continue
        name = d.name
        obj = ps.struct_defs.get(name) if d.kind == "struct" else ps.message_defs.get(name)
        em = emitted(name)
        user = [(f.name, f.base, f.length) for f in p.user_fields(name)]
        pad_idx, found = L.split_emitted(em, user)
        pad_pos = set(pad_idx)
        pads = [em[i] for i in pad_idx]
        what = f"auto_pad {ap}: {_describe(p, name)}"
        if not found:
            raise Violation("user-fields-changed", f"{what}: the emitted fields are {em}; the user's list {user} is not contained in it in this order "
                            f"(a user field was dropped, resized, retyped, renamed or moved)", trace)
        enames = [e[0] for e in em]
        dup = sorted({n for n in enames if enames.count(n) > 1})
        if dup and len({u[0] for u in user}) == len(user):
            raise Violation("user-field-shadowed-by-padding", f"{what}: the emitted field list {em} has two fields called {dup}: the user's field and a "
                            f"padding field the compiler added under the same name. Fields are addressed by name in every output, so the user's "
                            f"field is lost there (the C header has a duplicate member, the generated Python class keeps only one of the two)", trace)
        for e in pads:
            if e[1] != "char":
                raise Violation("padding-not-char", f"{what}: padding field {e} is not of type char", trace)
        if pads and not p.auto_pad:
            raise Violation("padding-added-with-auto-pad-off", f"{what}: padding fields {pads} were added although auto_pad is off", trace)
        off, maxal, uoffs = 0, 1, []
        offs = []
        for k, (fn, tn, ln) in enumerate(em):
            es, al = G.type_size_align(p, tn)
            if off % al:
                raise Violation("field-misaligned", f"{what}: emitted layout {em} puts {fn} ({tn}, alignment {al}) at offset {off}", trace)
            offs.append(off)
            if k not in pad_pos:
                uoffs.append(off)
            off += es * (ln or 1)
            maxal = max(maxal, al)
        if off % maxal:
            raise Violation("size-not-multiple-of-alignment", f"{what}: emitted layout {em} has size {off}, strictest member alignment {maxal}", trace)
        if obj.size != off:
            raise Violation("size-not-sum-of-fields", f"{what}: the compiler reports size {obj.size}, its emitted fields {em} add up to {off}", trace)
        if off > G.MAX_SIZE:
            raise Violation("accepted-oversize", f"{what}: accepted with size {off} > 65535", trace)
        lay = G.natural_layout(p, name)
        if uoffs != [lf.offset for lf in lay.fields] or off != lay.size:
            raise Violation("padding-not-minimal", f"{what}: emitted layout {em} puts the user fields at {uoffs} (size {off}); the natural C "
                            f"layout of the user's list is {[lf.offset for lf in lay.fields]} (size {lay.size})", trace)
        # a real ABI implementation: no hidden padding in what was emitted
        ct = cb.struct(name)
        got = [getattr(ct, f"f{i}").offset for i in range(len(em))]
        if ctypes.sizeof(ct) != off or got != offs:
            raise Violation("hidden-padding/ctypes", f"{what}: emitted layout {em}: ctypes places the fields at {got} (sizeof {ctypes.sizeof(ct)}), "
                            f"the declared sizes add up to {offs} (size {off})", trace)
        if ctypes.sizeof(ub.struct(name)) != lay.size:
            raise HarnessError(f"layout model disagrees with ctypes for the user's list of {name}: {lay.size} vs {ctypes.sizeof(ub.struct(name))}")
        sizes[name] = (off, maxal, offs, em)
        padded_any = padded_any or bool(pads)
        if res is not None:
            res.count("definitions-checked")
            if pads:
                res.count("definitions-with-auto-padding")
            if "padding-name" in d.flags:
                res.count("definitions-with-user-fields-named-like-padding" + ("/and-auto-padding" if pads else "/no-auto-padding"))
            if d.reuse:
                res.count("definitions-with-reuse")
            if nontrivial(p, name):
                res.shape(p.auto_pad, "ok", *shape_of(p, name))
                res.count("definitions-nontrivial")
    if res is not None:
        res.count("programs")
        res.count(f"outcome/ok/auto_pad-{ap}")
        for c in ("boundary-size", "explicit-padding", "struct-array", "alias-field", "alias-of-imported-struct", "alias-of-imported-struct-field", "struct-contains-message", "nested-align-1", "nested-align-2", "nested-align-4",
                  "nested-align-8", "cross-file-struct-field", "expr-length", "message-in-message", "padding-name", "padding-name/interior-gap",
                  "padding-name/trailing-gap", "padding-name/no-gap", "limit-constants", "limit-constants/in-root-file", "limit-constants/in-imported-file",
                  "boundary-table/core-imported", "one-short-table"):
            if c in p.classes:
                res.count("class/" + c)
        for c in p.classes:
            if c.startswith("limit-constants/") and not c.startswith("limit-constants/in-"):
                res.count("class/" + c)
        if len(res.samples) < 3 and padded_any and len(sizes) <= 4:
            res.sample({"auto_pad": p.auto_pad, "files": p.files, "emitted": {n: v[3] for n, v in sizes.items()}})
    if gcc and not p.import_coredefs and sizes:
        gcc_probe(p, ps, out.root, sizes, trace, res)


def gcc_probe(p, ps, root, sizes, trace, res):
    from pyrtma.compilers.c99 import CDefCompiler

    d = os.path.join(os.path.dirname(root), "_gcc")
    os.makedirs(d, exist_ok=True)
    hdr = os.path.join(d, "defs.h")
    try:
        import pathlib

        CDefCompiler(ps, filename="defs").generate(pathlib.Path(hdr))
    except Exception as e:  # noqa  emission problems belong to C15
        if res is not None:
            res.inconclusive += 1
            res.count("gcc/header-not-generated")
        return
    lines = ["#include <stdio.h>", "#include <stddef.h>", '#include "defs.h"', "int main(void){"]
    for name, (size, al, offs, em) in sizes.items():
        cn = ("MDF_" if p.by_name(name).kind == "message" else "") + name
        lines.append(f'printf("S {name} %zu %zu\\n", sizeof({cn}), (size_t)_Alignof({cn}));')
        for (fn, tn, ln) in em:
            lines.append(f'printf("F {name} {fn} %zu %zu\\n", offsetof({cn}, {fn}), sizeof((({cn}*)0)->{fn}));')
    lines += ["return 0;}"]
    with open(os.path.join(d, "probe.c"), "w") as f:
        f.write("\n".join(lines) + "\n")
    try:
        r = subprocess.run(["gcc", "-std=c11", "-w", "-o", os.path.join(d, "probe"), os.path.join(d, "probe.c")], cwd=d,
                           capture_output=True, text=True, timeout=120)
        if r.returncode != 0:
            if res is not None:
                res.inconclusive += 1
                res.count("gcc/compile-failed")
            return
        r = subprocess.run([os.path.join(d, "probe")], capture_output=True, text=True, timeout=60)
    except (subprocess.TimeoutExpired, FileNotFoundError):
        if res is not None:
            res.inconclusive += 1
        return
    got_s, got_f, got_m = {}, {}, {}
    for ln in r.stdout.splitlines():
        parts = ln.split()
        if parts[0] == "S":
            got_s[parts[1]] = (int(parts[2]), int(parts[3]))
        else:
            got_f.setdefault(parts[1], []).append(int(parts[3]))
            got_m.setdefault(parts[1], []).append(int(parts[4]))
    with open(hdr) as f:
        declared = header_fields(f.read())
    ap = "on" if p.auto_pad else "off"
    for name, (size, al, offs, em) in sizes.items():
        what = f"auto_pad {ap}: {_describe(p, name)} emitted as {em}"
        if got_s.get(name) != (size, al) or got_f.get(name, []) != offs:
            raise Violation("hidden-padding/gcc", f"{what}: gcc says sizeof/alignof "
                            f"{got_s.get(name)}, offsets {got_f.get(name)}; the declared fields add up to size {size}, alignment {al}, offsets {offs}", trace)
        # the C declaration itself: no member of no size, and the members - as gcc sizes them - fill the struct completely
        cn = ("MDF_" if p.by_name(name).kind == "message" else "") + name
        zero = [(n, ln) for n, ln in declared.get(cn, []) if ln == 0]
        msizes = got_m.get(name, [])
        model = [G.type_size_align(p, tn)[0] * (ln or 1) for (_fn, tn, ln) in em]
        if zero or sum(msizes) != got_s[name][0] or msizes != model:
            short = got_s[name][0] - sum(msizes)
            raise Violation("hidden-padding/gcc/member-sizes", f"{what}: in the generated C header the members of {cn} have sizeof {msizes} "
                            f"(sum {sum(msizes)}) while sizeof({cn}) is {got_s[name][0]}"
                            + (f": gcc itself inserts {short} byte(s) of padding that the header does not declare" if short else "")
                            + (f"; array member(s) declared with length 0: {[n for n, _ in zero]}" if zero else "")
                            + f"; the emitted fields have sizes {model}", trace)
    if res is not None:
        res.count("gcc/programs-probed")
        res.count("gcc/definitions-probed", len(sizes))
        one = sum(1 for name in sizes if _trailing_gap(p, name) == 1)
        if one:
            res.count("gcc/definitions-probed/one-trailing-padding-byte", one)


def _trailing_gap(p: G.Program, name: str) -> int:
    lay = G.natural_layout(p, name)
    end = max((lf.offset + lf.size for lf in lay.fields), default=0)
    return lay.size - end


# ----------------------------------------------------------------------------------------------
# the documented ways of choosing the configuration (auto_pad on/off with validation on)

WAYS = ["compile-kwargs", "cli-flags", "yaml-options"]
CFG_LAYOUTS = {
    "interior": [("a", "uint8", None), ("b", "int32", None)],
    "trailing": [("a", "double", None), ("b", "int16", None)],
    "none": [("a", "int32", None), ("b", "int16", None), ("c", "int16", None)],
    "array-interior": [("a", "char", 3), ("b", "uint64", 2)],
    "padding-names": [("padding_0_", "uint8", None), ("b", "int32", None), ("padding_1_", "int16", None)],
}
# layouts with cases of their own in the matrix (not multiplied with every way)
CFG_EXTRA_LAYOUTS = {
    "trailing-one": [("a", "int32", None), ("b", "char", 3)],
    "trailing-one-scalar": [("a", "int16", None), ("b", "uint8", None)],
    "oversize": [("t0", "double", None), ("data", "char", 70000)],
    "oversize-by-one": [("data", "char", 65536)],
    "max-size": [("data", "char", 65535)],
}
STRUCT_RE = re.compile(r"typedef struct \{(.*?)\}\s*(\w+);", re.S)
CFIELD_RE = re.compile(r"^\s*(.+?)\s+(\w+)(?:\[(\d+)\])?;\s*$", re.M)


def config_program(layout: str, auto_pad: bool, way: str, core: bool = False, explicit_validate: bool = False, yaml_core: bool = False,
                   file_opts: dict = None, validate: bool = True, limits: str = None) -> G.Program:
    """``auto_pad`` / ``validate`` / ``core`` are the configuration the CALLER chooses (keyword arguments of compile(), command line
    switches, or - way yaml-options - the compiler_options section); ``file_opts`` are entries written into the root file's
    compiler_options section IN ADDITION, possibly saying the opposite of an explicit keyword argument / switch.  ``limits``: a key
    of vlib.defgen_layout.LIMIT_VARIANTS - the root file also declares constants named like the core's limit constants (core False)."""
    fields = [G.FieldSpec(n, t if ln is None else f"{t}[{ln}]", t, ln, None if ln is None else str(ln)) for n, t, ln in {**CFG_LAYOUTS, **CFG_EXTRA_LAYOUTS}[layout]]
    defs = [G.Def("struct", "CFG_REC", "root.yaml", fields=[G.FieldSpec(f.name, f.type_text, f.base, f.length, f.length_text) for f in fields]),
            G.Def("message", "CFG_MSG", "root.yaml", id=1234, fields=fields)]
    spec = G.FileSpec(path="root.yaml", defs=defs)
    if way == "yaml-options":
        spec.compiler_options["AUTO_PAD"] = auto_pad
        if explicit_validate:
            spec.compiler_options["VALIDATE_ALIGNMENT"] = True
        if yaml_core or not core:
            spec.compiler_options["IMPORT_COREDEFS"] = core
    classes = {"config-matrix", "layout/" + layout}
    if file_opts:
        if way == "yaml-options":
            raise HarnessError("file_opts belong to the ways with explicit arguments")
        spec.compiler_options.update(file_opts)
        classes.add("config-conflict")
    p = G.Program([spec], "root.yaml", {"auto_pad": auto_pad, "validate_alignment": validate, "import_coredefs": core}, "single", classes)
    if limits:
        p = L.add_limit_constants(p, L.LIMIT_VARIANTS[limits](), "root", limits)
        if p is None:
            raise HarnessError("limit constants need a configuration without the core definitions")
    return p


def header_fields(text: str):
    out = {}
    for body, cname in STRUCT_RE.findall(text):
        out[cname] = [(n, int(ln) if ln else None) for _t, n, ln in CFIELD_RE.findall(body)]
    return out


def config_case(p: G.Program, way: str, res: Result = None):
    """Compile closure p to a C header through one entry point with the configuration written the way that entry point documents:
    keyword arguments of pyrtma.compile.compile(), command line flags (--no_auto_pad, --no_val_align, --no_core_import), or a
    compiler_options section in the root file (honoured by the command line entry point).  Same oracle as at parser level.
    The root file may carry compiler_options that CONTRADICT an explicit keyword argument / command line switch: the explicit
    choice (= p.options) is what must take effect."""
    import sys

    validating = p.validate_alignment
    exp, at = expected_outcome(p) if validating else ("ok", None)
    trace = {"config": way, "program": p.to_json()}
    opts = p.spec(p.root).compiler_options
    conflict = "config-conflict" in p.classes
    infile = f" and compiler_options {opts} in the root file" if conflict else ""
    how = {"compile-kwargs": f"compile(auto_pad={p.auto_pad}, validate_alignment={validating}, import_coredefs={p.import_coredefs}){infile}",
           "cli-flags": "python -m pyrtma.compile" + ("" if p.auto_pad else " --no_auto_pad") + ("" if validating else " --no_val_align")
                        + ("" if p.import_coredefs else " --no_core_import") + infile,
           "yaml-options": f"python -m pyrtma.compile with compiler_options {opts} in the root file"}[way]
    fam = f"config/{way}" + ("/file-overrides-explicit-choice" if conflict else "")
    d = G.scratch_dir("c11cfg")
    try:
        root = p.write(os.path.join(d, "src"))
        outdir = os.path.join(d, "out")
        os.makedirs(outdir)
        hdr = os.path.join(outdir, "defs.h")
        if way == "compile-kwargs":
            import pyrtma.compile as pc

            try:
                pc.compile(defs_files=[root], out_dir=outdir, out_name="defs", c_lang=True, **p.compile_kwargs())
                got = "ok"
            except Exception as e:  # noqa
                got = type(e).__name__
            detail = ""
        else:
            args = [sys.executable, "-m", "pyrtma.compile", "-i", root, "--c", "-o", outdir, "-n", "defs"]
            if way == "cli-flags":
                args += ([] if p.auto_pad else ["--no_auto_pad"]) + ([] if validating else ["--no_val_align"]) + ([] if p.import_coredefs else ["--no_core_import"])
            env = dict(os.environ)
            env["PYTHONPATH"] = os.path.join(os.environ.get("VERIF_REPO", "/repo"), "src")
            try:
                r = subprocess.run(args, cwd=d, env=env, stdin=subprocess.DEVNULL, capture_output=True, text=True, timeout=180)
            except subprocess.TimeoutExpired:
                if res is not None:
                    res.inconclusive += 1
                return
            detail = (r.stdout + r.stderr)[-300:]
            if r.returncode == 0:
                got = "ok"
            else:
                m = re.search(r"^(\w+): ", r.stdout, re.M)
                got = m.group(1) if (r.returncode == 1 and m) else f"exit-status-{r.returncode}"
        what = f"{how}, layout {[f.type_text for f in p.user_fields('CFG_MSG')] if p.has('CFG_MSG') else p.shape}"
        if got != exp:
            if exp == "ok":
                raise Violation(f"{fam}/rejected-although-acceptable", f"{what}: expected acceptance, got {got} {detail!r}", trace)
            if got == "ok":
                lim = " (the files declare " + ", ".join(f"{d.name}: {d.text if d.text is not None else d.value}" for d in p.defs if "limit-constant" in d.flags)[:200] + ")" if "limit-constants" in p.classes else ""
                raise Violation(f"{fam}/accepted-although-{'padding-needed' if exp == 'AlignmentError' else 'oversize'}",
                                f"{what}: {_describe(p, at)} " + (f"needs {G.natural_layout(p, at).own_padding} padding byte(s) with auto_pad off" if exp == "AlignmentError" else
                                                                  f"is larger than 65535 bytes{lim}")
                                + f" (size {G.natural_layout(p, at).size}); expected {exp}, but the compilation succeeded", trace)
            raise Violation(f"{fam}/wrong-error/{exp}/{got}", f"{what}: expected {exp}, got {got} {detail!r}", trace)
        if exp != "ok":
            if os.path.exists(hdr):
                raise Violation(f"{fam}/output-written-despite-error", f"{what}: {exp} was reported but {os.path.basename(hdr)} was written", trace)
        else:
            if not os.path.exists(hdr):
                raise Violation(f"{fam}/no-output", f"{what}: success reported but no header was written", trace)
            with open(hdr) as f:
                got_fields = header_fields(f.read())
            for dd in p.defs:
                if dd.kind not in ("struct", "message"):
                    continue
                cn = ("MDF_" if dd.kind == "message" else "") + dd.name
                slots = L.expected_slots(p, dd.name, padded=validating)
                bad = L.header_mismatch(got_fields.get(cn), slots)
                if bad and "declared twice" in bad:
                    raise Violation(f"config/{way}/user-field-shadowed-by-padding", f"{what}: the C header declares {cn} with fields {got_fields.get(cn)}: {bad}", trace)
                if bad:
                    want = [(s_[1], s_[2]) if s_[0] == "user" else (f"<{s_[1]} padding byte(s)>", s_[2]) for s_ in slots]
                    raise Violation(f"{fam}/emitted-layout", f"{what}: the C header declares {cn} with fields {got_fields.get(cn)}: {bad}; expected the "
                                    f"user's list" + (" with padding exactly in the gaps of the natural layout" if validating else
                                                      " as it is (alignment validation switched off explicitly: nothing is padded)") + f": {want}", trace)
        if res is not None:
            res.count("config-cases")
            res.count(f"config/{way}/{exp}")
            if conflict:
                res.count(f"config-conflict/{way}/{'+'.join(f'{k}={v}' for k, v in sorted(opts.items()))}-in-file")
            if "limit-constants" in p.classes:
                res.count(f"config-limit-constants/{way}/{exp}")
            res.shape("config", way, p.auto_pad, validating, exp, tuple(sorted(opts.items())), p.import_coredefs,
                      tuple(sorted(c for c in p.classes if c.startswith(("layout/", "limit-constants/")))))
    finally:
        shutil.rmtree(d, ignore_errors=True)


def config_matrix():
    """(layout, auto_pad, way, kwargs) for the deterministic matrix."""
    cases = []
    for layout in CFG_LAYOUTS:
        for ap in (True, False):
            cases.append((layout, ap, "compile-kwargs", {}))
            cases.append((layout, ap, "compile-kwargs", {"core": True}))
            if layout not in ("array-interior", "padding-names"):
                cases.append((layout, ap, "cli-flags", {}))
                cases.append((layout, ap, "yaml-options", {}))
    for layout in ("interior", "trailing", "none"):
        cases.append((layout, False, "yaml-options", {"explicit_validate": True}))
        cases.append((layout, False, "yaml-options", {"core": True, "yaml_core": layout == "none"}))
    cases.append(("array-interior", False, "yaml-options", {}))
    cases.append(("array-interior", True, "cli-flags", {"core": True}))
    cases.append(("padding-names", True, "cli-flags", {}))
    # an explicit choice of the caller against the opposite entry in the root file's compiler_options section: the explicit choice counts
    for layout in ("interior", "trailing", "none", "array-interior"):
        for ap, fo in ((False, {"AUTO_PAD": True}), (True, {"AUTO_PAD": False}), (False, {"VALIDATE_ALIGNMENT": False}),
                       (True, {"VALIDATE_ALIGNMENT": False}), (False, {"AUTO_PAD": True, "VALIDATE_ALIGNMENT": False}),
                       (False, {"IMPORT_COREDEFS": False, "VALIDATE_ALIGNMENT": True, "AUTO_PAD": True})):
            cases.append((layout, ap, "compile-kwargs", {"file_opts": fo}))
    for layout in ("interior", "trailing", "none"):
        cases.append((layout, False, "cli-flags", {"file_opts": {"AUTO_PAD": True}}))
    cases.append(("interior", False, "cli-flags", {"file_opts": {"IMPORT_COREDEFS": False, "VALIDATE_ALIGNMENT": True, "AUTO_PAD": True}}))
    cases.append(("array-interior", False, "cli-flags", {"file_opts": {"AUTO_PAD": True}, "core": True}))
    for layout in ("interior", "trailing"):
        cases.append((layout, True, "cli-flags", {"file_opts": {"VALIDATE_ALIGNMENT": True}, "validate": False}))
    # one trailing padding byte (declared as a scalar or as [1], never as [0])
    for layout in ("trailing-one", "trailing-one-scalar"):
        cases.append((layout, True, "compile-kwargs", {}))
        cases.append((layout, False, "compile-kwargs", {}))
        cases.append((layout, True, "compile-kwargs", {"core": True}))
    cases.append(("trailing-one", True, "cli-flags", {}))
    cases.append(("trailing-one-scalar", True, "yaml-options", {}))
    # the size limit in every way of compiling WITHOUT the core definitions, with user constants named like the core's limit constants
    for layout, ok_side in (("oversize", False), ("oversize-by-one", False), ("max-size", True)):
        for limits in ((None, "size-limit-smaller", "all-core-limits-smaller") if ok_side else (None, "size-limit-larger", "all-core-limits-larger", "size-limit-plus-one")):
            cases.append((layout, layout != "oversize-by-one", "compile-kwargs", {"limits": limits}))
        cases.append((layout, True, "compile-kwargs", {"core": True}))
    cases.append(("oversize", True, "cli-flags", {"limits": "size-limit-larger"}))
    cases.append(("oversize-by-one", False, "yaml-options", {"limits": "size-limit-larger"}))
    cases.append(("max-size", True, "cli-flags", {"limits": "size-limit-smaller"}))
    cases.append(("max-size", False, "yaml-options", {"limits": "all-core-limits-smaller"}))
    return cases


def run_config_matrix(idx: int, nshards: int, res: Result):
    cli = [c for c in config_matrix() if c[2] != "compile-kwargs"]
    inproc = [c for c in config_matrix() if c[2] == "compile-kwargs"]
    mine = [c for i, c in enumerate(cli) if i % nshards == idx] + [c for i, c in enumerate(inproc) if i % nshards == idx]
    for layout, ap, way, kw in mine:
        res.evaluations += 1
        try:
            config_case(config_program(layout, ap, way, **kw), way, res)
        except Violation as v:
            res.add_finding(v.key, v.what, v.trace)


# ----------------------------------------------------------------------------------------------
# histories: several closures parsed one after the other by ONE Parser object


def check_history(h: dict, res: Result = None):
    """h = {"steps": [Program...], "clear": [bool...], "ops": [...]} (vlib.defgen_layout.build_layout_history).  One Parser object
    parses the closures one after the other in one directory (each overwrites the files of the one before).  Before a parse that
    follows an ACCEPTED one Parser.clear() is called (nothing is claimed about accumulating closures); after a rejected parse -
    which has cleared the parser itself - clear() is called when clear[k] says so.  Every parse must have the outcome of a FRESH
    Parser on the same closure (accepted / exception class, and the complete layout: alignment, size, and per field name, type,
    length, offset, alignment, size, padding fields included), and - unless the step carries a deliberate late fault - the outcome
    the layout model demands (_judge)."""
    from pyrtma.parser import Parser

    steps, clear = h["steps"], h["clear"]
    trace = {"history": {"steps": [q.to_json() for q in steps], "clear": list(clear), "ops": h.get("ops")}}
    d = G.scratch_dir("c11hist")
    ps = Parser(**steps[0].compile_kwargs())
    story, kinds = [], []
    prev_ok = None
    try:
        for k, q in enumerate(steps):
            if q.compile_kwargs() != steps[0].compile_kwargs():
                raise HarnessError("all steps of a history share the options of the one Parser object")
            if k and (prev_ok or clear[k]):
                ps.clear()
                story.append("clear()")
            out = L.parse_on(ps, q, d)
            fresh = G.parse_program(q, timeout=45.0)
            if "Timeout" in (out.outcome, fresh.outcome):
                if res is not None:
                    res.inconclusive += 1
                    res.count("inconclusive/parser-did-not-return-within-45s")
                return
            story.append(f"parse {k + 1}{' (' + q.fault['kind'] + ' at the end of the root file)' if q.fault else ''} -> {out.outcome}")
            kinds.append(("fault" if q.fault else "plain", "accepted" if out.ok else "rejected"))
            told = f"one Parser object: {', '.join(story)}; closure {k + 1} redefines names of the earlier one(s) by {h.get('ops', [[]] * (k + 1))[k]}"
            if not q.fault:
                try:
                    exp, at = expected_outcome(q)
                    _judge(q, out, exp, at, trace, None, False, None)
                except Violation as v:
                    if k == 0:
                        raise
                    raise Violation("history/" + v.key, f"{told}: {v.what}", trace)
            if out.outcome != fresh.outcome:
                raise Violation("history/differs-from-fresh-parser/outcome", f"{told}: the used Parser object answers {out.outcome}"
                                f"{' (' + str(out.exc)[:160] + ')' if out.exc else ''}, a fresh Parser answers {fresh.outcome} to the same files", trace)
            if out.ok:
                a, b = L.snapshot(ps), L.snapshot(fresh.parser)
                if a != b:
                    diff = sorted(n for n in set(a) | set(b) if a.get(n) != b.get(n))
                    n0 = diff[0]
                    raise Violation("history/differs-from-fresh-parser/layout", f"{told}: the used Parser object and a fresh Parser both accept the files but "
                                    f"hold different layouts for {diff[:4]}: {n0}: used parser (alignment, size, fields[(name, type, length, offset, "
                                    f"alignment, size)]) = {a.get(n0)}, fresh parser = {b.get(n0)}", trace)
            prev_ok = out.ok
        if res is not None:
            res.count("histories")
            res.count("history/parses", len(steps))
            for k, (f, o) in enumerate(kinds[:-1]):
                res.count(f"history/earlier-parse/{o}" + ("-by-late-fault" if f == "fault" and o == "rejected" else "") + ("+clear()" if (o == "accepted" or clear[k + 1]) else ""))
            res.count("history/last-parse/" + kinds[-1][1])
            opn = sorted({o.split("/")[0] for ol in h.get("ops", []) for o in ol})
            for o in opn:
                res.count("history/redefinition/" + o)
            if any(o != "same" for o in opn):
                res.count("history/nontrivial")
                res.shape("history", steps[0].auto_pad, tuple(kinds), tuple(bool(c) for c in clear), tuple(opn))
    finally:
        L.release(ps)
        shutil.rmtree(d, ignore_errors=True)


def _history_collect(h, res):
    res.evaluations += 1
    try:
        check_history(h, res)
    except Violation as v:
        res.add_finding(v.key, v.what, v.trace)


def history_table(idx: int, nshards: int, res: Result):
    for i, h in enumerate(L.history_table()):
        if i % nshards == idx:
            res.count("history-table-cases")
            _history_collect(h, res)


def padname_table(idx: int, nshards: int, res: Result):
    """User fields called padding_<n>_ (the names of the compiler's own padding fields) in layouts with interior / trailing / no gaps."""
    for i, p in enumerate(L.padname_table()):
        if i % nshards == idx:
            res.evaluations += 1
            res.count("padding-name-table-cases")
            _run_collect(p, res)


# ----------------------------------------------------------------------------------------------
# exhaustive sub-domain

ELEMS = [(w, ln) for w in (1, 2, 4, 8) for ln in (None, 1, 3)]


def all_sequences():
    for n in (1, 2, 3, 4):
        yield from itertools.product(ELEMS, repeat=n)


def _seq_defs(i: int, seq, path="root.yaml"):
    fields = []
    for k, (w, ln) in enumerate(seq):
        names = G.BY_WIDTH[w]
        base = names[(i + k) % len(names)]
        fields.append(G.FieldSpec(f"f{k}", base if ln is None else f"{base}[{ln}]", base, ln, None if ln is None else str(ln)))
    s = G.Def("struct", f"S{i}", path, fields=fields)
    w = G.Def("message", f"W{i}", path, id=1000 + (i % 8000), fields=[G.FieldSpec("c", "uint8", "uint8"),
                                                                        G.FieldSpec("s", f"S{i}[2]", f"S{i}", 2, "2")])
    return s, w


def _mk(defs, auto_pad):
    spec = G.FileSpec(path="root.yaml", defs=list(defs))
    return G.Program([spec], "root.yaml", {"auto_pad": auto_pad, "validate_alignment": True, "import_coredefs": False}, "single",
                     {"exhaustive"})


def _run_collect(p, res, only=None, gcc=False):
    try:
        check_program(p, res, gcc=gcc, only=only)
        return True
    except Violation as v:
        res.add_finding(v.key, v.what, v.trace)
        return False


def exhaustive(idx: int, nshards: int, res: Result):
    seqs = list(all_sequences())
    mine = [(i, s) for i, s in enumerate(seqs) if i % nshards == idx]
    # auto_pad on: batches of struct + wrapper
    for k in range(0, len(mine), 120):
        batch = mine[k:k + 120]
        defs = []
        for i, s in batch:
            defs += _seq_defs(i, s)
        defs.sort(key=lambda d: d.kind != "struct")
        p = _mk(defs, True)
        res.evaluations += len(batch)
        if not _run_collect(p, res, gcc=(k == 0)):  # the first batch of every shard (16 x 240 definitions) also through gcc
            for i, s in batch:  # isolate a small failing case
                _run_collect(_mk(_seq_defs(i, s), True), res)
    # auto_pad off
    aligned, other = [], []
    for i, s in mine:
        sd, wd = _seq_defs(i, s)
        probe = _mk([sd], False)
        (aligned if not G.natural_layout(probe, sd.name).own_padding else other).append((i, s))
    for k in range(0, len(aligned), 120):
        batch = aligned[k:k + 120]
        p = _mk([_seq_defs(i, s)[0] for i, s in batch], False)
        res.evaluations += len(batch)
        if not _run_collect(p, res):
            for i, s in batch:
                _run_collect(_mk([_seq_defs(i, s)[0]], False), res)
    for i, s in aligned:  # aligned struct as array element after one byte
        res.evaluations += 1
        _run_collect(_mk(_seq_defs(i, s), False), res)
    for i, s in other:
        res.evaluations += 1
        _run_collect(_mk([_seq_defs(i, s)[0]], False), res)
    res.count("exhaustive/sequences", len(mine))
    res.count("exhaustive/aligned-without-padding", len(aligned))


def native_name_table(idx: int, nshards: int, res: Result):
    """Every type name of the parser's own table of supported native types (pyrtma.parser.supported_types, including spellings no
    document lists such as ``signed char``) as a scalar after a misaligning byte, as an array element and behind an alias: the
    definition is a layout like any other (natural alignment = size), auto_pad on and off."""
    from pyrtma.parser import supported_types

    for i, (name, nt) in enumerate(sorted(supported_types.items())):
        if i % nshards != idx:
            continue
        if name not in G.NATIVES or G.NATIVES[name] != nt.size:
            raise HarnessError(f"native type {name!r} (size {nt.size}) of the parser's table is unknown to the generator's model")
        for auto_pad in (True, False):
            F = G.FieldSpec
            defs = [G.Def("alias", "NATIVE_ALIAS", "root.yaml", value=name),
                    G.Def("struct", "NATIVE_REC", "root.yaml", fields=[F("c", "uint8", "uint8"), F("x", name, name), F("y", f"{name}[3]", name, 3, "3"), F("z", "NATIVE_ALIAS", "NATIVE_ALIAS")]),
                    G.Def("message", "NATIVE_MSG", "root.yaml", id=1234, fields=[F("x", f"{name}[2]", name, 2, "2"), F("r", "NATIVE_REC", "NATIVE_REC")] if auto_pad else [F("x", f"{name}[2]", name, 2, "2")])]
            if not auto_pad:
                defs[1].fields = [F("x", name, name), F("z", "NATIVE_ALIAS", "NATIVE_ALIAS")]
            p = _mk(defs, auto_pad)
            p.classes.add("native-name/" + name)
            res.evaluations += 1
            res.count("native-name-table-cases")
            _run_collect(p, res)


def boundary_table(idx: int, nshards: int, res: Result):
    """Definitions whose declared bytes add up to every total in 65520..65551, for strictest alignment 1/2/4/8, as struct and
    as message, auto_pad on and off: the exact position of the 65535 limit (natural size = total rounded up to the alignment).
    Every case is compiled without the core definitions - as it is, and with each declaration of vlib.defgen_layout.LIMIT_VARIANTS
    (user constants named like the core's limit constants MAX_MESSAGE_SIZE, MAX_CONTIGUOUS_MESSAGE_DATA, ... holding larger, smaller,
    neighbouring and the same values, as int, float, expression and string constant; in the root file or in a file imported first) -
    and every fourth case also WITH the core definitions imported: the limit is 65535 whatever constants exist."""
    variants = sorted(L.LIMIT_VARIANTS)
    k = 0
    for a in (1, 2, 4, 8):
        for total in range(65520, 65552):
            for kind in ("struct", "message"):
                for auto_pad in (True, False):
                    k += 1
                    if k % nshards != idx:
                        continue
                    n = (total // a) - (k % 3)
                    m = total - n * a
                    base = G.BY_WIDTH[a][k % len(G.BY_WIDTH[a])]
                    fields = [G.FieldSpec("x", f"{base}[{n}]", base, n, str(n))]
                    if m:
                        fields.append(G.FieldSpec("y", f"char[{m}]", "char", m, str(m)))
                    d = G.Def(kind, "EDGE_CASE", "root.yaml", id=1234 if kind == "message" else None, fields=fields)
                    p = _mk([d], auto_pad)
                    p.classes.add("boundary-table")
                    res.evaluations += 1
                    res.count("boundary-table-cases")
                    _run_collect(p, res)
                    for vi, tag in enumerate(variants):
                        q = L.add_limit_constants(p, L.LIMIT_VARIANTS[tag](), L.LIMIT_PLACES[(k // nshards + vi) % 2], tag)
                        if q is None:
                            raise HarnessError("boundary table: limit constants could not be added")
                        res.evaluations += 1
                        res.count("boundary-table-cases/with-limit-constants")
                        _run_collect(q, res)
                    if (k // nshards) % 4 == 0:
                        q = p.clone()
                        q.options["import_coredefs"] = True
                        q.classes.add("boundary-table/core-imported")
                        res.evaluations += 1
                        res.count("boundary-table-cases/core-imported")
                        _run_collect(q.rerender(), res)


def one_short_table(idx: int, nshards: int, res: Result):
    """gcc sample that does not depend on the draw: definitions that end exactly one byte (and 2..7 bytes) short of their alignment."""
    for i, p in enumerate(L.one_short_programs()):
        if i % nshards == idx:
            res.evaluations += 1
            res.count("one-short-table-programs")
            _run_collect(p, res, gcc=True)


# ----------------------------------------------------------------------------------------------


def shard(idx: int, nshards: int, seed: int, n_layout: int, n_general: int, gcc_every: int, n_cfg: int = 0, n_padname: int = 40, n_hist: int = 60, n_limit: int = 40):
    G.quiet()
    res = Result()
    exhaustive(idx, nshards, res)
    boundary_table(idx, nshards, res)
    one_short_table(idx, nshards, res)
    native_name_table(idx, nshards, res)
    run_config_matrix(idx, nshards, res)
    padname_table(idx, nshards, res)
    history_table(idx, nshards, res)
    if n_cfg:
        rnd = G.RandomChooser(seed + 7)
        for k in range(n_cfg):  # random layout closures through a drawn entry point (thorough)
            p = G.build_layout_program(rnd)
            way = rnd.choice(WAYS)
            if way == "yaml-options":
                p.spec(p.root).compiler_options.update({"AUTO_PAD": p.auto_pad, "IMPORT_COREDEFS": False})
                p.rerender()
            res.evaluations += 1
            try:
                config_case(p, way, res)
            except Violation as v:
                res.add_finding(v.key, v.what, v.trace)
    counter = {"n": 0}

    def body(p):
        counter["n"] += 1
        check_program(p, res, gcc=(counter["n"] % gcc_every == 0))

    sb = G.ShrinkBudget(15)
    hyp_run(sb.body(body), sb.wrap(G.layout_programs()), seed, n_layout, res)
    sb = G.ShrinkBudget(15)
    hyp_run(sb.body(body), sb.wrap(G.programs(validate_alignment=True, import_coredefs=False, max_files=4,
                                             allow=("alias-of-imported-struct", "alias-of-imported-struct-field", "struct-contains-message", "signed-char"))), seed + 1, n_general, res)
    sb = G.ShrinkBudget(15)
    hyp_run(sb.body(body), sb.wrap(L.padname_programs()), seed + 2, n_padname, res)
    sb = G.ShrinkBudget(15)
    hyp_run(sb.body(lambda h: check_history(h, res)), sb.wrap(L.layout_histories()), seed + 3, n_hist, res)
    sb = G.ShrinkBudget(15)
    hyp_run(sb.body(body), sb.wrap(L.limit_const_programs()), seed + 4, n_limit, res)
    return res


def run(ctx: RunContext) -> int:
    t0 = time.time()
    if shutil.which("gcc") is None:
        raise HarnessError("gcc not found")
    n_layout = ctx.scale(600, 6000)
    n_general = ctx.scale(150, 1500)
    gcc_every = 12 if ctx.quick else 1
    res = run_shards(shard, [(i, 16, derive_seed(ctx.seed, i), n_layout, n_general, gcc_every, 0 if ctx.quick else 12, ctx.scale(40, 800),
                              ctx.scale(60, 2500), ctx.scale(40, 1500)) for i in range(16)])
    res.notes.append(f"exhaustive sub-domain complete: all {sum(1 for _ in all_sequences())} sequences of <= 4 fields over "
                     "{1,2,4,8}-byte scalars and arrays of length 1 and 3, as struct and as array element of a wrapper message, auto_pad on and off")
    return conclude(ctx, res, RULE, ASSUME, t0)


def replay_trace(trace: dict):
    G.quiet()
    if "history" in trace:
        h = trace["history"]
        check_history({"steps": [G.Program.from_json(q) for q in h["steps"]], "clear": h["clear"], "ops": h.get("ops") or [[] for _ in h["steps"]]})
        return
    p = G.Program.from_json(trace["program"])
    if "config" in trace:
        config_case(p, trace["config"])
        return
    check_program(p, None, gcc=shutil.which("gcc") is not None and not p.import_coredefs)
