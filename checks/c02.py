"""C02 - client and manager always agree on the subscription set.

A real pyrtma.Client runs on the Engine-A simulator against the real manager.  After every client
API call a raw probe connection publishes one message of every type of a small universe; the
*delivered set* is read from the raw bytes that reached the client's connection.
"""
from __future__ import annotations

import itertools
import time
import warnings

from hypothesis import strategies as st

from vlib import proto as P
from vlib.common import (HarnessError, Result, RunContext, Violation, conclude, derive_seed, hyp_run, run_shards)
from vlib.simclient import ClientSim

ALL = P.ALL_MESSAGE_TYPES
UNIVERSE = [1001, 1002, 1003, 1004, 1005, 1006]
NEVER = 1007  # never used in any request
PROBED = UNIVERSE + [NEVER]
# Histories are generated over the canonical ids above; a configuration may map them onto other legal type ids at the API
# boundary (cfg["ids"]): the ends of the defined range (0, 1, 9999, MAX_MESSAGE_TYPES = 10000, just above it, far above it) and
# the ends of the int32 type field - the statement quantifies over types, not over the ids this file happens to use.
IDMAPS = {
    "edges": {1001: 0, 1002: 1, 1003: 9999, 1004: 10000, 1005: 10001, 1006: 65536, 1007: 5000},
    "int32": {1001: -1, 1002: -(2 ** 31), 1003: 2 ** 31 - 2, 1004: 3, 1005: 100, 1006: 12, 1007: 7},
}

RULE = ("A real pyrtma.Client on the simulated network against the real manager. Hypothesis draws sequences (<=25) of subscribe / "
        "unsubscribe / pause_subscription / resume_subscription with lists over a 6-type universe (duplicates, types already in the "
        "target state, ALL_MESSAGE_TYPES alone or mixed; passed as list, tuple, set, generator or iterator; optionally with one entry that "
        "cannot be a message type - out-of-range int, str, float, None - after which the two sides must still agree and a refused "
        "request must have changed nothing), unsubscribe_from_all / pause_all_subscriptions / resume_all_subscriptions, "
        "and subscription_context / paused_subscription_context entered with lists overlapping the current state; new sessions of the "
        "same Client object (disconnect()+connect(), or connect() after the connection was lost) in between; and in one configuration "
        "a second instance of the same module (same static id, both allow_multiple) issuing a third of the operations, each instance "
        "being checked after every operation of either. After every call a "
        "probe module publishes one message per type and the delivered set is read from the bytes on the client's connection; it must "
        "equal client.subscribed_types, be disjoint from paused_subscribed_types, be unchanged by refused requests, equal the entry "
        "state after leaving a context, and satisfy the documented post-conditions. The thorough tier additionally enumerates "
        "exhaustively every reachable abstract state over 3 types (+ subscribed-to-all) x operation x argument list of <=3 entries. "
        "Non-trivial = an operation applied in a non-empty state; distinct = (abstract state before, operation, argument shape).")
ASSUME = [
    "the kernel is replaced by an in-memory stream model; the client's module-level socket/select/time names are substituted",
    "the content of the paused set after pausing a never-subscribed type is not asserted (no document defines it)",
    "contexts entered with a list containing ALL_MESSAGE_TYPES are outside clause (iv) of the statement and only checked for agreement",
]

BAD_ENTRIES = [2 ** 31, -(2 ** 31) - 1, "x", 3.0, None, 2 ** 40]
OPS = ["subscribe", "unsubscribe", "pause_subscription", "resume_subscription"]
BULK = ["unsubscribe_from_all", "pause_all_subscriptions", "resume_all_subscriptions"]
CTX = ["subscription_context", "paused_subscription_context"]


class _BodyLeft(Exception):
    pass


class _BodyLeftBase(BaseException):
    pass


class C02World:
    def __init__(self, cfg):
        import logging

        self.cfg = cfg
        self.fwd = dict(IDMAPS[cfg["ids"]]) if cfg.get("ids") else {}
        self.back = {v: k for k, v in self.fwd.items()}
        self.cs = ClientSim(timecode=cfg.get("timecode", False), send_msg_timing=cfg.get("timing", True),
                            log_level=logging.ERROR)
        self.trace = []
        try:
            sim = self.cs.sim
            self.probe = sim.open()
            self.probe.send(P.build(P.MT_CONNECT_V2, P.CONNECT_V2.pack(0, 0, 0, 30, 1, P.cstr(b"probe")), src_mod=30,
                                    timecode=self.cs.timecode))
            self.cs.pump()
            self.client = self.cs.new_client(module_id=20, timecode=self.cs.timecode)
            self.twin = None
            if cfg.get("twin"):
                # a second instance of the same module (same static id, both allow_multiple): each connection has its own
                # subscriptions at the manager
                self.client.connect("127.0.0.1:7111", allow_multiple=True)
                self.cs.pump()
                self.twin = self.cs.new_client(module_id=20, timecode=self.cs.timecode)
                self.twin.connect("127.0.0.1:7111", allow_multiple=True)
            elif cfg.get("logger"):
                # connected as a logger module: the client-side and manager-side subscription tables still have to agree
                self.client.connect("127.0.0.1:7111", logger_status=True)
            else:
                self.client.connect("127.0.0.1:7111")
            self.cs.pump()
            self.conn = self.cs.conn_of(self.client)
            self.conn.take()
            self.twin_conn = self.cs.conn_of(self.twin) if self.twin else None
            self.seq = 0
        except BaseException:
            self.cs.close()
            raise

    def viol(self, key, what):
        raise Violation(key, what, {"cfg": self.cfg, "ops": list(self.trace)})

    def alive(self):
        if self.cs.sim.dead:
            self.viol("manager-died", "manager terminated: " + self.cs.sim.dead.strip().splitlines()[-1])

    def delivered(self):
        """Publish one probe message per type; which of them reach the client's connection?"""
        self.conn.rxbuf.clear()
        self.conn.take()
        base = self.seq
        for t in PROBED:
            self.seq += 1
            self.probe.send(P.build(self.fwd.get(t, t), P.tag_payload(self.seq, 8), src_mod=30, send_time=float(self.seq),
                                    timecode=self.cs.timecode))
        self.cs.pump()
        self.alive()
        self.conn.rxbuf += self.conn.take()
        frames = P.parse_stream(self.conn.rxbuf, self.cs.timecode)
        got = [f for f in frames if f.src_mod_id == 30]
        for f in got:
            tag = P.tag_of(f)
            if tag is None or not (base < tag <= self.seq):
                self.viol("stale-or-invented", f"client connection received probe frame {f.brief()} outside the current probe round")
        types = [self.back.get(f.msg_type, f.msg_type) for f in got]
        if len(types) != len(set(types)):
            self.viol("duplicate-delivery", f"a probe message was delivered twice to the client: {types}")
        self.probe.take()
        return set(types)

    def reported(self):
        c = self.client
        sub = c.subscribed_types
        paused = c.paused_subscribed_types
        if self.back:
            sub = {self.back.get(t, t) for t in sub}
            paused = {self.back.get(t, t) for t in paused}
        return sub, paused

    def expect_delivered(self, sub):
        return set(PROBED) if ALL in sub else set(sub) & set(PROBED)

    def check_agreement(self, ctxt):
        sub, paused = self.reported()
        d = self.delivered()
        exp = self.expect_delivered(sub)
        if d != exp:
            self.viol("disagree/" + ("all" if ALL in sub else "types"),
                      f"after {ctxt}: client reports subscribed_types={sorted(sub)} but the manager delivers {sorted(d)}")
        if paused & d:
            self.viol("paused-delivered", f"after {ctxt}: paused types {sorted(paused & d)} are delivered")
        return sub, paused, d

    def reconnect(self, op):
        """The same Client object starts a new session: after disconnect(), or after its connection was lost (the manager
        dropped it; the client notices on its next read).  Whatever the client reports afterwards must be what is delivered."""
        from pyrtma.exceptions import ConnectionLost

        c = self.client
        if op["how"] == "lost":
            c._sock.sendall(P.build(1234, b"", num_data_bytes=-5, src_mod=c.module_id, timecode=self.cs.timecode))
            self.cs.pump()
            try:
                for _ in range(50):
                    if c.read_message(timeout=0) is None and not c._sock.rx and not c._sock.rx_fin:
                        break
                raise HarnessError("the manager dropped the client but read_message never raised ConnectionLost")
            except ConnectionLost:
                pass
        else:
            c.disconnect()
            self.cs.pump()
        c.connect("127.0.0.1:7111")
        self.cs.pump()
        self.alive()
        self.conn = self.cs.conn_of(c)
        self.conn.take()
        sub, paused, d = self.check_agreement(f"reconnect({op['how']})")
        if op.get("resume_all"):
            # nothing is paused in a new session: resuming everything must not bring anything back
            c.resume_all_subscriptions()
            self.cs.pump()
            self.check_agreement(f"reconnect({op['how']}) + resume_all_subscriptions()")

    def apply(self, op):
        from pyrtma.exceptions import InvalidSubscription

        self.trace.append(op)
        if self.twin is not None:
            if op["op"] == "reconnect":
                return
            if op.get("who"):
                # the operation is issued by the second instance; afterwards the first one is checked as well
                self.client, self.twin, self.conn, self.twin_conn = self.twin, self.client, self.twin_conn, self.conn
                try:
                    self.trace.pop()
                    return self.apply(dict(op, who=0))
                finally:
                    self.client, self.twin, self.conn, self.twin_conn = self.twin, self.client, self.twin_conn, self.conn
                    self.trace[-1] = op
                    self.check_agreement(f"{op['op']}({op.get('types', [])}) issued by the other instance of the module")
        if op["op"] == "reconnect":
            return self.reconnect(op)
        c = self.client
        name = op["op"]
        types = op.get("types", [])
        # (for the duration of this call the manager may be momentarily not reading: finite send waits of the client expire)
        self.cs.busy_sends = int(op.get("busy", 0))
        try:
            return self._apply(op, c, name, types)
        finally:
            self.cs.busy_sends = 0

    def _apply(self, op, c, name, types):
        from pyrtma.exceptions import InvalidSubscription

        sub0, paused0 = self.reported()
        was_all = c._sub_all if hasattr(c, "_sub_all") else (ALL in sub0)
        all_state = ALL in sub0
        raised = None
        bad_raised = None

        def arg():
            # the argument as the caller passes it: any iterable of ints (list, tuple, set, generator, iterator), possibly
            # with one entry that cannot be a message type
            items = [self.fwd.get(t, t) for t in types]
            if "bad" in op:
                items.insert(op.get("bad_at", 0) % (len(items) + 1), BAD_ENTRIES[op["bad"]])
            kind = op.get("container", "list")
            if kind == "tuple":
                return tuple(items)
            if kind == "set" and "bad" not in op:
                return set(items)
            if kind == "generator":
                return (x for x in items)
            if kind == "iterator":
                return iter(items)
            return items

        with warnings.catch_warnings():
            warnings.simplefilter("ignore")
            try:
                if name in OPS:
                    try:
                        getattr(c, name)(arg())
                    except (TypeError, ValueError, OverflowError) as e:
                        if "bad" not in op:
                            raise
                        bad_raised = e
                elif name in BULK:
                    getattr(c, name)()
                elif name in CTX:
                    entered = False
                    try:
                        with getattr(c, name)([self.fwd.get(t, t) for t in types]):
                            entered = True
                            self.cs.pump()
                            if op.get("probe_inside"):
                                self.check_agreement(f"entering {name}({types})")
                            if op.get("leave") == "exception":
                                # the body is left by an exception of its own (it made no subscription change)
                                raise _BodyLeft()
                            if op.get("leave") == "base-exception":
                                raise _BodyLeftBase()
                    except (_BodyLeft, _BodyLeftBase):
                        pass
                else:
                    raise HarnessError(f"unknown op {name}")
            except InvalidSubscription as e:
                raised = e
        self.cs.pump()
        self.alive()
        sub1, paused1, d1 = self.check_agreement(f"{name}({types})" + (f" with the invalid entry {BAD_ENTRIES[op['bad']]!r}" if "bad" in op else ""))
        if "bad" in op and name in OPS:
            # a request with an entry that cannot be a message type: refused as a whole, or the valid part applied on both
            # sides - the agreement checked above is what the statement demands; additionally a refused request changes nothing
            if bad_raised is not None and raised is None and (sub1, paused1) != (sub0, paused0):
                self.viol("invalid-entry-refused-but-changed", f"{name}({types} + {BAD_ENTRIES[op['bad']]!r}) raised {type(bad_raised).__name__} but the "
                          f"client's sets changed: {sorted(sub0)}/{sorted(paused0)} -> {sorted(sub1)}/{sorted(paused1)}")
            return
        indiv = [t for t in types if t != ALL]
        if raised is not None:
            # (iii) refused: nothing changes anywhere
            if not all_state:
                self.viol("refused-without-reason", f"{name}({types}) raised InvalidSubscription although not subscribed to all types")
            if (sub1, paused1) != (sub0, paused0):
                self.viol("refused-but-changed", f"{name}({types}) was refused but the client's sets changed: {sorted(sub0)}/{sorted(paused0)} -> {sorted(sub1)}/{sorted(paused1)}")
            return
        if all_state and name in OPS and ALL not in types and types:
            self.viol("individual-change-accepted-while-all", f"{name}({types}) was accepted while subscribed to all types")
        # (v) documented post-conditions
        if name == "subscribe":
            if ALL in types:
                if d1 != set(PROBED):
                    self.viol("post/subscribe-all", f"after subscribe({types}) not every type is delivered: {sorted(d1)}")
            else:
                miss = set(indiv) & set(PROBED) - d1
                if miss:
                    self.viol("post/subscribe", f"after subscribe({types}) types {sorted(miss)} are not delivered")
        elif name in ("unsubscribe", "pause_subscription"):
            if ALL in types:
                if d1:
                    self.viol("post/" + name + "-all", f"after {name}({types}) still delivered: {sorted(d1)}")
            elif set(indiv) & d1:
                self.viol("post/" + name, f"after {name}({types}) still delivered: {sorted(set(indiv) & d1)}")
        elif name == "resume_subscription" and ALL not in types:
            miss = (set(indiv) & paused0 & set(PROBED)) - d1
            if miss:
                self.viol("post/resume", f"after resume_subscription({types}) previously paused {sorted(miss)} are not delivered")
        elif name == "unsubscribe_from_all" and d1:
            self.viol("post/unsubscribe_from_all", f"after unsubscribe_from_all() still delivered: {sorted(d1)}")
        elif name == "pause_all_subscriptions" and d1:
            self.viol("post/pause_all", f"after pause_all_subscriptions() still delivered: {sorted(d1)}")
        elif name == "resume_all_subscriptions":
            miss = (paused0 & set(PROBED)) - d1
            if miss and not all_state:
                self.viol("post/resume_all", f"after resume_all_subscriptions() previously paused {sorted(miss)} are not delivered")
        # (iv) contexts entered with individual types restore the entry state
        if name in CTX and ALL not in types and not all_state:
            if (sub1, paused1) != (sub0, paused0):
                self.viol(f"context-not-restored/{name}",
                          f"{name}({types}) entered with subscribed={sorted(sub0)} paused={sorted(paused0)}; after leaving: "
                          f"subscribed={sorted(sub1)} paused={sorted(paused1)}")

    def close(self):
        self.cs.close()


def abstract(sub, paused):
    if ALL in sub:
        return "ALL"
    return tuple(("s" if t in sub else "p" if t in paused else "-") for t in UNIVERSE)


def argshape(state, types):
    if state == "ALL":
        cls = ["A" if t == ALL else "x" for t in types]
    else:
        cls = ["A" if t == ALL else state[UNIVERSE.index(t)] if t in UNIVERSE else "?" for t in types]
    return (len(types), len(types) != len(set(types)), tuple(sorted(set(cls))))


def run_case(cfg, ops, res: Result = None):
    w = C02World(cfg)
    try:
        w.check_agreement("connect()")
        for op in ops:
            sub, paused = w.reported()
            st0 = abstract(sub, paused)
            w.apply(op)
            if w.twin is not None and not op.get("who"):
                w.client, w.twin, w.conn, w.twin_conn = w.twin, w.client, w.twin_conn, w.conn
                try:
                    w.check_agreement(f"{op['op']}({op.get('types', [])}) issued by the other instance of the module")
                finally:
                    w.client, w.twin, w.conn, w.twin_conn = w.twin, w.client, w.twin_conn, w.conn
            if res is not None:
                if w.twin is not None:
                    res.count("ops-with-second-instance")
                res.count("ops")
                res.count("op-" + op["op"])
                if st0 != tuple("-" * len(UNIVERSE)):
                    res.shape(st0 if st0 == "ALL" else tuple(sorted(st0)), op["op"], argshape(st0, op.get("types", [])))
                    res.count("ops-nontrivial")
    finally:
        w.close()


CFGS = [{"timecode": False, "timing": True}, {"timecode": True, "timing": False}, {"timecode": False, "timing": False, "twin": True},
        {"timecode": False, "timing": False, "logger": True},
        {"timecode": False, "timing": True, "ids": "edges"}, {"timecode": True, "timing": True, "ids": "int32"}]


def st_types():
    t = st.sampled_from(UNIVERSE[:3] * 3 + UNIVERSE + [ALL])
    return st.lists(t, min_size=0, max_size=5)


def st_op():
    return st.tuples(_st_op(), st.sampled_from([0, 0, 1])).map(lambda x: dict(x[0], who=x[1]) if x[1] else x[0])


def _st_op():
    return st.one_of(
        st.tuples(st.sampled_from(OPS), st_types()).map(lambda x: {"op": x[0], "types": x[1]}),
        st.tuples(st.sampled_from(OPS), st_types(), st.sampled_from(["tuple", "set", "generator", "iterator"])).map(
            lambda x: {"op": x[0], "types": x[1], "container": x[2]}),
        st.tuples(st.sampled_from(OPS), st_types(), st.integers(0, len(BAD_ENTRIES) - 1), st.integers(0, 5),
                  st.sampled_from(["list", "tuple", "generator"])).map(
            lambda x: {"op": x[0], "types": x[1], "bad": x[2], "bad_at": x[3], "container": x[4]}),
        st.sampled_from(BULK).map(lambda n: {"op": n}),
        st.tuples(st.sampled_from(OPS + BULK), st_types(), st.sampled_from([1, 2, 6])).map(
            lambda x: {"op": x[0], "types": x[1], "busy": x[2]} if x[0] in OPS else {"op": x[0], "busy": x[2]}),
        st.tuples(st.sampled_from(CTX), st_types(), st.booleans()).map(lambda x: {"op": x[0], "types": x[1], "probe_inside": x[2]}),
        st.tuples(st.sampled_from(CTX), st_types(), st.booleans(), st.sampled_from(["exception", "exception", "base-exception"])).map(
            lambda x: {"op": x[0], "types": x[1], "probe_inside": x[2], "leave": x[3]}),
        st.tuples(st.sampled_from(["clean", "lost", "lost"]), st.booleans()).map(lambda x: {"op": "reconnect", "how": x[0], "resume_all": x[1]}),
    )


def shard(seed, n, max_len, quick, idx):
    res = Result()

    def body(v):
        ci, ops = v
        run_case(CFGS[ci], ops, res)
        res.count("histories")
        if len(res.samples) < 2:
            res.sample({"cfg": CFGS[ci], "ops": ops[:12]})

    hyp_run(body, st.tuples(st.sampled_from([0, 1, 0, 1, 2, 3, 4, 4, 5]), st.lists(st_op(), min_size=3, max_size=max_len)), seed, n, res)
    # exhaustive sub-domain (thorough: complete; quick: the slice idx of 16*8)
    res.merge(enumerate_small(idx, 16, 1))
    return res


SMALL = UNIVERSE[:3]


def small_arglists():
    elems = SMALL + [ALL]
    out = [[]]
    for n in (1, 2, 3):
        out += [list(p) for p in itertools.product(elems, repeat=n)]
    return out


def reachable_states():
    """BFS over abstract client states over SMALL (+ALL) using the client-side bookkeeping rules of the
    documentation (a reference only used to find a path of real API calls into each state)."""
    start = ("-", "-", "-")
    paths = {start: []}
    frontier = [start]
    while frontier:
        nxt = []
        for s in frontier:
            for name in OPS:
                for args in ([t] for t in SMALL + [ALL]):
                    t = args[0]
                    if s == "ALL":
                        if t != ALL:
                            continue
                        ns = "ALL" if name in ("subscribe", "resume_subscription") else start
                    elif t == ALL:
                        ns = "ALL" if name in ("subscribe", "resume_subscription") else start
                    else:
                        i = SMALL.index(t)
                        cur = list(s)
                        cur[i] = {"subscribe": "s", "resume_subscription": "s", "unsubscribe": "-", "pause_subscription": "p"}[name]
                        ns = tuple(cur)
                    if ns not in paths:
                        paths[ns] = paths[s] + [{"op": name, "types": args}]
                        nxt.append(ns)
        frontier = nxt
    return paths


def enumerate_small(idx, nshards, stride):
    res = Result()
    paths = reachable_states()
    cases = []
    for s, path in sorted(paths.items(), key=lambda kv: str(kv[0])):
        for name in OPS + CTX:
            for args in small_arglists():
                cases.append((path, {"op": name, "types": args}))
        for name in CTX:
            for args in small_arglists():
                cases.append((path, {"op": name, "types": args, "leave": "exception"}))
        for name in BULK:
            cases.append((path, {"op": name}))
    mine = [c for i, c in enumerate(cases) if i % nshards == idx]
    if stride > 1:
        mine = mine[::stride]
    for path, op in mine:
        try:
            run_case(CFGS[0], path + [op], None)
        except Violation as v:
            res.add_finding(v.key, v.what, v.trace)
        res.evaluations += 1
        res.count("enumerated-state-op-args")
        if path:
            res.shape("enum", str(paths and abstract_key(path)), op["op"], tuple(op.get("types", [])))
    res.count("enumeration-total-cases", len(cases) if idx == 0 else 0)
    res.count("enumeration-states", len(paths) if idx == 0 else 0)
    if stride == 1:
        res.notes.append("the sub-domain (reachable abstract state over 3 types + ALL) x operation x argument list (<=3 entries over 3 types + ALL) was enumerated completely")
    return res


def abstract_key(path):
    return tuple((o["op"][:3], tuple(o.get("types", []))) for o in path)


def run(ctx: RunContext) -> int:
    t0 = time.time()
    n = ctx.scale(800, 8000)
    max_len = 25
    res = run_shards(shard, [(derive_seed(ctx.seed, i), n, max_len, ctx.quick, i) for i in range(16)])
    return conclude(ctx, res, RULE, ASSUME, t0)


def replay_trace(trace: dict):
    run_case(trace["cfg"], trace["ops"], None)
