"""C04 - all language outputs of the compiler describe the same wire format.

Differential between five views of every accepted program: the generator's expectation (built by construction,
never from the parser), the parser model (what the compiler recorded), the generated Python module (ctypes),
the generated C header (laid out by gcc), the generated JavaScript module (node) and the generated MATLAB
script (mini interpreter).  See DESIGN.md 4 "C04".
"""
from __future__ import annotations

import time

from hypothesis import strategies as st

from vlib import defgen as G
from vlib import langs as L
from vlib.common import HarnessError, Result, RunContext, Violation, conclude, derive_seed, hyp_run, run_shards

RULE = ("Hypothesis draws well-formed definition closures (vlib.defgen.programs: 1-6 files, any import graph, constants and "
        "expressions, aliases of natives/aliases, nested structs and messages, scalar/array fields with literal or expression lengths, "
        "signals, reserved ids, field-list reuse, auto-padding, aliases of imported structs (also as field types), structs holding "
        "imported messages, string constants with quotes/backslashes, names containing MT_/MID_/HID_; validate_alignment on, auto_pad and "
        "import_coredefs drawn), preceded in every shard by a covering family in which each of the 26 native "
        "type names is a scalar field, an array element, an alias target used as scalar and as array, inside nested structs and struct "
        "arrays, compiled with the core definitions on and off.  Each program is compiled for real; ids, constants, string constants, "
        "module and host ids, hash values, field names/order/array lengths/element kind, width and signedness (as far as the language "
        "carries them) of every message and struct are compared between the generator's expectation, the parser model, Python "
        "(ctypes), C (gcc probe: sizeof/_Alignof/offsetof/_Generic), JavaScript (node) and MATLAB (interpreter); sizeof/offsetof from "
        "gcc == ctypes == type_size == sum of MATLAB element sizes == expectation.  Non-trivial = accepted program with >=2 distinct "
        "native widths and >=1 nested or array field; distinct = set of (resolved native type, scalar/array) + nesting depth + options.")
ASSUME = [
    "no MATLAB/Octave in the sandbox: the .m output is executed by vlib.langs.matlab_run, an interpreter for the statement subset the back end emits",
    "JavaScript objects carry no element widths: for JS 'element type' means string / number / nested object; char[n] may be one string (length not carried) or n one-char strings",
    "MATLAB holds char data as int8: char and int8 are not told apart there",
    "a length-1 array and a scalar are the same bytes and are treated as equal (the Python back end emits a scalar, C emits x[1])",
    "the C header is probed only for closures that do not use core type names (the header omits the core definitions on purpose: C clients include RTMA.h, which is not part of the repository)",
    "programs are compiled with validate_alignment on (switching it off is the user's explicit opt-out of the layout guarantee)",
    "hash values are compared between the languages and the parser model; what the hash must depend on is C13",
    "programs the compiler rejects or that make it crash are outside 'every definition file the compiler accepts' and are C15's subject; they are counted only",
    "a language output that does not load at all is reported here as well (key <lang>/load/...), because nothing can then be compared",
]

ALLOW = ("prefix-names", "zero-length")  # zero-length: rejected by the compiler since the repair of F21 (the generator no longer emits it)
# classes that were tied to compiler defects which are repaired now: part of the normal domain, kept at a moderate weight
FORMER = ("alias-of-imported-struct", "alias-of-imported-struct-field", "struct-contains-message", "string-special")
PREFIXES = ("MT_", "MID_", "HID_")


# ------------------------------------------------------------------------------------------------
# covering family: every native name as scalar, array element, alias target


def covering_program(core: bool, variant: int) -> G.Program:
    path = "cover.yaml"
    defs = []
    big = []
    for i, (tn, w) in enumerate(G.NATIVES.items()):
        tag = tn.upper().replace(" ", "_")
        al = f"AL_{tag}"
        al2 = f"AL2_{tag}"
        defs.append(G.Def(kind="alias", name=al, file=path, value=tn))
        defs.append(G.Def(kind="alias", name=al2, file=path, value=al))

        def F(name, base, n=None):
            return G.FieldSpec(name, base if n is None else f"{base}[{n}]", base, n, None if n is None else str(n))

        fields = [F("s", tn)]
        if w < 8:
            fields.append(F("p0", "char", 8 - w))
        n_arr = 3 + variant
        fields.append(F("arr", tn, n_arr))
        if (n_arr * w) % 8:
            fields.append(F("p1", "char", 8 - (n_arr * w) % 8))
        fields.append(F("al", al))
        if w < 8:
            fields.append(F("p2", "char", 8 - w))
        fields.append(F("alarr", al2, 2))
        if (2 * w) % 8:
            fields.append(F("p3", "char", 8 - (2 * w) % 8))
        big.append((f"CV_{tag}", fields))
    for name, fields in big:
        defs.append(G.Def(kind="struct", name=name, file=path, fields=fields))
    mf = []
    for k, (name, _f) in enumerate(big):
        mf.append(G.FieldSpec(f"f{k}", name if k % 3 else f"{name}[2]", name, None if k % 3 else 2, None if k % 3 else "2"))
    defs.append(G.Def(kind="message", name="CV_ALL", file=path, id=4321, fields=mf))
    defs.append(G.Def(kind="message", name="CV_NEST", file=path, id=4322,
                      fields=[G.FieldSpec("all", "CV_ALL", "CV_ALL"), G.FieldSpec("tail", "unsigned short[4]", "unsigned short", 4, "4")]))
    defs.append(G.Def(kind="signal", name="CV_SIGNAL", file=path, id=4323))
    defs.append(G.Def(kind="module", name="CV_MODULE", file=path, value=42))
    defs.append(G.Def(kind="host", name="CV_HOST", file=path, value=77))
    defs.append(G.Def(kind="constant", name="CV_CONST", file=path, value=123, text="123"))
    # section order of the parser: constants, strings, aliases, hosts, modules, structs, messages
    order = {"constant": 0, "string": 1, "alias": 2, "host": 3, "module": 4, "struct": 5, "message": 6, "signal": 6}
    defs.sort(key=lambda d: order[d.kind])
    spec = G.FileSpec(path=path, defs=defs)
    return G.Program([spec], path, {"auto_pad": True, "validate_alignment": True, "import_coredefs": core}, "single",
                     {"covering", "alias-native", "alias-of-alias", "struct-array", "array-literal", "nested-depth-2"})


# ------------------------------------------------------------------------------------------------
# one case


def _has_zero(ref, name, depth=0):
    d = ref["defs"].get(name)
    if d is None or depth > 12:
        return False
    for f in d["fields"]:
        if f["len"] == 0:
            return True
        if f["t"]["k"] == "struct" and _has_zero(ref, f["t"].get("ref"), depth + 1):
            return True
    return False


def _qualifier(ref, aspect, where):
    """Construct class a difference belongs to (part of the finding key)."""
    top = where.split(".")[0]
    if any(p in top for p in PREFIXES) and ("missing" in aspect):
        return "name-contains-" + next(p for p in PREFIXES if p in top)
    if top in ref["defs"] and _has_zero(ref, top):
        return "zero-length"
    if aspect in ("element-kind", "element-width") and "." in where:
        # the declared native type of the field
        d = ref["defs"].get(top)
        cur = d
        for part in where.split(".")[1:]:
            f = next((x for x in cur["fields"] if x["name"] == part), None) if cur else None
            if f is None:
                return ""
            if f["t"]["k"] == "struct":
                cur = ref["defs"].get(f["t"].get("ref"))
            else:
                tn = f.get("tn")
                al = ref["aliases"].get(tn)
                while al is not None and al.get("tn") in ref["aliases"]:
                    al = ref["aliases"][al["tn"]]
                return (al["tn"] if al is not None else tn) or ""
    return ""


def case_findings(program: G.Program, ex: L.Exam):
    """[(key, what)] for one examined program."""
    out = []
    ref = ex.ref

    def add(lang, aspect, where, text):
        q = _qualifier(ref, aspect, where)
        key = f"{lang}/{aspect}" + (f"/{q}" if q else "")
        out.append((key, f"{lang} output disagrees with the reference on {aspect} at {where or 'module level'}: {text}"))

    for a, w, t in L.diff_sigs(ref, dict(ex.psig, lang="parser")):
        add("parser", a, w, t)
    for lang, sig in ex.sigs.items():
        for a, w, t in L.diff_sigs(ref, sig, skip=ex.core if lang == "c" else frozenset()):
            add(lang, a, w, t)
    # gcc against ctypes directly (also when validate_alignment is off and the reference has no offsets)
    if "c" in ex.sigs and "python" in ex.sigs and not ex.sigs["c"]["load_error"] and not ex.sigs["python"]["load_error"]:
        py, c = ex.sigs["python"], ex.sigs["c"]
        for n, cd in c["defs"].items():
            pd = py["defs"].get(n)
            if pd is None or pd.get("error") or not cd["fields"]:
                continue
            if cd["size"] != pd["size"]:
                add("c-vs-python", "size", n, f"gcc sizeof {cd['size']}, ctypes.sizeof {pd['size']}")
            if pd.get("type_size") is not None and cd["size"] != pd["type_size"]:
                add("c-vs-python", "type_size", n, f"gcc sizeof {cd['size']}, recorded type_size {pd['type_size']}")
            for cf, pf in zip(cd["fields"], pd["fields"]):
                if cf["name"] == pf["name"] and cf["off"] != pf["off"]:
                    add("c-vs-python", "field-offset", f"{n}.{cf['name']}", f"gcc offsetof {cf['off']}, ctypes offset {pf['off']}")
    if ex.matlab_error is not None:
        e = ex.matlab_error
        q = ""
        if isinstance(e, L.MatlabUndefined):
            leaf = e.path.split(".")[-1]
            hit = [n for n in list(ref["mt"]) + list(ref["mid"]) + list(ref["hid"]) if any(p in n for p in PREFIXES) and
                   any(n.replace(p, "", 1) == leaf for p in PREFIXES)]
            q = "/name-contains-" + next(p for p in PREFIXES if p in hit[0]) if hit else ""
        out.append((f"matlab/load/{type(e).__name__}{q}", f"the MATLAB script fails: {e}"))
    return out


def shape_of(program: G.Program):
    kinds, widths, nested = set(), set(), False
    for d in program.defs:
        if d.kind not in ("struct", "message"):
            continue
        for f in program.user_fields(d.name):
            r = program.resolve_type(f.base)
            arr = f.length is not None and f.length != 1
            if r.kind == "native":
                kinds.add((r.name, arr))
                widths.add(G.NATIVES[r.name])
            else:
                nested = True
                kinds.add((r.kind, arr))
            if arr:
                nested = True
    depth = max([int(c.rsplit("-", 1)[1]) for c in program.classes if c.startswith("nested-depth-")] or [0])
    return len(widths) >= 2 and nested, (tuple(sorted(kinds)), depth)


def run_case(E: L.Examiner, program: G.Program, res: Result = None):
    """Examine one program; returns [(key, what)]."""
    opts = program.compile_kwargs()
    expect = L.sig_from_program(program)
    ex = E.examine(program, opts, expect=expect)
    if res is not None:
        res.inconclusive += len(ex.timeouts)
    if ex.compile_error is not None:
        if res is not None:
            res.count("not-accepted/" + ("rejected" if ex.compile_error.is_parser_error else "internal-error") + "/" + ex.compile_error.kind)
            if not ex.compile_error.is_parser_error and len(res.notes) < 3:
                res.notes.append("compiler internal error (C15's subject): " + str(ex.compile_error) + " at " + "/".join(ex.compile_error.innermost()))
        return []
    fnd = case_findings(program, ex)
    if res is not None:
        res.count("accepted")
        res.count("c-header-probed" if "c" in ex.sigs else "c-header-not-standalone")
        res.count("core-imported" if program.import_coredefs else "core-not-imported")
        res.count("auto-pad" if program.auto_pad else "no-auto-pad")
        for c in program.classes:
            if c in ALLOW or c in FORMER or c in ("needs-padding", "alias-field", "struct-array", "reuse", "message-in-message", "expr-length", "covering"):
                res.count("class/" + c)
        nontrivial, sh = shape_of(program)
        if nontrivial:
            res.shape(sh, tuple(sorted(opts.items())), "c" in ex.sigs)
            res.count("nontrivial")
        for d in program.defs:
            if d.kind in ("struct", "message"):
                res.count("definitions-compared")
    return fnd


def trace_of(program, key):
    return {"key": key, "program": program.to_json()}


def shard(seed, n, idx, quick):
    res = Result()
    E = L.Examiner()
    try:
        def one(program, label):
            for key, what in run_case(E, program, res):
                res.add_finding(key, what, trace_of(program, key))
            res.count(label)

        # covering family (both tiers, every shard runs one member so that all four variants run even with few shards)
        fam = [(core, v) for core in (False, True) for v in (0, 1)]
        core, v = fam[idx % len(fam)]
        one(covering_program(core, v), "covering-family")
        res.evaluations += 1
        if idx == 0:
            types = sorted(G.NATIVES)
            res.notes.append(f"covering family: each of the {len(types)} native names as scalar, array element and alias target (scalar and array), core on and off")

        def body(program):
            one(program, "random-programs")
            if len(res.samples) < 2 and program.classes:
                res.sample({"shape": program.shape, "options": program.options, "classes": sorted(program.classes)[:20], "files": list(program.files)})

        base = G.programs(validate_alignment=True)
        opt = G.programs(validate_alignment=True, allow=ALLOW)
        former = G.programs(validate_alignment=True, allow=FORMER, skeleton=True)
        nocore = G.programs(validate_alignment=True, import_coredefs=False, rich=True)
        hyp_run(body, st.one_of(base, nocore, former, nocore, opt, former), seed, n, res, collect=True)
    finally:
        E.close()
        L.cleanup()
    return res


def run(ctx: RunContext) -> int:
    t0 = time.time()
    n = ctx.scale(20, 190)
    res = run_shards(shard, [(derive_seed(ctx.seed, i), n, i, ctx.quick) for i in range(16)])
    return conclude(ctx, res, RULE, ASSUME, t0)


def replay_trace(trace: dict):
    program = G.Program.from_json(trace["program"])
    E = L.Examiner()
    try:
        fnd = run_case(E, program, None)
    finally:
        E.close()
        L.cleanup()
    for key, what in fnd:
        if key == trace.get("key"):
            raise Violation(key, what, trace)
    if trace.get("key") is None and fnd:
        raise Violation(fnd[0][0], fnd[0][1], trace)
