"""C04 - all language outputs of the compiler describe the same wire format.

Differential between five views of every accepted program: the generator's expectation (built by construction,
never from the parser), the parser model (what the compiler recorded), the generated Python module (ctypes),
the generated C header (laid out by gcc), the generated JavaScript module (node) and the generated MATLAB
script (mini interpreter).  See DESIGN.md 4 "C04".
"""
from __future__ import annotations

import random
import re
import time

from hypothesis import strategies as st

from vlib import defgen as G
from vlib import langs as L
from vlib.common import HarnessError, Result, RunContext, Violation, conclude, derive_seed, hyp_run, run_shards

RULE = ("Hypothesis draws well-formed definition closures (vlib.defgen.programs: 1-6 files, any import graph, constants and "
        "expressions, aliases of natives/aliases, nested structs and messages, scalar/array fields with literal or expression lengths, "
        "signals, reserved ids, field-list reuse, auto-padding, float constants (three programs out of four get 3-8 extra ones: literals of up "
        "to 17 significant digits in every magnitude, negative values, and * + - / expressions over them), aliases of imported structs (also as field types), structs holding "
        "imported messages, string constants with quotes/backslashes, names containing MT_/MID_/HID_; validate_alignment on, auto_pad and "
        "import_coredefs drawn), preceded in every shard by a covering family in which each of the 26 native "
        "type names is a scalar field, an array element, an alias target used as scalar and as array, inside nested structs and struct "
        "arrays, plus 23 numeric constants (long literals, huge/tiny/negative values, products, sums, differences and quotients such as "
        "0.1*3 and 1/30000), compiled with the core definitions on and off.  Each program is compiled for real; ids, constants, string constants, "
        "module and host ids, hash values, field names/order/array lengths/element kind, width and signedness (as far as the language "
        "carries them) of every message and struct are compared between the generator's expectation, the parser model, Python "
        "(ctypes), C (gcc probe: sizeof/_Alignof/offsetof/_Generic), JavaScript (node) and MATLAB (interpreter); sizeof/offsetof from "
        "gcc == ctypes == type_size == sum of MATLAB element sizes == expectation.  A stream of NEAR MISSES runs beside it: hand-written files with zero / negative / fractional array lengths and with "
        "one name given to two kinds of definition across files (with a field that uses it), with the 7 reserved field names, with field names that start with underscores, with a constant / string constant / alias / host "
        "id / struct named like something the generated Python module imports or defines for itself (27 names x 5 kinds, rotating slice), definitions that "
        "need padding compiled with auto_pad off and validation on (through compile() keywords, the CLI flag and compiler_options in the YAML; "
        "hand-written layouts and the generator's layout profile), generated programs of the generator's 'fractional-length' and 'reserved-field-name' classes, plus a rotating slice "
        "(all in the thorough tier) of the generator's 804-case conflict table, plus the 40 kinds of vlib.defgen.add_hygiene (a constant that is .inf / -.inf / .nan or a YAML "
        "bool; a constant, string constant, alias, host, module, struct, message, signal or field whose name is no identifier - MAX-N, N.MAX, MAX N; an alias, struct, "
        "message or signal named like a native type; a field named like a Python descriptor class, like the type of a later field, like a Python keyword, like a C "
        "keyword; a constant named like a field), each once per run on a two-message base and one random program in eight; a rejection is only counted, an accepted one gets the same cross-language "
        "comparison with the parser model as reference.  The random programs include array lengths whose '/' does not come out whole and is used further ((BITS / 8) * N, "
        "N / 2 + N / 2: true division, truncated once), constant and length expressions with << >> | & ^ ~ // % ** and unary signs, expressions naming 11-16 constants and "
        "string constants with line breaks / tabs (the covering family has hand-written members of each).  One program in nine (and two covering closures, core names and "
        "user names) has definitions whose NAME is in use in another namespace of the closure or of the imported core definitions - names are unique per namespace only: a module id "
        "called like a message / signal / struct / constant / string constant / alias / host id (RTMA_LOG, EXIT, DATA_SET, MAX_MODULES, LOCAL_HOST), a host id called like a message, "
        "signal or module id (TIMING_MESSAGE, QUICK_LOGGER), a message or signal called like a module id or host id (MESSAGE_MANAGER, LOCAL_HOST), a struct, constant, string constant "
        "or alias called like a module id; the new structs / messages / aliases are used as field types; for the C header only the core definitions OF THE SAME NAMESPACE are "
        "left out of the comparison - or a message / signal called MM_ERROR, MM_INFO or DEBUG_TEXT (obsolete core messages the MATLAB back end still writes itself), or a struct / "
        "alias / message called ``string`` (a helper of the JavaScript module's type table) used as a field type - and string constants whose lines look like YAML to a line-by-line "
        "reader (host:port, key: value, - item, # comment, block / flow indicators, leading and trailing blanks; a covering closure holds every text of the vocabulary).  The hygiene "
        "near misses include a host id that shares its name with a constant / string constant / alias / struct of the closure or of the core definitions (the Python module writes all "
        "five under their bare name).  Non-trivial = accepted program with >=2 distinct "
        "native widths and >=1 nested or array field; distinct = set of (resolved native type, scalar/array) + nesting depth + options.")
ASSUME = [
    "no MATLAB/Octave in the sandbox: the .m output is executed by vlib.langs.matlab_run, an interpreter for the statement subset the back end emits",
    "JavaScript objects carry no element widths: for JS 'element type' means string / number / nested object; char[n] may be one string (length not carried) or n one-char strings",
    "MATLAB holds char data as int8: char and int8 are not told apart there",
    "constant values are compared exactly (identical doubles; every back end prints Python's shortest round-trip repr); 2.0 and 2 count as the same number for JavaScript and MATLAB, which have one number type, while Python and C must also agree on int versus float",
    "constant and array-length expressions are arithmetic on numbers once the constant names are replaced by their values: the operators the documentation shows (* + - and parentheses), '/' (true division; an array length is truncated once, at the end) and the other operators of that arithmetic (<< >> | & ^ ~ // % ** unary + -) on whole numbers",
    "hygiene near misses (non-identifier names, native type names, keyword / descriptor field names, non-finite or boolean constants, constants named like fields) may be refused by the compiler; only an accepted one whose outputs disagree or do not load is reported, under near-miss-accepted/<construct>/<language>-<aspect>",
    "a length-1 array and a scalar are the same bytes and are treated as equal (the Python back end emits a scalar, C emits x[1])",
    "the C header is probed only for closures that do not use core type names (the header omits the core definitions on purpose: C clients include RTMA.h, which is not part of the repository); a user definition that merely shares its NAME with a core definition of another namespace (module id RTMA_LOG, message QUICK_LOGGER) does not use it and must be in the header",
    "a host id called like a constant / string constant / alias / struct is a near miss (the parser keeps host ids in a namespace of their own, the Python module does not): refusal is accepted, an accepted one whose outputs disagree is reported under near-miss-accepted/host-shares-name/...",
    "programs are compiled with validate_alignment on (switching it off is the user's explicit opt-out of the layout guarantee)",
    "hash values are compared between the languages and the parser model; what the hash must depend on is C13",
    "programs the compiler rejects or that make it crash are outside 'every definition file the compiler accepts' and are C15's subject; they are counted only",
    "a language output that does not load at all is reported here as well (key <lang>/load/...), because nothing can then be compared",
]

ALLOW = ("prefix-names", "zero-length", "long-names")  # zero-length: rejected by the compiler since the repair of F21 (the generator no longer emits it)
# classes that were tied to compiler defects which are repaired now: part of the normal domain, kept at a moderate weight
FORMER = ("alias-of-imported-struct", "alias-of-imported-struct-field", "struct-contains-message", "string-special")
PREFIXES = ("MT_", "MID_", "HID_", "defines_")
# array lengths whose '/' does not come out whole and is used further ((BITS / 8) * N, N / 2 + N / 2); constant and length expressions with
# shifts, bitwise operators, floor division, remainder, power and unary signs
EXPRS = ("inexact-div-length", "rich-operators", "many-symbols", "string-control")
# names: a definition called like a definition of ANOTHER namespace of the closure or of the imported core definitions (module id RTMA_LOG,
# message QUICK_LOGGER, host id TIMING_MESSAGE ...); a message called like the obsolete core messages the MATLAB back end still writes by
# itself (MM_ERROR, MM_INFO, DEBUG_TEXT); a struct / alias / message called like the JavaScript back end's helper type "string"
NAMES = ("cross-namespace-names", "backend-literal-names")


# ------------------------------------------------------------------------------------------------
# float constants that need up to 17 significant digits (local addition to the generator: defgen's own float constants are short)

COVER_CONSTS = [
    # literals: many digits, large magnitude with a fraction, tiny, negative, integral float
    ("CVF_PI", "3.14159265358979"), ("CVF_E17", "2.7182818284590451"), ("CVF_BIG", "1234567.5"), ("CVF_BIGGER", "98765432109.876541"),
    ("CVF_TINY", "1.0e-9"), ("CVF_TINY17", "6.0221407599999999e-23"), ("CVF_NEG", "-0.12345678901234568"), ("CVF_NEGBIG", "-40000000.000000007"),
    ("CVF_TWO", "2.0"), ("CVF_TENTH", "0.1"), ("CVF_HUGE", "1.7976931348623157e+308"), ("CVF_E16", "12345678901234567.0"),
    ("CVF_RATE", "30000"), ("CVF_THREE", "3"),
    # expressions (documented operators * + - and parentheses; / is evaluated by the same eval and gives a float)
    ("CVX_PROD", "CVF_TENTH * CVF_THREE"), ("CVX_SUM", "CVF_TENTH + 0.2"), ("CVX_DIFF", "CVF_PI - CVF_E17"),
    ("CVX_PERIOD", "1/CVF_RATE"), ("CVX_QUOT", "CVF_PI / CVF_THREE"), ("CVX_MIX", "(CVF_BIG + CVF_TENTH) * CVF_NEG"),
    ("CVX_CHAIN", "CVX_PROD * CVX_PERIOD"), ("CVX_NEGSUB", "CVF_TENTH - CVF_NEG"), ("CVX_INT", "CVF_RATE * CVF_THREE + 1"),
    # a constant whose name is the start of another one used in the same expression (N1 / N10): word-wise substitution
    ("N1", "3"), ("N10", "10"), ("CH2", "2"), ("CH25", "25"), ("CVS_SUM", "N1 + N10"), ("CVS_PROD", "N1 * N10 + N1"), ("CVS_CH", "CH2 * CH25"),
    # whole numbers that come out of a division (a float for the evaluator) and serve as array lengths
    ("CVD_BUF", "64"), ("CVD_HALF", "CVD_BUF / 2"), ("CVD_QUART", "CVD_HALF / 2"),
    # whole-number constants for array lengths whose '/' does NOT come out whole and is used further (true division, truncated once at the end)
    ("CVI_BITS", "12"), ("CVI_CHANS", "4"), ("CVI_ODD", "5"), ("CVI_SEVEN", "7"),
    # shifts, bitwise operators, floor division, remainder, power, unary signs (evaluated like any arithmetic on whole numbers)
    ("CVO_BITS", "3"), ("CVO_NBUF", "1 << CVO_BITS"), ("CVO_MASK", "(1 << CVO_BITS) - 1"), ("CVO_OR", "CVO_MASK | 0xF0"), ("CVO_AND", "CVO_OR & 0x3C"),
    ("CVO_XOR", "CVO_OR ^ CVO_MASK"), ("CVO_NOT", "~CVO_MASK & 0xFF"), ("CVO_SHR", "CVO_OR >> 2"), ("CVO_FLOOR", "CVI_SEVEN // 2"), ("CVO_MOD", "CVD_BUF % CVI_SEVEN"),
    ("CVO_POW", "2 ** CVO_BITS"), ("CVO_NEG", "-CVO_BITS + 2 * CVO_BITS"), ("CVO_POS", "+CVO_BITS"), ("CVO_ALIGN", "(CVI_SEVEN + 7) // 8 * 8"),
]
# the same with names that corrupt the expression when substituted textually (a separate program: such a compiler crashes or rejects)
SUBSTRING_CONSTS = [
    ("CHANS", "4"), ("CHANS_MAX", "16"), ("LEN", "8"), ("MAX_LEN", "32"), ("RATE", "5"), ("SAMPLE_RATE_HZ", "1000"), ("N1", "3"), ("N10", "10"),
    ("SUB_A", "CHANS * 2 + CHANS_MAX"), ("SUB_B", "LEN + MAX_LEN"), ("SUB_C", "RATE * SAMPLE_RATE_HZ"), ("SUB_D", "CHANS_MAX - CHANS"),
    ("SUB_E", "(MAX_LEN + LEN) * LEN"), ("SUB_F", "N1 + N10"), ("SUB_HALF", "MAX_LEN / 2"),
]


def substring_program(core: bool) -> G.Program:
    """Constants whose names contain one another, used together in constant expressions and in array lengths."""
    path = "substr.yaml"
    defs = const_defs(SUBSTRING_CONSTS, path)

    def F(name, base, text):
        return G.FieldSpec(name, f"{base}[{text}]", base, int(eval_const(text, {d.name: d.value for d in defs})), text)

    defs.append(G.Def(kind="struct", name="SUB_STRUCT", file=path, fields=[F("a", "int32", "CHANS * 2 + CHANS_MAX"), F("b", "int16", "LEN + MAX_LEN"),
                                                                         F("c", "char", "N1 + N10"), F("d", "uint8", "CHANS_MAX - CHANS")]))
    defs.append(G.Def(kind="message", name="SUB_MSG", file=path, id=4400, fields=[G.FieldSpec("s", "SUB_STRUCT[N1]", "SUB_STRUCT", 3, "N1"),
                                                                                F("v", "double", "N1 + N10"), F("h", "int16", "MAX_LEN / 2"), F("k", "float", "SUB_HALF")]))
    spec = G.FileSpec(path=path, defs=defs)
    p = G.Program([spec], path, {"auto_pad": True, "validate_alignment": True, "import_coredefs": core}, "single",
                  {"covering", "const-substring-names", "expr-length", "struct-array"})
    probs = p.problems()
    if probs:
        raise HarnessError(f"substring program is ill-formed: {probs[:2]}")
    return p


def alias_chain_program(core: bool, variant: int) -> G.Program:
    """Aliases of aliases of a struct of an imported file (chains of length 2 and 3), used as scalar field and as array
    element, in a struct and in a message."""
    def F(name, base, n=None):
        return G.FieldSpec(name, base if n is None else f"{base}[{n}]", base, n, None if n is None else str(n))

    b = G.FileSpec(path="geom/base.yaml", defs=[
        G.Def(kind="struct", name="VERTEX_S", file="geom/base.yaml", fields=[F("x", "double"), F("y", "double"), F("tag", "int32"), F("pad", "int32")])])
    m = G.FileSpec(path="geom/mid.yaml", imports=[["base.yaml", "geom/base.yaml"]], defs=[
        G.Def(kind="alias", name="VERTEX", file="geom/mid.yaml", value="VERTEX_S"),
        G.Def(kind="alias", name="COORD", file="geom/mid.yaml", value="double"),
        G.Def(kind="alias", name="COORD2", file="geom/mid.yaml", value="COORD")])
    rp = "shapes.yaml"
    rdefs = [G.Def(kind="alias", name="CORNER", file=rp, value="VERTEX"),
             G.Def(kind="alias", name="CORNER3", file=rp, value="CORNER" if variant == 0 else "VERTEX"),
             G.Def(kind="alias", name="LOCAL_V", file=rp, value="VERTEX_S"),
             G.Def(kind="alias", name="LOCAL_V2", file=rp, value="LOCAL_V"),
             G.Def(kind="alias", name="COORD3", file=rp, value="COORD2"),
             G.Def(kind="struct", name="BOX", file=rp, fields=[F("a", "CORNER"), F("b", "CORNER", 3), F("c", "CORNER3"), F("w", "COORD3"), F("h", "COORD3", 2)]),
             G.Def(kind="message", name="SHAPE", file=rp, id=4410, fields=[F("c", "CORNER"), F("cs", "CORNER3", 2), F("box", "BOX"), F("lv", "LOCAL_V2", 2),
                                                                         F("v", "VERTEX"), F("z", "COORD3")]),
             G.Def(kind="message", name="SHAPES", file=rp, id=4411, fields=[F("all", "SHAPE", 2), F("last", "LOCAL_V2")])]
    r = G.FileSpec(path=rp, imports=[["geom/mid.yaml", "geom/mid.yaml"]], defs=rdefs)
    p = G.Program([b, m, r], rp, {"auto_pad": True, "validate_alignment": True, "import_coredefs": core}, "chain",
                  {"covering", "alias-of-alias", "alias-of-imported-struct", "alias-of-imported-struct-field", "alias-chain-to-struct", "alias-field", "struct-array"})
    probs = p.problems()
    if probs:
        raise HarnessError(f"alias chain program is ill-formed: {probs[:2]}")
    return p


def dependency_diamond_program(core: bool, variant: int) -> G.Program:
    """Definitions of an imported file that are pulled forward (alias of a struct, message used as a struct field) and whose
    field lists name two not-yet-emitted types of which one CONTAINS the other (SEGMENT {POINT, POINT}, PATH {SEGMENT, POINT};
    also the other order of mention): whatever order the emission groups are computed in, a definition follows everything it uses."""
    def F(name, base, n=None):
        return G.FieldSpec(name, base if n is None else f"{base}[{n}]", base, n, None if n is None else str(n))

    bp = "geo/parts.yaml"
    # (five distinct not-yet-emitted types behind the definition that is pulled forward: an emission order that followed a hash
    # order would differ between two processes in 119 of 120 cases)
    path_fields = ([F("first", "SEGMENT"), F("origin", "POINT")] if variant == 0 else [F("origin", "POINT"), F("first", "SEGMENT"), F("more", "SEGMENT", 2)]) \
        + [F("box", "BOX"), F("m", "MARK"), F("s", "SPAN")]
    b = G.FileSpec(path=bp, defs=[
        G.Def(kind="struct", name="POINT", file=bp, fields=[F("x", "double"), F("y", "double")]),
        G.Def(kind="struct", name="MARK", file=bp, fields=[F("id", "int32"), F("flags", "int32")]),
        G.Def(kind="struct", name="SPAN", file=bp, fields=[F("a", "MARK"), F("b", "MARK")]),
        G.Def(kind="struct", name="BOX", file=bp, fields=[F("lo", "POINT"), F("hi", "POINT")]),
        G.Def(kind="struct", name="SEGMENT", file=bp, fields=[F("a", "POINT"), F("b", "POINT")]),
        G.Def(kind="struct", name="PATH", file=bp, fields=path_fields),
        G.Def(kind="message", name="WAYPOINT", file=bp, id=4420, fields=[F("at", "POINT"), F("leg", "SEGMENT")]),
        G.Def(kind="message", name="TRACK", file=bp, id=4421, fields=[F("leg", "SEGMENT"), F("wp", "WAYPOINT"), F("p", "POINT")])])
    rp = "nav.yaml"
    rdefs = [G.Def(kind="alias", name="ROUTE", file=rp, value="PATH"),
             G.Def(kind="alias", name="ROUTE2", file=rp, value="ROUTE"),
             G.Def(kind="struct", name="PLAN", file=rp, fields=[F("t", "TRACK"), F("r", "ROUTE"), F("alt", "ROUTE2", 2)]),
             G.Def(kind="message", name="GO", file=rp, id=4422, fields=[F("route", "ROUTE"), F("plan", "PLAN"), F("w", "WAYPOINT")])]
    r = G.FileSpec(path=rp, imports=[["geo/parts.yaml", bp]], defs=rdefs)
    p = G.Program([b, r], rp, {"auto_pad": True, "validate_alignment": True, "import_coredefs": core}, "chain",
                  {"covering", "alias-of-alias", "alias-of-imported-struct", "alias-of-imported-struct-field", "struct-contains-message", "dependency-diamond"})
    probs = p.problems()
    if probs:
        raise HarnessError(f"dependency diamond program is ill-formed: {probs[:2]}")
    return p


def later_type_behind_alias_program(variant: int) -> G.Program:
    """Near miss: a field named like the struct (of an imported file) that a LATER field of the same definition names through an
    alias (scalar or array).  The generated Python class body writes the struct's own name for that later field, so the earlier
    field takes its place there.  The compiler may refuse the file; if it accepts it, every output has to load and agree."""
    def F(name, base, n=None):
        return G.FieldSpec(name, base if n is None else f"{base}[{n}]", base, n, None if n is None else str(n))

    bp = "geo/types.yaml"
    b = G.FileSpec(path=bp, defs=[G.Def(kind="struct", name="Vec3", file=bp, fields=[F("x", "double"), F("y", "double"), F("z", "double")])])
    rp = "track.yaml"
    later = F("origin", "Pose") if variant == 0 else F("corners", "Pose", 2)
    rdefs = [G.Def(kind="alias", name="Pose", file=rp, value="Vec3"),
             G.Def(kind="message", name="TRACK", file=rp, id=4430, fields=[F("seq", "int32"), F("Vec3", "int32"), later],
                   flags=["message", "hygiene"])]
    r = G.FileSpec(path=rp, imports=[["geo/types.yaml", bp]], defs=rdefs)
    q = G.Program([b, r], rp, {"auto_pad": True, "validate_alignment": True, "import_coredefs": False}, "chain",
                  {"hygiene", "hygiene/field-named-like-later-type/behind-alias"})
    q.wellformed = False
    q.expected_error = None
    q.expect = {"outcome": "ok-or-refused", "hygiene": "field-named-like-later-type/behind-alias", "label": "field-named-like-later-type",
                "at": "TRACK", "name": "Vec3", "legal_identifiers": True}
    q._files = {s_.path: G.render_file(s_) for s_ in q.specs}
    return q


def import_diamond_program(core: bool) -> G.Program:
    """An import diamond across directories in which the second importer lists a FURTHER relative import after the file that
    was already read: root imports common/types.yaml and devices/dev.yaml; dev.yaml imports ../common/types.yaml (skipped: read
    already) and then extra.yaml, which lives next to dev.yaml."""
    def F(name, base, n=None):
        return G.FieldSpec(name, base if n is None else f"{base}[{n}]", base, n, None if n is None else str(n))

    tp, dp, ep, rp = "common/types.yaml", "devices/dev.yaml", "devices/extra.yaml", "rig.yaml"
    t = G.FileSpec(path=tp, defs=[G.Def(kind="struct", name="STAMP", file=tp, fields=[F("sec", "int32"), F("nsec", "int32")])])
    e = G.FileSpec(path=ep, defs=[G.Def(kind="struct", name="GAIN", file=ep, fields=[F("g", "double"), F("ofs", "double")])])
    d = G.FileSpec(path=dp, imports=[["../common/types.yaml", tp], ["extra.yaml", ep]], defs=[
        G.Def(kind="message", name="DEV_STATE", file=dp, id=4440, fields=[F("at", "STAMP"), F("gain", "GAIN"), F("code", "int32"), F("pad", "int32")])])
    r = G.FileSpec(path=rp, imports=[["common/types.yaml", tp], ["devices/dev.yaml", dp]], defs=[
        G.Def(kind="message", name="RIG_STATE", file=rp, id=4441, fields=[F("at", "STAMP"), F("devs", "DEV_STATE", 2)])])
    p = G.Program([t, e, d, r], rp, {"auto_pad": True, "validate_alignment": True, "import_coredefs": core}, "diamond",
                  {"covering", "import-diamond", "repeated-import", "struct-array"})
    probs = p.problems()
    if probs:
        raise HarnessError(f"import diamond program is ill-formed: {probs[:2]}")
    return p


def eval_const(text, env):
    """Value of a constant's YAML text the way the documentation defines it: earlier constants are replaced by their
    value (as text), the rest is arithmetic."""
    expr = text
    for sym in dict.fromkeys(re.findall(r"\b[a-zA-Z_]+\w*\b", text)):
        expr = re.sub(rf"\b{sym}\b", str(env[sym]), expr)
    if not re.fullmatch(G.EXPR_CHARS, expr):
        raise HarnessError(f"unexpected constant expression {text!r}")
    return eval(expr, {"__builtins__": {}}, {})


def const_defs(pairs, path, env=None):
    env = dict(env or {})
    out = []
    for name, text in pairs:
        v = eval_const(text, env)
        if isinstance(v, float) and (v != v or v in (float("inf"), float("-inf"))):
            raise OverflowError(text)
        env[name] = v
        out.append(G.Def(kind="constant", name=name, file=path, value=v, text=text))
    return out


def enrich_constants(program: G.Program, seed: int) -> G.Program:
    """Append 3-8 float constants (literals of up to 17 significant digits in every magnitude, negative values, and
    expressions over them and over the file's earlier numeric constants) to one file of a generated program."""
    rnd = random.Random(seed)
    p = program.clone()
    spec = rnd.choice(p.specs)
    taken = {d.name for d in p.defs}
    if p.import_coredefs:
        taken |= set(G.core_defs()["names"])
    pairs, names = [], []

    def fresh(prefix):
        k = len(pairs)
        n = f"{prefix}_{k}_{rnd.randrange(1000)}"
        while n in taken:
            n += "X"
        taken.add(n)
        return n

    def literal():
        kind = rnd.randrange(6)
        if kind == 0:
            v = rnd.random() * 10 ** rnd.randint(-3, 3)
        elif kind == 1:
            v = rnd.randint(10 ** 5, 10 ** 11) + rnd.random()
        elif kind == 2:
            v = rnd.random() * 10 ** rnd.randint(-30, -6)
        elif kind == 3:
            v = -rnd.random() * 10 ** rnd.randint(-8, 8)
        elif kind == 4:
            v = float(rnd.randint(1, 10 ** 6))
        else:
            v = rnd.choice([0.1, 0.2, 0.7, 1.1, 2.675, 1e16 + 2.0, 5e-324, 1 / 3])
        return repr(v)

    nlit = rnd.randint(2, 4)
    for _ in range(nlit):
        n = fresh("FLIT")
        pairs.append((n, literal()))
        names.append(n)
    # earlier numeric constants of the same file may take part (they are visible to constants appended after them)
    local = [d.name for d in spec.defs if d.kind == "constant" and isinstance(d.value, (int, float)) and not isinstance(d.value, bool) and d.value != 0]
    for _ in range(rnd.randint(1, 4)):
        pool = names + local[:6]
        a, b, c = rnd.choice(pool), rnd.choice(pool), rnd.choice(names)
        text = rnd.choice([f"{a} * {b}", f"{a} + {c}", f"{a} - {c}", f"({a} + {b}) * {c}", f"{a} / {c}", f"1/{c}", f"{c} * 3", f"0.1 * {a}",
                           f"{a} * {b} * {c}", f"{c} * 0.30000000000000004"])
        n = fresh("FEXP")
        pairs.append((n, text))
        names.append(n)
    env = {d.name: d.value for d in p.defs if d.kind == "constant"}
    try:
        new = const_defs(pairs, spec.path, env)
    except (OverflowError, ZeroDivisionError):
        return program
    if any(isinstance(d.value, float) and (d.value != d.value or d.value in (float("inf"), float("-inf"))) for d in new):
        return program
    spec.defs.extend(new)
    p.classes |= {"const-float-17", "const-expr-float"}
    p.rerender()
    probs = p.problems()
    if probs:
        raise HarnessError(f"enrich_constants produced an ill-formed program: {probs[:2]}")
    return p


# ------------------------------------------------------------------------------------------------
# covering family: every native name as scalar, array element, alias target


def covering_program(core: bool, variant: int) -> G.Program:
    path = "cover.yaml"
    defs = []
    big = []
    for i, (tn, w) in enumerate((n, G.NATIVES[n]) for n in G.NATIVE_NAMES):
        tag = tn.upper().replace(" ", "_")
        al = f"AL_{tag}"
        al2 = f"AL2_{tag}"
        defs.append(G.Def(kind="alias", name=al, file=path, value=tn))
        defs.append(G.Def(kind="alias", name=al2, file=path, value=al))

        def F(name, base, n=None):
            return G.FieldSpec(name, base if n is None else f"{base}[{n}]", base, n, None if n is None else str(n))

        fields = [F("s", tn)]
        if w < 8:
            fields.append(F("p0", "char", 8 - w))
        n_arr = 3 + variant
        fields.append(F("arr", tn, n_arr))
        if (n_arr * w) % 8:
            fields.append(F("p1", "char", 8 - (n_arr * w) % 8))
        fields.append(F("al", al))
        if w < 8:
            fields.append(F("p2", "char", 8 - w))
        fields.append(F("alarr", al2, 2))
        if (2 * w) % 8:
            fields.append(F("p3", "char", 8 - (2 * w) % 8))
        big.append((f"CV_{tag}", fields))
    for name, fields in big:
        defs.append(G.Def(kind="struct", name=name, file=path, fields=fields))
    mf = []
    for k, (name, _f) in enumerate(big):
        mf.append(G.FieldSpec(f"f{k}", name if k % 3 else f"{name}[2]", name, None if k % 3 else 2, None if k % 3 else "2"))
    defs.append(G.Def(kind="message", name="CV_ALL", file=path, id=4321, fields=mf))
    defs.append(G.Def(kind="message", name="CV_NEST", file=path, id=4322,
                      fields=[G.FieldSpec("all", "CV_ALL", "CV_ALL"), G.FieldSpec("tail", "unsigned short[4]", "unsigned short", 4, "4")]))
    defs.append(G.Def(kind="message", name="CV_LENGTHS", file=path, id=4324,
                      fields=[G.FieldSpec("a", "int32[N1 + N10]", "int32", 13, "N1 + N10"), G.FieldSpec("b", "int16[CH2 * CH25]", "int16", 50, "CH2 * CH25"),
                              G.FieldSpec("c", "char[N10]", "char", 10, "N10"), G.FieldSpec("d", "int16[CVD_BUF / 2]", "int16", 32, "CVD_BUF / 2"),
                              G.FieldSpec("e", "uint8[CVD_HALF]", "uint8", 32, "CVD_HALF"), G.FieldSpec("f", "double[CVD_QUART / 4]", "double", 4, "CVD_QUART / 4"),
                              G.FieldSpec("g", "CV_INT8[CVD_BUF / 32]", "CV_INT8", 2, "CVD_BUF / 32")]))
    # inexact quotients used further: 12 / 8 * 4 is 6 (not 1 * 4), 5 / 2 + 5 / 2 is 5 (not 2 + 2), 7 / 2 * 2 is 7 (not 6); and the other operators
    defs.append(G.Def(kind="message", name="CV_INEXACT", file=path, id=4325,
                      fields=[G.FieldSpec("a", "uint8[(CVI_BITS / 8) * CVI_CHANS]", "uint8", 6, "(CVI_BITS / 8) * CVI_CHANS"),
                              G.FieldSpec("b", "int16[CVI_ODD / 2 + CVI_ODD / 2]", "int16", 5, "CVI_ODD / 2 + CVI_ODD / 2"),
                              G.FieldSpec("c", "char[CVI_SEVEN / 2 * 2]", "char", 7, "CVI_SEVEN / 2 * 2"),
                              G.FieldSpec("d", "int32[CVI_CHANS * (CVI_ODD / 2)]", "int32", 10, "CVI_CHANS * (CVI_ODD / 2)"),
                              G.FieldSpec("e", "uint8[CVI_SEVEN / 2]", "uint8", 3, "CVI_SEVEN / 2"),
                              G.FieldSpec("f", "CV_INT8[(CVI_ODD / 2) * 2]", "CV_INT8", 5, "(CVI_ODD / 2) * 2")]))
    defs.append(G.Def(kind="message", name="CV_OPERATORS", file=path, id=4326,
                      fields=[G.FieldSpec("a", "uint8[1 << CVO_BITS]", "uint8", 8, "1 << CVO_BITS"), G.FieldSpec("b", "int16[CVO_OR >> 4]", "int16", 15, "CVO_OR >> 4"),
                              G.FieldSpec("c", "char[CVO_MASK | 8]", "char", 15, "CVO_MASK | 8"), G.FieldSpec("d", "int32[CVO_OR & 6]", "int32", 6, "CVO_OR & 6"),
                              G.FieldSpec("e", "uint8[CVO_MASK ^ 2]", "uint8", 5, "CVO_MASK ^ 2"), G.FieldSpec("f", "uint8[~CVO_MASK & 0xF]", "uint8", 8, "~CVO_MASK & 0xF"),
                              G.FieldSpec("g", "double[CVI_SEVEN // 2]", "double", 3, "CVI_SEVEN // 2"), G.FieldSpec("h", "int16[CVD_BUF % CVI_SEVEN + 3]", "int16", 4, "CVD_BUF % CVI_SEVEN + 3"),
                              G.FieldSpec("i", "float[2 ** CVO_BITS]", "float", 8, "2 ** CVO_BITS"), G.FieldSpec("j", "uint8[-CVO_BITS + 11]", "uint8", 8, "-CVO_BITS + 11")]))
    defs.append(G.Def(kind="signal", name="CV_SIGNAL", file=path, id=4323))
    defs.append(G.Def(kind="module", name="CV_MODULE", file=path, value=42))
    defs.append(G.Def(kind="host", name="CV_HOST", file=path, value=77))
    defs.append(G.Def(kind="constant", name="CV_CONST", file=path, value=123, text="123"))
    defs += const_defs(COVER_CONSTS, path)
    # section order of the parser: constants, strings, aliases, hosts, modules, structs, messages
    order = {"constant": 0, "string": 1, "alias": 2, "host": 3, "module": 4, "struct": 5, "message": 6, "signal": 6}
    defs.sort(key=lambda d: order[d.kind])
    spec = G.FileSpec(path=path, defs=defs)
    p = G.Program([spec], path, {"auto_pad": True, "validate_alignment": True, "import_coredefs": core}, "single",
                  {"covering", "alias-native", "alias-of-alias", "struct-array", "array-literal", "nested-depth-2", "const-float-17", "const-expr-float"})
    probs = p.problems()
    if probs:
        raise HarnessError(f"covering program is ill-formed: {probs[:2]}")
    return p


# ------------------------------------------------------------------------------------------------
# one case


def _has_zero(ref, name, depth=0):
    d = ref["defs"].get(name)
    if d is None or depth > 12:
        return False
    for f in d["fields"]:
        if f["len"] == 0:
            return True
        if f["t"]["k"] == "struct" and _has_zero(ref, f["t"].get("ref"), depth + 1):
            return True
    return False


def generated_collisions(ref):
    """Names of bare definitions (constant, string constant, alias, host id, struct) that equal a name the compilers generate
    for another definition (MT_x, MDF_x, HASH_x, MID_x, HID_x)."""
    gen = {p + n for p, tb in (("MT_", "mt"), ("MID_", "mid"), ("HID_", "hid")) for n in ref[tb]}
    gen |= {p + n for p in ("MDF_", "HASH_") for n, d in ref["defs"].items() if d["cat"] == "message"}
    bare = set(ref["constants"]) | set(ref["strings"]) | set(ref["aliases"]) | set(ref["hid"]) | {n for n, d in ref["defs"].items() if d["cat"] == "struct"}
    return bare & gen


def _qualifier(ref, aspect, where):
    """Construct class a difference belongs to (part of the finding key)."""
    top = where.split(".")[0]
    coll = generated_collisions(ref)
    if coll and (aspect.startswith("load/") or any(top == c.split("_", 1)[1] or top == c for c in coll)):
        return "generated-name-collision"
    if any(p in top for p in PREFIXES) and ("missing" in aspect):
        return "name-contains-" + next(p for p in PREFIXES if p in top)
    if top in ref["defs"] and _has_zero(ref, top):
        return "zero-length"
    if aspect in ("element-kind", "element-width") and "." in where:
        # the declared native type of the field
        d = ref["defs"].get(top)
        cur = d
        for part in where.split(".")[1:]:
            f = next((x for x in cur["fields"] if x["name"] == part), None) if cur else None
            if f is None:
                return ""
            if f["t"]["k"] == "struct":
                cur = ref["defs"].get(f["t"].get("ref"))
            else:
                tn = f.get("tn")
                al = ref["aliases"].get(tn)
                while al is not None and al.get("tn") in ref["aliases"]:
                    al = ref["aliases"][al["tn"]]
                return (al["tn"] if al is not None else tn) or ""
    return ""


def _field_type_name(ref, where):
    """Declared type name of the field a difference is reported at ("MSG.field" or "MSG.outer.inner")."""
    parts = where.split(".")
    cur = ref["defs"].get(parts[0])
    tn = None
    for part in parts[1:]:
        f = next((x for x in cur["fields"] if x["name"] == part), None) if cur else None
        if f is None:
            return None
        tn = f.get("tn")
        cur = ref["defs"].get(f["t"].get("ref")) if f["t"]["k"] == "struct" else None
    return tn


def _shared_name(ex, name):
    """Is ``name`` in use in more than one namespace (constants/strings/aliases/structs/messages, module ids, host ids) of the closure
    and the imported core definitions?"""
    ps = ex.psig
    spaces = [set(ps["constants"]) | set(ps["strings"]) | set(ps["aliases"]) | set(ps["defs"]), set(ps["mid"]), set(ps["hid"])]
    return sum(1 for sp in spaces if name in sp) > 1


def case_findings(program: G.Program, ex: L.Exam):
    """[(key, what)] for one examined program."""
    out = []
    ref = ex.ref

    def add(lang, aspect, where, text):
        q = _qualifier(ref, aspect, where)
        if lang == "c" and aspect.startswith("load/") and "dir-core_defs" in program.classes and q != "generated-name-collision":
            q = "user-dir-named-core_defs"
        top = where.split(".")[0]
        if "backend-literal-names" in program.classes:
            if lang == "matlab" and top in G.MATLAB_LITERAL_MESSAGES:
                q = "message-named-like-obsolete-core-message"
            elif lang == "js" and aspect == "element-kind" and _field_type_name(ref, where) in G.JS_PSEUDO_TYPES:
                q = "definition-named-string"
        if "cross-namespace-names" in program.classes and lang == "c" and q in ("", "user-dir-named-core_defs") and \
                (aspect.startswith("load/") or aspect.endswith("-missing")) and (aspect.startswith("load/") or _shared_name(ex, top)):
            q = "name-shared-with-another-namespace"
        key = f"{lang}/{aspect}" + (f"/{q}" if q else "")
        out.append((key, f"{lang} output disagrees with the reference on {aspect} at {where or 'module level'}: {text}"))

    for a, w, t in L.diff_sigs(ref, dict(ex.psig, lang="parser")):
        add("parser", a, w, t)
    for lang, sig in ex.sigs.items():
        for a, w, t in L.diff_sigs(ref, sig, skip=ex.core if lang == "c" else frozenset()):
            add(lang, a, w, t)
    # gcc against ctypes directly (also when validate_alignment is off and the reference has no offsets)
    if "c" in ex.sigs and "python" in ex.sigs and not ex.sigs["c"]["load_error"] and not ex.sigs["python"]["load_error"]:
        py, c = ex.sigs["python"], ex.sigs["c"]
        for n, cd in c["defs"].items():
            pd = py["defs"].get(n)
            if pd is None or pd.get("error") or not cd["fields"]:
                continue
            if cd["size"] != pd["size"]:
                add("c-vs-python", "size", n, f"gcc sizeof {cd['size']}, ctypes.sizeof {pd['size']}")
            if pd.get("type_size") is not None and cd["size"] != pd["type_size"]:
                add("c-vs-python", "type_size", n, f"gcc sizeof {cd['size']}, recorded type_size {pd['type_size']}")
            for cf, pf in zip(cd["fields"], pd["fields"]):
                if cf["name"] == pf["name"] and cf["off"] != pf["off"]:
                    add("c-vs-python", "field-offset", f"{n}.{cf['name']}", f"gcc offsetof {cf['off']}, ctypes offset {pf['off']}")
    if ex.matlab_error is not None:
        e = ex.matlab_error
        q = ""
        if isinstance(e, L.MatlabUndefined):
            leaf = e.path.split(".")[-1]
            hit = [n for n in list(ref["mt"]) + list(ref["mid"]) + list(ref["hid"]) if any(p in n for p in PREFIXES) and
                   any(n.replace(p, "", 1) == leaf for p in PREFIXES)]
            q = "/name-contains-" + next(p for p in PREFIXES if p in hit[0]) if hit else ""
        elif "string-control" in program.classes and "defines" in e.text:
            q = "/string-control"
        out.append((f"matlab/load/{type(e).__name__}{q}", f"the MATLAB script fails: {e}"))
    return out


def shape_of(program: G.Program):
    kinds, widths, nested = set(), set(), False
    for d in program.defs:
        if d.kind not in ("struct", "message"):
            continue
        for f in program.user_fields(d.name):
            r = program.resolve_type(f.base)
            arr = f.length is not None and f.length != 1
            if r.kind == "native":
                kinds.add((r.name, arr))
                widths.add(G.NATIVES[r.name])
            else:
                nested = True
                kinds.add((r.kind, arr))
            if arr:
                nested = True
    depth = max([int(c.rsplit("-", 1)[1]) for c in program.classes if c.startswith("nested-depth-")] or [0])
    return len(widths) >= 2 and nested, (tuple(sorted(kinds)), depth)


def run_case(E: L.Examiner, program: G.Program, res: Result = None):
    """Examine one program; returns [(key, what)]."""
    opts = program.compile_kwargs()
    expect = L.sig_from_program(program)
    # int versus float of a constant: from an own evaluation of its text (16 / 2 is 8.0); the value must be the generator's
    env = dict(G.core_defs()["constants"]) if program.import_coredefs else {}
    for d in program.defs:
        if d.kind == "constant":
            v = eval_const(d.text, env) if isinstance(d.text, str) else d.value
            if v != d.value:
                raise HarnessError(f"constant {d.name}: text {d.text!r} evaluates to {v!r}, the generator's model says {d.value!r}")
            env[d.name] = v
            expect["constants"][d.name] = v
    ex = E.examine(program, opts, expect=expect)
    if res is not None:
        res.inconclusive += len(ex.timeouts)
    if ex.hung:
        if res is not None:
            res.count("compile-did-not-return")
        return []
    if ex.compile_error is not None:
        if res is not None:
            res.count("not-accepted/" + ("rejected" if ex.compile_error.is_parser_error else "internal-error") + "/" + ex.compile_error.kind)
            if not ex.compile_error.is_parser_error and len(res.notes) < 3:
                res.notes.append("compiler internal error (C15's subject): " + str(ex.compile_error) + " at " + "/".join(ex.compile_error.innermost()))
        return []
    fnd = case_findings(program, ex)
    if res is not None:
        res.count("accepted")
        res.count("c-header-probed" if "c" in ex.sigs else "c-header-not-standalone")
        res.count("core-imported" if program.import_coredefs else "core-not-imported")
        res.count("auto-pad" if program.auto_pad else "no-auto-pad")
        for c in program.classes:
            if c in ALLOW or c in FORMER or c in ("needs-padding", "alias-field", "struct-array", "reuse", "message-in-message", "expr-length", "covering",
                                                   "const-float-17", "const-expr-float", "const-float", "const-expr", "div-length", "string-yamlish",
                                                   "cross-namespace/core", "cross-namespace/user") or c in EXPRS or c in NAMES or c.startswith("backend-literal/"):
                res.count("class/" + c)
        nontrivial, sh = shape_of(program)
        if nontrivial:
            res.shape(sh, tuple(sorted(opts.items())), "c" in ex.sigs)
            res.count("nontrivial")
        for d in program.defs:
            if d.kind in ("struct", "message"):
                res.count("definitions-compared")
            elif d.kind == "constant" and isinstance(d.value, float):
                res.count("float-constants-compared")
                if len(repr(d.value).replace("-", "").replace(".", "").split("e")[0].strip("0")) > 12:
                    res.count("float-constants-needing-13-17-digits")
    return fnd


# ------------------------------------------------------------------------------------------------
# near misses: programs the compiler is expected to REJECT.  A rejection is the normal outcome and is only counted; if the
# compiler accepts one, its outputs are compared like any accepted program's (reference = the parser model, because the
# generator's expectation does not apply) - "every definition file the compiler accepts" includes those it should not.

_NM_LEN = """constants:
  N_CHAN: 4
  BLOCK: 8
%s
message_defs:
  NM_DATA:
    id: 4500
    fields:
      head: int32
      unit: %s
      tail: int32
      stamp: double
  NM_OUTER:
    id: 4501
    fields:
      d: NM_DATA[2]
      n: int32
"""
_NM_BASE = {"message": """message_defs:
  SAMPLE:
    id: 4600
    fields:
      t: double
      v: int32[10]
""", "struct": """struct_defs:
  SAMPLE:
    fields:
      t: double
      v: int32[10]
""", "alias": """aliases:
  SAMPLE: int16
"""}
_NM_ROOT = {"alias": """aliases:
  SAMPLE: int16
""", "struct": """struct_defs:
  SAMPLE:
    fields:
      q: uint8[4]
      r: float
""", "message": """message_defs:
  SAMPLE:
    id: 4601
    fields:
      q: uint8[4]
      r: float
"""}
_NM_USER = """  NM_USER:
    id: 4602
    fields:
      s: SAMPLE
      k: int16
      arr: SAMPLE[3]
"""


def near_miss_family():
    """[(kind, {"files", "root"}, opts)] hand-written files that the documented rules forbid: array lengths that are zero,
    negative, or a fraction, and one name given to two kinds of definition in different files with a field that uses it."""
    out = []
    for kind, text in (("length-fraction", "int32[N_CHAN / BLOCK]"), ("length-fraction-product", "int16[N_CHAN * 0.1]"), ("length-zero", "int32[0]"),
                       ("length-zero-expr", "int32[N_CHAN - 4]"), ("length-negative", "int32[N_CHAN - BLOCK]"), ("length-nonintegral", "int32[2.5]"),
                       ("length-fraction-char", "char[1 / BLOCK]"), ("length-fraction-float-const", "double[FRACTION]")):
        extra = "  FRACTION: 0.75" if "FRACTION" in text else ""
        for core in (False, True):
            out.append((kind, {"files": {"nm.yaml": _NM_LEN % (extra, text)}, "root": "nm.yaml"},
                        dict(auto_pad=True, validate_alignment=True, import_coredefs=core)))
    for first in ("message", "struct", "alias"):
        for second in ("alias", "struct", "message"):
            if first == second:
                continue
            root = "imports:\n  - base.yaml\n" + _NM_ROOT[second]
            if second == "message":
                root += _NM_USER
            else:
                root += "message_defs:\n" + _NM_USER
            out.append((f"name-{second}-shadows-imported-{first}", {"files": {"base.yaml": _NM_BASE[first], "root.yaml": root}, "root": "root.yaml"},
                        dict(auto_pad=True, validate_alignment=True, import_coredefs=False)))
    for fname in ("_pad", "__pad", "__pad__", "_"):
        text = f"message_defs:\n  NM_UND:\n    id: 4710\n    fields:\n      first: int32\n      {fname}: int32\n      value: double\n  NM_UND2:\n    id: 4711\n    fields:\n      u: NM_UND[2]\n"
        out.append((f"field-name-leading-underscore/{fname}", {"files": {"nm.yaml": text}, "root": "nm.yaml"}, dict(auto_pad=True, validate_alignment=True, import_coredefs=False)))
    for fname in G.RESERVED_FIELD_NAMES:
        text = f"message_defs:\n  NM_RSV:\n    id: 4700\n    fields:\n      first: int32\n      {fname}: int32\n      value: double\n"
        out.append((f"reserved-field-name/{fname}", {"files": {"nm.yaml": text}, "root": "nm.yaml"}, dict(auto_pad=True, validate_alignment=True, import_coredefs=False)))
    return out


# names the generated Python module imports or defines for its own use (read off the head of any generated .py file)
PY_MODULE_NAMES = ["Double", "MessageData", "ClassVar", "Struct", "String", "Int32", "pyrtma", "ctypes", "MessageMeta", "MessageBase", "Int8", "Int16", "Int64",
                   "Uint8", "Uint16", "Uint32", "Uint64", "Float", "IntArray", "FloatArray", "StructArray", "Char", "Byte", "ByteArray",
                   "check_compiled_version", "get_context", "COMPILED_PYRTMA_VERSION"]
_MN_FIELDS = """      f1: double
      i8: int8
      i16: int16
      i32: int32
      i64: int64
      u8: uint8
      u16: uint16
      u32: uint32
      u64: uint64
      fl: float
      ch: char
      by: byte
      s: char[8]
      ba: byte[8]
      ia: int32[4]
      fa: float[4]
      da: double[2]
      st: NMS_INNER
      sa: NMS_INNER[2]
"""


def module_name_cases():
    """[(kind, name, src, opts)]: a constant / string constant / alias / host id / struct that bears a name the generated
    Python module uses itself, next to a message that exercises every field descriptor.  The compiler may refuse such a
    name (then the case is only counted); if it accepts it, all outputs must still load and agree."""
    out = []
    inner = "  NMS_INNER:\n    fields:\n      p: double\n      q: int32\n      r: int32\n"
    for name in PY_MODULE_NAMES:
        for dk in ("alias", "struct", "constant", "string", "host"):
            head, first = "", "      f0: double\n"
            structs = "struct_defs:\n" + inner
            if dk == "alias":
                head, first = f"aliases:\n  {name}: double\n", f"      f0: {name}\n"
            elif dk == "struct":
                structs += f"  {name}:\n    fields:\n      p: double\n      n: int64\n"
                first = f"      f0: {name}\n"
            elif dk == "constant":
                head, first = f"constants:\n  {name}: 4\n", f"      f0: double[{name}]\n"
            elif dk == "string":
                head = f"string_constants:\n  {name}: some text\n"
            else:
                head = f"host_ids:\n  {name}: 12\n"
            text = head + structs + "message_defs:\n  NMS_MSG:\n    id: 4900\n    fields:\n" + first + _MN_FIELDS + \
                "  NMS_SECOND:\n    id: 4901\n    fields:\n      m: NMS_MSG\n      k: int32\n  NMS_SIG:\n    id: 4902\n    fields: null\n"
            out.append((f"name-used-by-generated-python/{dk}", name, {"files": {"mn.yaml": text}, "root": "mn.yaml"},
                        dict(auto_pad=True, validate_alignment=True, import_coredefs=False)))
    return out


# definitions that NEED padding: with auto_pad off and validate_alignment on the compiler must refuse them (AlignmentError)
MISALIGNED = [
    ("interior-1-8", "a: uint8\n      b: double\n      c: int16"),
    ("trailing", "a: double\n      b: int32"),
    ("interior-2-4", "a: int16\n      b: int32\n      c: int16"),
    ("array-then-wide", "a: char[3]\n      b: uint64\n      c: float"),
    ("nested", "a: uint8\n      s: NM_INNER\n      b: int32"),
]


def misaligned_family():
    """[(kind, how, src, opts-or-flags)]: each layout through compile() keywords, the CLI flag and compiler_options in the YAML."""
    out = []
    for kind, fields in MISALIGNED:
        body = ("struct_defs:\n  NM_INNER:\n    fields:\n      x: double\n      y: int32\n      z: int32\n" if "NM_INNER" in fields else "") + \
            f"message_defs:\n  NM_ALIGN:\n    id: 4800\n    fields:\n      {fields}\n  NM_HOLDER:\n    id: 4801\n    fields:\n      v: double\n      n: int32\n      m: int32\n"
        src = {"files": {"al.yaml": body}, "root": "al.yaml"}
        out.append((f"needs-padding-no-auto-pad/{kind}", "kwargs", src, dict(auto_pad=False, validate_alignment=True, import_coredefs=False)))
        out.append((f"needs-padding-no-auto-pad/{kind}", "cli-flag", src, ["--no_core_import", "--no_auto_pad"]))
        src2 = {"files": {"al.yaml": "compiler_options:\n  IMPORT_COREDEFS: false\n  AUTO_PAD: false\n" + body}, "root": "al.yaml"}
        out.append((f"needs-padding-no-auto-pad/{kind}", "cli-yaml-option", src2, []))
    return out


def run_near_miss_cli(E: L.Examiner, kind, src, flags, res: Result = None):
    try:
        # every file of this family switches the core import off (flag or compiler_options); the reference model likewise
        ex = E.examine_cli(src, flags, model_opts={"validate_alignment": False, "auto_pad": False, "import_coredefs": False})
    except L.ToolTimeout:
        if res is not None:
            res.inconclusive += 1
        return []
    if res is not None:
        res.count("near-miss/programs")
        res.count("near-miss/through-cli")
        res.inconclusive += len(ex.timeouts)
    if ex.cli[0] != 0:
        if res is not None:
            res.count("near-miss/rejected" if "Error:" in ex.cli[1] and "Traceback" not in ex.cli[1] else "near-miss/internal-error")
        return []
    fnd = near_miss_findings(kind, ex)
    if res is not None:
        res.count("near-miss/accepted")
        res.count("near-miss/accepted/" + kind.split("/")[0])
    return fnd


def near_miss_findings(kind, ex: L.Exam):
    out = []
    ref = ex.ref
    for lang, sig in ex.sigs.items():
        for a, w, t in L.diff_sigs(ref, sig, skip=ex.core if lang == "c" else frozenset()):
            out.append((f"near-miss-accepted/{kind}/{lang}-{a.split('/')[0]}",
                        f"the compiler accepts a file it should reject ({kind}) and the {lang} output then disagrees with what the compiler recorded, at {w or 'module level'}: {t}"))
    if "c" in ex.sigs and "python" in ex.sigs and not ex.sigs["c"]["load_error"] and not ex.sigs["python"]["load_error"]:
        for n, cd in ex.sigs["c"]["defs"].items():
            pd = ex.sigs["python"]["defs"].get(n)
            if pd and not pd.get("error") and cd["fields"] and cd["size"] != pd["size"]:
                out.append((f"near-miss-accepted/{kind}/c-vs-python-size", f"accepted although it should be rejected ({kind}): gcc sizeof({n}) = {cd['size']}, ctypes.sizeof = {pd['size']}"))
    if ex.matlab_error is not None:
        out.append((f"near-miss-accepted/{kind}/matlab-load", f"accepted although it should be rejected ({kind}); the MATLAB script fails: {ex.matlab_error}"))
    return out


def run_near_miss(E: L.Examiner, kind, src, opts, res: Result = None):
    """-> [(key, what)]"""
    ex = E.examine(src, opts, expect=None)
    if res is not None:
        res.count("near-miss/programs")
        res.inconclusive += len(ex.timeouts)
    if ex.hung:
        if res is not None:
            res.count("near-miss/compile-did-not-return")
        return []
    if ex.compile_error is not None:
        if res is not None:
            res.count("near-miss/rejected" if ex.compile_error.is_parser_error else "near-miss/internal-error")
        return []
    fnd = near_miss_findings(kind, ex)
    if res is not None:
        res.count("near-miss/accepted")
        res.count("near-miss/accepted/" + kind.split("/")[0])
        if not fnd:
            res.count("near-miss/accepted-and-consistent")
    return fnd


def conflict_near_misses(seed, idx, nshards, per_shard):
    """(kind, Program) for this shard's slice of defgen's conflict table (all of it when per_shard is None)."""
    cases = G.all_conflict_cases()
    mine = [c for i, c in enumerate(cases) if i % nshards == idx]
    if per_shard is not None and mine:
        start = (seed * 7) % len(mine)
        mine = [mine[(start + j) % len(mine)] for j in range(min(per_shard, len(mine)))]
    for j, c in enumerate(mine):
        ch = G.RandomChooser(seed * 1000 + j)
        base = G.random_program(seed * 1000 + j, skeleton=True, validate_alignment=True)
        q = G.inject_conflict(base, c["kind"], c["placement"], ch, swap=c["swap"], variant=c["variant"])
        if q is not None:
            yield c["kind"] + "/" + c["placement"], q


def trace_of(program, key):
    return {"key": key, "program": program.to_json()}


def shard(seed, n, idx, quick):
    res = Result()
    E = L.Examiner()
    try:
        def one(program, label):
            for key, what in run_case(E, program, res):
                res.add_finding(key, what, trace_of(program, key))
            res.count(label)

        # covering family (both tiers, every shard runs one member so that all four variants run even with few shards)
        fam = [(core, v) for core in (False, True) for v in (0, 1)]
        core, v = fam[idx % len(fam)]
        one(covering_program(core, v), "covering-family")
        res.evaluations += 1
        if idx == 0:
            types = sorted(G.NATIVES)
            res.notes.append(f"covering family: each of the {len(types)} native names as scalar, array element and alias target (scalar and array), core on and off")

        one(substring_program(idx % 2 == 0), "covering-family")
        one(alias_chain_program(idx % 4 < 2, idx % 2), "covering-family")
        one(dependency_diamond_program(idx % 4 >= 2, idx % 2), "covering-family")
        one(import_diamond_program(idx % 2 == 1), "covering-family")
        res.evaluations += 4
        # every accepted way of calling a definition like a definition of another namespace (core names with the core imported), and every
        # text of the generator's string vocabulary (a quarter per shard): line breaks, lines that look like YAML, colons glued to text ...
        if idx % 4 < 2:
            one(G.build_cross_namespace_cover_program(idx % 4 == 0), "covering-family")
        else:
            one(G.build_string_cover_program(idx % 4 == 2, part=idx // 4, parts=4), "covering-family")
        res.evaluations += 1
        for j, (kind, how, src, arg) in enumerate(misaligned_family()):
            if j % 16 == idx:
                fnd = run_near_miss(E, kind, src, arg, res) if how == "kwargs" else run_near_miss_cli(E, kind, src, arg, res)
                for key, what in fnd:
                    res.add_finding(key, what, {"key": key, "near_miss": kind, "how": how, "src": src, "opts": arg})
                res.count("near-miss/misaligned-" + how)
                res.evaluations += 1
        # names the generated Python module uses itself: a rotating slice (all in the thorough tier)
        mn = module_name_cases()
        mine = [c for j, c in enumerate(mn) if j % 16 == idx]
        if quick:
            start = (seed * 5) % len(mine)
            mine = [mine[(start + j) % len(mine)] for j in range(3)]
        for kind, name, src, opts in mine:
            for key, what in run_near_miss(E, kind, src, opts, res):
                res.add_finding(key, f"[{name}] {what}", {"key": key, "near_miss": kind, "how": "kwargs", "src": src, "opts": opts})
            res.count("near-miss/module-name")
            res.evaluations += 1
        # the generator's layout profile: field sequences that need padding, auto_pad off -> AlignmentError expected
        for j in range(3 if quick else 30):
            q = G.build_layout_program(G.RandomChooser(seed * 100 + j), auto_pad=False)
            if (q.expect or {}).get("outcome") == "AlignmentError":
                for key, what in run_near_miss(E, "needs-padding-no-auto-pad/generated", q, q.compile_kwargs(), res):
                    res.add_finding(key, what, {"key": key, "near_miss": "needs-padding-no-auto-pad/generated", "how": "kwargs",
                                                "src": {"files": dict(q.files), "root": q.root}, "opts": q.compile_kwargs()})
                res.count("near-miss/generated-misaligned")
                res.evaluations += 1
        # near misses: the hand-written family (member j on shard j mod 16) and a slice of the generator's conflict table
        for j, (kind, src, opts) in enumerate(near_miss_family()):
            if j % 16 == idx:
                for key, what in run_near_miss(E, kind, src, opts, res):
                    res.add_finding(key, what, {"key": key, "near_miss": kind, "src": src, "opts": opts})
                res.evaluations += 1
        for kind, q in conflict_near_misses(seed, idx, 16, 4 if quick else None):
            for key, what in run_near_miss(E, kind, q, q.compile_kwargs(), res):
                res.add_finding(key, what, {"key": key, "near_miss": kind, "src": {"files": dict(q.files), "root": q.root}, "opts": q.compile_kwargs()})
            res.evaluations += 1

        # generated near misses: the generator's opt-in classes "reserved-field-name" (a field called type_hash, hexdump, ...) and "fractional-length" (one extra field T[A / B] with A/B below one, zero,
        # or truncated); the ill-formed ones are near misses, the well-formed (truncated) ones ordinary programs
        for j in range(6 if quick else 60):
            cls = ("fractional-length", "reserved-field-name")[j % 2]
            q = G.random_program(seed * 100 + j, allow=(cls,), validate_alignment=True)
            sub = next((c for c in q.classes if c.startswith(cls + "/")), None)
            if sub is None:
                continue
            if q.wellformed:
                one(q, "generated-truncated-length")
            else:
                for key, what in run_near_miss(E, sub, q, q.compile_kwargs(), res):
                    res.add_finding(key, what, {"key": key, "near_miss": sub, "src": {"files": dict(q.files), "root": q.root}, "opts": q.compile_kwargs()})
                res.count("near-miss/generated-" + sub)
            res.evaluations += 1

        def hygiene(q):
            label = q.expect["label"]
            for key, what in run_near_miss(E, label, q, q.compile_kwargs(), res):
                res.add_finding(key, f"[{q.expect['hygiene']}: {q.expect.get('name')}] " + what.replace("accepts a file it should reject", "accepts a file with a construct it could refuse"),
                                {"key": key, "near_miss": label, "src": {"files": dict(q.files), "root": q.root}, "opts": q.compile_kwargs()})
            res.count("near-miss/hygiene")
            res.count("near-miss/hygiene/" + label)

        # value / name hygiene (vlib.defgen.add_hygiene): non-finite and boolean constants, names that are no identifiers, definitions named
        # like native types, fields named like Python descriptors / later field types / Python or C keywords, constants named like fields.
        # Every kind once per run on the smallest base (kind j on shard j mod 16)
        if idx in (3, 11):
            hygiene(later_type_behind_alias_program(0 if idx == 3 else 1))
            res.evaluations += 1
        for j, kind in enumerate(G.HYGIENE_KINDS):
            if j % 16 == idx:
                hygiene(G.add_hygiene(G.minimal_program(import_coredefs=G.hygiene_needs_core(kind)), G.RandomChooser(seed * 100 + j), kind))
                res.evaluations += 1

        def body(v):
            program, cseed = v
            if "hygiene" in program.classes:
                hygiene(program)
                return
            if cseed % 4:  # three programs out of four get the long float constants
                program = enrich_constants(program, cseed)
            one(program, "random-programs")
            if len(res.samples) < 2 and program.classes:
                res.sample({"shape": program.shape, "options": program.options, "classes": sorted(program.classes)[:20], "files": list(program.files)})

        base = G.programs(validate_alignment=True)
        opt = G.programs(validate_alignment=True, allow=ALLOW + EXPRS)
        former = G.programs(validate_alignment=True, allow=FORMER, skeleton=True)
        nocore = G.programs(validate_alignment=True, import_coredefs=False, rich=True, allow=EXPRS)
        hyg = G.hygiene_programs(validate_alignment=True, max_files=3)
        names = G.programs(validate_alignment=True, allow=NAMES + ("string-control",), max_files=4)
        hyp_run(body, st.tuples(st.one_of(base, nocore, former, nocore, opt, former, nocore, hyg, names), st.integers(0, 2 ** 32)), seed, n, res, collect=True)
    finally:
        E.close()
        L.cleanup()
    return res


def run(ctx: RunContext) -> int:
    t0 = time.time()
    n = ctx.scale(28, 260)
    res = run_shards(shard, [(derive_seed(ctx.seed, i), n, i, ctx.quick) for i in range(16)])
    return conclude(ctx, res, RULE, ASSUME, t0)


def replay_trace(trace: dict):
    E = L.Examiner()
    try:
        if "near_miss" in trace:
            if trace.get("how", "kwargs") == "kwargs":
                fnd = run_near_miss(E, trace["near_miss"], trace["src"], trace["opts"], None)
            else:
                fnd = run_near_miss_cli(E, trace["near_miss"], trace["src"], trace["opts"], None)
        else:
            fnd = run_case(E, G.Program.from_json(trace["program"]), None)
    finally:
        E.close()
        L.cleanup()
    for key, what in fnd:
        if key == trace.get("key"):
            raise Violation(key, what, trace)
    if trace.get("key") is None and fnd:
        raise Violation(fnd[0][0], fnd[0][1], trace)
