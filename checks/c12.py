"""C12 - id and name conflicts are always detected, never invented.

Two halves, both parser level (``Parser(**options).parse(root)`` on a generated closure of YAML files):

(a) conflict-free definition sets spread over every import-graph shape (chain, tree, diamond, DAG, the same import
    listed twice, the same file under different relative spellings, import cycles, a file importing itself) must be
    accepted, every file must be read exactly once, and the parser's registries must hold exactly the union of the
    definitions of all files - compared by name and value/id with the generator's expectation model.
(b) the same closures with EXACTLY ONE injected conflict must be rejected with the exception class that belongs to
    the conflict.  The table kinds x placements x order x reserved-range spelling x position of the colliding id in
    the range x boundary value is enumerated in full in both tiers (vlib.defgen.all_conflict_cases): kinds that need the
    core definitions with them, the others without, and additionally with them (every case in thorough, a quarter
    rotating with the seed in quick); random conflicts in random graphs come on top.  Thorough additionally drives a sample through the command line
    (``python -m pyrtma.compile -i root.yaml --py -o out``: exit status 1 for a conflict, 0 otherwise).
"""
from __future__ import annotations

import os
import shutil
import subprocess
import sys
import time

from vlib import defgen as G
from vlib.common import HarnessError, Result, RunContext, Violation, conclude, derive_seed, hyp_run, run_shards

RULE = ("(a) Hypothesis draws conflict-free definition closures (1-6 files, 1-3 directories; import graph shape from chain / tree / diamond / "
        "random DAG / repeated import line / same file under ./x, ../d/x spellings / import cycle / self import / the same relative spelling "
        "(x.yaml, ./x.yaml, ../lib/x.yaml, or data_logger.yaml as in the core definitions) denoting DIFFERENT files of different directories; constants, string constants, "
        "aliases, host and module ids, structs, messages, signals, _RESERVED_ ids as ints, 'A - B', 'A-B', 'A to B', and undocumented spellings - several ranges in one quoted string, 'A-B-C', "
        "trailing / leading text, a single id as a string, a descending range - which may be refused as a syntax error but not honoured in part); the real parser must accept "
        "them, read each file once and register exactly the union (names, values, ids) predicted by the generator's model. "
        "(b) one conflict is injected into such a closure: message id shared by message/signal/reserved in every combination or with a core "
        "message, module id, host id (each also against the core's), the same name in each of the 25 ordered pairs of the five shared "
        "namespaces (also against core names), ids outside their range on each side (message, reserved, module, host); the two items are "
        "placed in the same file, parent/child, siblings, cousins (both orders); reserved ranges in every spelling with the colliding id at "
        "the start, middle and end; the full table is enumerated in both tiers (core definitions imported where the kind needs them, for every other case in thorough and a rotating quarter in quick) and random combinations are drawn on random graphs (a quarter of them with the core imported). The parser "
        "must raise the matching ParserError subclass. (c) histories: 2-3 parses on ONE Parser object in one directory - first one or two "
        "closures that abort (import of a missing file, message without id, definition without fields, signal used as field type, or a "
        "conflict), then the corrected conflict-free closure or a single-conflict closure in the same files - the last parse must give the "
        "verdict of a fresh parser (registered union / conflict class). The last closure of a history is also compiled by the public two-step sequence "
        "of rtma_compiler's main() - Parser.parse_compiler_options(root), then Parser.parse(root) - with BOTH calls on the one Parser object (root file "
        "without and with a compiler_options section) or with the options pass on a second object, as the first thing the Parser does or after an aborted "
        "parse: the whole conflict table is enumerated that way (kinds that need the core definitions: all in thorough, a rotating quarter in quick), the "
        "conflict-free table closures, and drawn closures with any conflict kind / placement / order; a conflict must be raised (by either call), a conflict-free "
        "closure must be registered completely with every file read once. (d) user files CALLED core_defs.yaml (the name of the package's own core definition "
        "file, which alone is exempt from the host / module id range rules): the root, an imported file beside it or one in another directory of a closure "
        "compiled with the core definitions bears that name and holds either additional in-range host and module ids (must be accepted, registered union) or "
        "one host id (40000, 32768, 70000, -7, 0, -1), module id (7, 9, 1, -1, -2, 100, 150, 199) or message id (10001, -1, ...) outside its range (must be "
        "refused with RTMASyntaxError like under any other file name); enumerated over every file of the table's base closure and drawn on random graphs. Non-trivial = (a) a graph in which some file is reachable by >= 2 import paths or lies on "
        "a cycle, (b) a conflict whose two items are in different files; distinct = (a) (shape, #files, graph classes, core imported, "
        "namespaces used), (b) (kind, placement, order, spelling/position/value, core imported).")
ASSUME = [
    "message ids are valid in 0..10000 and 10000 itself is a don't-care (message text and code disagree); module ids 10..99 or >= 200 with 200 a don't-care; host ids 1..32767",
    "module and host id RANGE checks exist only when the core definitions are imported, so range conflicts are generated only there",
    "two identical keys in one YAML mapping are rejected by the YAML loader first: YAMLSyntaxError is accepted for a name collision inside one section of one file",
    "nothing is claimed about what a Parser object accumulates after a SUCCESSFUL parse (tests/test_parser.py relies on accumulation); histories only continue after aborted parses",
    "parse_compiler_options(root) followed by parse(root) on one Parser object is a legitimate use of the public API (main() performs the same two calls, on two objects; nothing documents that the options pass consumes the object): the pair must give the verdict of a plain parse(root). An exception raised by the options pass itself (e.g. YAMLSyntaxError for a repeated key in the root file) counts as the outcome of the sequence, as in main(). What parse_compiler_options returns is not judged here",
    "the exemption of the core definitions from the host / module range rules belongs to the package's own file (pyrtma/core_defs/core_defs.yaml), not to the file NAME: a user file of that name is a user file (same reading as fix 12c0944 for the C header)",
    "duplicate module or host NAMES are outside the statement (those have their own namespaces) and are never used as the expected conflict",
    "a reserved range longer than 100 ids is a syntax matter, not a conflict, and is not generated",
    "undocumented spellings of a reservation (several ranges in one quoted string separated by comma / space / semicolon, 'a-b-c', trailing or leading text, a single id as a string, a descending range) must either be honoured in full or be refused with RTMASyntaxError; silently reserving only a part is reported",
    "the documented spelling 'A:B' of a reserved range is rejected by the parser as a syntax error whether or not anything collides (doc/code mismatch, noted, outside this property); the generator uses ints, 'A - B', 'A-B' and 'A to B'",
    "user message ids are drawn from 1000..9999, module ids from 10..99 and 201..400, host ids from 1..32766; core names and ids are avoided by construction in conflict-free programs",
]

CONFLICT_CLASSES = ("MessageIDError", "ModuleIDError", "HostIDError", "DuplicateNameError", "RTMASyntaxError", "YAMLSyntaxError")


# ----------------------------------------------------------------------------------------------
# (a) conflict-free


def _resolved_alias(p: G.Program, name: str) -> str:
    r = p.resolve_type(name)
    return r.name


def _denoted(literal: str):
    """The text a registered string constant (a double-quoted source literal) denotes."""
    import ast

    try:
        v = ast.literal_eval(literal)
        return v if isinstance(v, str) and literal.startswith('"') else ("<not a string literal>", literal)
    except Exception:  # noqa
        return ("<not a literal>", literal)


ALLOW = ("alias-of-imported-struct", "alias-of-imported-struct-field", "struct-contains-message", "string-special", "prefix-names",
         "reserved-loose")


def check_free(p: G.Program, res: Result = None, out=None, trace=None):
    trace = trace or {"mode": "free", "program": p.to_json()}
    out = out or G.parse_program(p)
    loose = sorted(c.split("/", 1)[1] for c in p.classes if c.startswith("reserved-loose/"))
    if loose and out.outcome == "RTMASyntaxError":
        if res is not None:  # an undocumented spelling of a reservation may be refused as a syntax error
            res.count("free/reserved-loose/refused")
        return
    if not out.ok:
        cls = out.outcome
        fam = "conflict-invented" if cls in CONFLICT_CLASSES else "crash"
        raise Violation(f"free/{fam}/{cls}", f"a conflict-free closure ({p.shape}, {len(p.specs)} files, classes {sorted(c for c in p.classes if c in GRAPH_CLASSES)}) "
                        f"was rejected with {cls}: {str(out.exc)[:300]}", trace)
    ps = out.parser
    core = G.core_defs() if p.import_coredefs else None
    exp = p.expected_registry()
    # every file read exactly once
    import pyrtma

    pkg_core = os.path.join(os.path.dirname(os.path.realpath(pyrtma.__file__)), "core_defs") + os.sep
    user_files = [str(f) for f in ps.included_files if not os.path.realpath(str(f)).startswith(pkg_core)]  # a user directory may be called core_defs too
    if len(user_files) != len(set(user_files)) or len(user_files) != len(p.specs):
        raise Violation("free/file-read-count", f"{len(p.specs)} files in the closure, the parser read {len(user_files)} "
                        f"({len(set(user_files))} distinct)", trace)

    def cmp(section, got: dict, want: dict, core_names):
        got = {k: v for k, v in got.items() if k not in core_names}
        if got != want:
            missing = sorted(set(want) - set(got))
            extra = sorted(set(got) - set(want))
            diff = sorted(k for k in set(got) & set(want) if got[k] != want[k])
            if loose and section in ("message_defs", "message_ids") and missing and not extra and not diff and all(m.startswith("_RESERVED_") for m in missing):
                ents = [t for d in p.of_kind("reserved") for t, _ in d.entries if isinstance(t, str) and t.startswith('"')]
                raise Violation("reserved-spelling/partly-honoured", f"a _RESERVED_ entry written {ents} was accepted without error but only "
                                f"part of it was reserved: ids {[int(m[-6:]) for m in missing][:8]} are not registered (an entry is either honoured in "
                                f"full or a syntax error)", trace)
            raise Violation(f"free/registry/{section}", f"{section}: the parser registered something else than the union of the files: "
                            f"missing {missing[:4]}, unexpected {extra[:4]}, different value {[(k, got[k], want[k]) for k in diff[:3]]}", trace)

    cmp("constants", {n: c.value for n, c in ps.constants.items()}, exp["constants"], core["constants"] if core else ())
    cmp("string_constants", {n: _denoted(c.value) for n, c in ps.string_constants.items()}, exp["string_constants"],
        core["string_constants"] if core else ())
    cmp("aliases", {n: a.type_name for n, a in ps.aliases.items()}, {n: _resolved_alias(p, n) for n in exp["aliases"]},
        core["aliases"] if core else ())
    cmp("host_ids", {n: h.value for n, h in ps.host_ids.items()}, exp["host_ids"], core["host_ids"] if core else ())
    cmp("module_ids", {n: m.value for n, m in ps.module_ids.items()}, exp["module_ids"], core["module_ids"] if core else ())
    cmp("struct_defs", {n: None for n in ps.struct_defs}, {n: None for n in exp["struct_defs"]}, core["struct_defs"] if core else ())
    cmp("message_defs", {n: m.type_id for n, m in ps.message_defs.items()}, exp["message_defs"], core["message_defs"] if core else ())
    cmp("message_ids", {n: m.value for n, m in ps.message_ids.items()}, exp["message_defs"], core["message_defs"] if core else ())
    for n, m in ps.message_defs.items():
        if m.name != n:
            raise Violation("free/registry/message_defs", f"message_defs[{n!r}].name is {m.name!r}", trace)
    if res is not None:
        res.count("free-programs")
        res.count("free/core-imported" if p.import_coredefs else "free/core-not-imported")
        for c in p.classes:
            if c in GRAPH_CLASSES:
                res.count("free/graph/" + c)
        multi = max((p.import_paths(f) for f in p.file_order), default=1) >= 2 or "cycle" in p.classes
        if multi:
            used = tuple(sorted(k for k, v in exp.items() if v))
            res.shape("free", p.shape, len(p.specs), tuple(sorted(c for c in p.classes if c in GRAPH_CLASSES)), p.import_coredefs, used)
            res.count("free/nontrivial")
        if len(res.samples) < 2:
            res.sample({"mode": "free", "shape": p.shape, "files": p.files})


GRAPH_CLASSES = {"single", "chain", "tree", "diamond", "dag", "repeat", "respell", "cycle", "self-import", "multi-path", "multi-dir",
                 "root-in-subdir", "twins", "twins/plain", "twins/dot", "twins/dotdot", "twins/core-shadow"}


# ----------------------------------------------------------------------------------------------
# (b) one conflict


def check_conflict(p: G.Program, res: Result = None, out=None, trace=None):
    c = p.conflict
    trace = trace or {"mode": "conflict", "program": p.to_json()}
    out = out or G.parse_program(p)
    tag = c["kind"]
    where = f"{c['placement']}{' (swapped)' if c['swap'] else ''}, files {c['files']}, items {c['names']}"
    if out.outcome == "RTMASyntaxError" and "RTMASyntaxError" not in c["expected"] and any(k.startswith("reserved-loose/") for k in p.classes):
        if res is not None:  # the base closure carries an undocumented reservation spelling that may be refused: says nothing about the conflict
            res.count("conflict/base-reservation-refused")
        return
    if out.ok and c.get("loose_spelling"):
        texts = [c[k]["text"] for k in ("reserved1", "reserved2") if k in c]
        raise Violation("reserved-spelling/partly-honoured", f"[{c['loose_spelling']}] _RESERVED_ id: [{', '.join(map(str, texts))}] and a "
                        f"{'signal' if 'signal' in tag else 'message'} with id {c['id']} [{where}] compile without error: the entry names id {c['id']} but "
                        f"only a part of it was reserved (an entry is either honoured in full => MessageIDError, or refused => RTMASyntaxError)", trace)
    if out.ok:
        raise Violation(f"conflict-missed/{tag}", f"conflict {tag} [{where}; {_detail(c)}] was accepted; expected {' or '.join(c['expected'])}", trace)
    if out.outcome not in c["expected"]:
        fam = "conflict-wrong-class" if out.outcome in CONFLICT_CLASSES else "conflict-crash"
        raise Violation(f"{fam}/{tag}/{out.outcome}", f"conflict {tag} [{where}; {_detail(c)}] raised {out.outcome} ({str(out.exc)[:200]}); "
                        f"expected {' or '.join(c['expected'])}", trace)
    if res is not None:
        res.count("conflict-cases")
        res.count("conflict/" + tag.split("/")[0])
        res.count("conflict/placement/" + c["placement"])
        res.count("conflict/raised/" + out.outcome)
        if c["files"][0] != c["files"][1]:
            res.shape("conflict", tag, c["placement"], c["swap"], tuple(sorted((k, str(v)) for k, v in c["variant"].items())),
                      tuple((k, str(c[k].get("spelling")), str(c[k].get("pos"))) for k in ("reserved1", "reserved2") if k in c),
                      str(c.get("value")), p.import_coredefs)
            res.count("conflict/nontrivial")
        if len(res.samples) < 4 and c["files"][0] != c["files"][1] and len(p.specs) <= 5:
            res.sample({"mode": "conflict", "conflict": c, "files": {f: p.files[f] for f in set(c["files"])}})


def _detail(c):
    parts = [f"id {c['id']}"] if "id" in c else []
    for k in ("reserved1", "reserved2"):
        if k in c:
            parts.append(f"{k} written {c[k]['text']!r}")
    if "value" in c:
        parts.append(f"value {c['value']!r}")
    if "core_ns" in c:
        parts.append(f"core {c['core_ns']}")
    return ", ".join(parts) or "-"


_BASES: list = []


def table_bases():
    """Deterministic well-formed base closures for the enumerated table (5-file tree skeleton plus extras); built once per process,
    never modified by their users (every transformation works on a clone)."""
    if _BASES:
        return _BASES[0]
    bases = []
    for seed, kw in ((11, dict(import_coredefs=False, shape="tree")), (12, dict(import_coredefs=False, shape="diamond")),
                     (13, dict(import_coredefs=True, shape="cycle"))):
        for k in range(50):  # first seed whose graph offers every placement
            b = G.random_program(seed + 100 * k, skeleton=True, max_files=6, **kw)
            if all(G.file_pairs(b, pl) for pl in G.PLACEMENTS):
                break
        else:
            raise HarnessError("no table base with all placements")
        bases.append(b)
    _BASES.append(bases)
    return bases


def run_table(idx: int, nshards: int, res: Result, seed: int = 0, full: bool = True):
    """Every case of the table once: with the core definitions imported when the conflict needs them, otherwise without
    (2 ms instead of 60 ms per parse); the cases that do not need the core are additionally run WITH it - all of them in
    thorough, a quarter (rotating with the seed) in quick."""
    cases = G.all_conflict_cases()
    bases = table_bases()
    for i, case in enumerate(cases):
        if i % nshards != idx:
            continue
        need_core = case["kind"] in G.NEEDS_CORE
        both = full or (i // nshards + seed) % 4 == 0
        cores = (True,) if need_core else ((False, True) if both else (False,))
        if case["variant"].get("oor"):
            cores = (False,)  # out-of-range ids are only tolerated without the core definitions
        for core in cores:
            base = bases[2] if core else bases[i % 2]
            ch = G.RandomChooser(i * 7 + core)
            q = G.inject_conflict(base, case["kind"], case["placement"], ch, swap=case["swap"], variant=case["variant"])
            if q is None:
                raise HarnessError(f"table base has no file pair for placement {case['placement']}")
            q.options["import_coredefs"] = core
            res.evaluations += 1
            res.count("table-cases")
            try:
                check_conflict(q, res)
            except Violation as v:
                res.add_finding(v.key, v.what, v.trace)


# ----------------------------------------------------------------------------------------------
# the same relative import spelling denoting different files


def twin_bases():
    bases = []
    for want, core in (("twins/plain", False), ("twins/dot", False), ("twins/dotdot", False), ("twins/core-shadow", True)):
        for k in range(400):
            b = G.random_program(7000 + k, shape="twins", min_files=6, max_files=6, import_coredefs=core, allow=ALLOW)
            if want in b.classes:
                bases.append(b)
                break
        else:
            raise HarnessError(f"no base closure of class {want}")
    return bases


def twin_table(res: Result):
    """Closures in which x.yaml / ./x.yaml / ../lib/x.yaml (or data_logger.yaml next to the user's root, as in the core definitions)
    is written identically in two files but denotes two different files: each is accepted with every file read once, and a conflict
    located in either twin file (both items there, or one item in each twin) is reported."""
    kinds = ["msgid/msg-msg", "msgid/signal-reserved", "name/constant-message", "name/struct-alias", "modid/dup", "hostid/dup", "range/msgid-high"]
    for b in twin_bases():
        res.evaluations += 1
        try:
            check_free(b, res)
        except Violation as v:
            res.add_finding(v.key, v.what, v.trace)
        pairs = [(t, t) for t in b.twin_files] + [(b.twin_files[0], b.twin_files[1]), (b.twin_files[1], b.twin_files[0])]
        for i, kind in enumerate(kinds):
            for fa, fb in pairs:
                if kind.startswith("range") and fa != fb:
                    continue
                q = G.inject_conflict(b, kind, "same" if fa == fb else "cousins", G.RandomChooser(i), files=(fa, fb))
                q.options["import_coredefs"] = b.import_coredefs or kind in G.NEEDS_CORE
                res.evaluations += 1
                res.count("twin-table-cases")
                try:
                    check_conflict(q, res)
                except Violation as v:
                    res.add_finding("twins/" + v.key, v.what, v.trace)


# ----------------------------------------------------------------------------------------------
# user files that bear the NAME of the package's core definition file


CORE_NAME = "core_defs.yaml"
CORE_NAME_RANGE = {"range/hostid-high": [40000, 32768], "range/hostid-low": [-7, 0], "range/modid-low": [7, -2, 9], "range/modid-mid": [150, 100, 199],
                   "range/msgid-high": [10001], "range/msgid-low": [-1]}


def rename_file(p: G.Program, old: str, base: str = CORE_NAME):
    """Copy of closure p in which file ``old`` is called ``base`` (same directory); every import line that denotes it is respelled
    accordingly.  None when the directory already has such a file or an import spelling does not end in the file's name."""
    import posixpath

    new = posixpath.join(posixpath.dirname(old), base)
    if old == new or any(sp.path == new for sp in p.specs):
        return None
    oldbase = posixpath.basename(old)
    q = p.clone()
    for sp in q.specs:
        if sp.path == old:
            sp.path = new
        for d in sp.defs:
            if d.file == old:
                d.file = new
        for imp in sp.imports:
            if imp[1] == old:
                if not imp[0].endswith(oldbase):
                    return None
                spelled = imp[0][: len(imp[0]) - len(oldbase)] + base
                if imp[0] in sp.import_comments:
                    sp.import_comments[spelled] = sp.import_comments.pop(imp[0])
                imp[0], imp[1] = spelled, new
    if q.root == old:
        q.root = new
    if q.conflict:
        q.conflict["files"] = [new if f == old else f for f in q.conflict["files"]]
    q.twin_files = [new if f == old else f for f in q.twin_files]
    q.fault = p.fault
    q.classes |= {"core-named-file", "core-named-file/" + ("root" if q.root == new else "imported")}
    q.rerender()
    return q


def _with_ids(p: G.Program, path: str, ch: G.Chooser):
    """Copy of the conflict-free closure p with one more host id and one more module id (both in range, both unused) in file ``path``."""
    q = p.clone()
    hosts = {d.value for d in q.defs if d.kind == "host"} | set(G.core_defs()["host_ids"].values())
    mods = {d.value for d in q.defs if d.kind == "module"} | set(G.core_defs()["module_ids"].values())
    names = {d.name for d in q.defs}
    h = next(v for v in (ch.integer(1, 32766) for _ in range(1000)) if v not in hosts)
    m = next(v for v in (ch.choice([ch.integer(10, 99), ch.integer(201, 400)]) for _ in range(1000)) if v not in mods)
    hn, mn = "RIG_HOST_CN", "RIG_MODULE_CN"
    while hn in names or mn in names:
        hn, mn = hn + "X", mn + "X"
    q.spec(path).defs += [G.Def("host", hn, path, value=h), G.Def("module", mn, path, value=m)]
    q.rerender()
    return q


def check_core_named(q: G.Program, res: Result = None):
    trace = {"mode": "core-named", "program": q.to_json()}
    if not q.conflict:
        check_free(q, res, trace=trace)
        return
    try:
        check_conflict(q, res, trace=trace)
    except Violation as v:
        if v.key.startswith(("conflict-missed/range/", "conflict-wrong-class/range/")):
            c = q.conflict
            raise Violation("core-named-file/" + v.key, f"a USER file called {CORE_NAME} ({c['files'][0]}, {'the root file' if c['files'][0] == q.root else 'imported by the closure'}) "
                            f"declares {c['names'][0]} with the out-of-range id {c.get('value')} and is not refused for it; the same text under any other "
                            f"file name is refused with RTMASyntaxError (only the package's own core definition file is exempt from the range rules): {v.what}", v.trace)
        raise


def core_named_case(q: G.Program, res: Result):
    res.evaluations += 1
    res.count("core-named-file-cases")
    res.count("core-named-file/" + ("id-out-of-range" if q.conflict else "ids-in-range") + ("/root" if "core-named-file/root" in q.classes else "/imported"))
    try:
        check_core_named(q, res)
    except Violation as v:
        res.add_finding(v.key, v.what, v.trace)


def core_named_table(idx: int, nshards: int, res: Result):
    """The closure of the enumerated table (core definitions imported) with the root, an imported file in the root's directory or in
    another directory called core_defs.yaml: accepted with additional in-range host / module ids in that file, and refused with
    RTMASyntaxError for each out-of-range host / module / message id placed there."""
    base = table_bases()[2]
    files = [base.root] + [f for f in base.file_order if f != base.root]
    k = 0
    for fi, f in enumerate(files):
        if rename_file(base, f) is None:
            continue
        for kind, values in [(None, [None])] + list(CORE_NAME_RANGE.items()):
            for v in values:
                k += 1
                if k % nshards != idx:
                    continue
                ch = G.RandomChooser(500 + k)
                if kind is None:
                    q = _with_ids(base, f, ch)
                else:
                    q = G.inject_conflict(base, kind, "same", ch, variant={"value": v}, files=(f, f))
                    q.options["import_coredefs"] = True
                core_named_case(rename_file(q, f), res)


def build_core_named(ch: G.Chooser):
    """A drawn closure (core definitions imported) one of whose files - drawn: root, inner or leaf - is called core_defs.yaml, with
    in-range ids only (half of them) or with one id outside its range in that file."""
    base = G.build_program(ch, import_coredefs=True, skeleton=ch.chance(0.5), allow=ALLOW)
    f = ch.choice(base.file_order)
    if ch.chance(0.5):
        q = _with_ids(base, f, ch.cos)
    else:
        kind = ch.choice(sorted(CORE_NAME_RANGE))
        q = G.inject_conflict(base, kind, "same", ch, variant={"value": ch.choice(CORE_NAME_RANGE[kind] + G.RANGE_VALUES[kind])}, files=(f, f))
        q.options["import_coredefs"] = True
    return rename_file(q, f)


def core_named_programs():
    from hypothesis import strategies as st

    G.core_defs()

    @st.composite
    def _cn(draw):
        return build_core_named(G.HypChooser(draw))

    return _cn()


# ----------------------------------------------------------------------------------------------
# histories: several parses on ONE Parser object


def _parse_on(ps, p: G.Program, d: str) -> G.ParseOutcome:
    """Overwrite directory ``d`` with closure p and parse it with the given (possibly used) Parser."""
    for name in os.listdir(d):
        shutil.rmtree(os.path.join(d, name), ignore_errors=True) if os.path.isdir(os.path.join(d, name)) else os.remove(os.path.join(d, name))
    root = p.write(d)
    cwd = os.getcwd()
    try:
        ps.parse(root)
        return G.ParseOutcome("ok", ps, None, root)
    except BaseException as e:  # noqa
        if isinstance(e, (KeyboardInterrupt, SystemExit)):
            raise
        return G.ParseOutcome(type(e).__name__, None, e, root)
    finally:
        os.chdir(cwd)


PRE_MODES = ("options", "options-with-section", "options-other-parser")


def _with_options_section(p: G.Program) -> G.Program:
    """Copy of closure p whose root file carries a compiler_options section that says what p's own options say (the Parser API
    does not apply the section, the command line takes it as its defaults: no contradiction either way)."""
    q = p.clone()
    q.spec(q.root).compiler_options = {"IMPORT_COREDEFS": p.import_coredefs, "AUTO_PAD": p.auto_pad, "VALIDATE_ALIGNMENT": p.validate_alignment}
    q.fault = p.fault
    q.classes.add("root-compiler-options")
    q.rerender()
    return q


def _write_closure(p: G.Program, d: str) -> str:
    for name in os.listdir(d):
        shutil.rmtree(os.path.join(d, name), ignore_errors=True) if os.path.isdir(os.path.join(d, name)) else os.remove(os.path.join(d, name))
    return p.write(d)


def _options_then_parse(ps, p: G.Program, d: str, other=None) -> G.ParseOutcome:
    """The public two-step sequence of rtma_compiler's main(): parse_compiler_options(root), then parse(root).  Both calls on the
    Parser ``ps`` - or, like main(), the options pass on ``other`` and the parse on ``ps``.  An exception of the options pass is
    the outcome of the sequence (main() exits with status 1 there)."""
    root = _write_closure(p, d)
    cwd = os.getcwd()
    try:
        (other or ps).parse_compiler_options(root)
        ps.parse(root)
        return G.ParseOutcome("ok", ps, None, root)
    except BaseException as e:  # noqa
        if isinstance(e, (KeyboardInterrupt, SystemExit)):
            raise
        return G.ParseOutcome(type(e).__name__, None, e, root)
    finally:
        os.chdir(cwd)


def check_history(steps, res: Result = None, pre: str = None):
    """steps: closures parsed one after the other by ONE Parser in ONE directory (the later ones overwrite the files of the earlier
    ones).  All but the last are expected to fail (generated faults: missing import file, definition without id / fields, signal
    used as a field type, or a genuine conflict); a failed parse must leave nothing behind: the last closure - conflict-free or with
    exactly one conflict - must get the verdict a fresh Parser gives it (the registered union, or the conflict's exception).
    ``pre``: the last closure is compiled by the public two-step sequence parse_compiler_options(root), parse(root) - "options": both
    on the one Parser object, "options-with-section": the same with a compiler_options section in the root file, "options-other-parser":
    the options pass on a second Parser object (what rtma_compiler's main() does).  With ``pre`` there may be no earlier parse at all."""
    import logging
    from pyrtma.parser import Parser

    if pre is not None and pre not in PRE_MODES:
        raise HarnessError(f"unknown history prelude {pre!r}")
    last = steps[-1]
    if pre == "options-with-section" and not last.spec(last.root).compiler_options:
        last = _with_options_section(last)
    trace = {"mode": "history", "steps": [q.to_json() for q in steps[:-1]] + [last.to_json()], "pre": pre}
    d = G.scratch_dir("c12hist")
    ps = Parser(**last.compile_kwargs())
    other = Parser(**last.compile_kwargs()) if pre == "options-other-parser" else None
    kinds = []
    try:
        for q in steps[:-1]:
            out = _parse_on(ps, q, d)
            kinds.append(f"{(q.fault or {}).get('kind') or (q.conflict or {}).get('kind', '?')}->{out.outcome}")
            if out.ok:
                return  # the premise (an aborted parse) does not hold: nothing is claimed about accumulation after a success
        out = _options_then_parse(ps, last, d, other) if pre else _parse_on(ps, last, d)
        first = steps[0]
        fk = ((first.fault or {}).get("kind") or "conflict") if len(steps) > 1 else None
        told = (f"earlier parses {kinds} (each aborted), then " if kinds else "")
        if pre:
            fk = (fk + "+" if fk else "") + "options-pass"
            told += ("parse_compiler_options(root)" + (" on a second Parser object" if other else "") + (" (the root file has a compiler_options section)" if last.spec(last.root).compiler_options else " (the root file has no compiler_options section)")
                     + " and then parse(root) of ")
        try:
            if last.conflict:
                check_conflict(last, None, out=out, trace=trace)
            else:
                check_free(last, None, out=out, trace=trace)
        except Violation as v:
            if v.key.startswith("reserved-spelling/") and (not pre or G.parse_program(last).outcome == out.outcome):
                raise  # a matter of the spelling (a fresh Parser answers the same), not of the history
            raise Violation(f"history/after-{fk}/{'/'.join(v.key.split('/')[:2])}", f"one Parser object, {told}the "
                            f"{'single-conflict' if last.conflict else 'conflict-free'} closure in the same files: {v.what}", trace)
        if res is not None:
            res.count("histories")
            if len(steps) > 1:
                res.count("history/first-failure/" + ((first.fault or {}).get("kind") or "conflict"))
            res.count("history/last/" + ("conflict" if last.conflict else "free"))
            if pre:
                res.count("history/options-pass/" + pre + ("/after-aborted-parse" if kinds else "/first-call"))
                res.count("history/options-pass/last/" + ("conflict-raised-" + out.outcome if last.conflict else "free-registered"))
            res.shape("history", tuple(k.split("->")[0].split("/")[0] for k in kinds), tuple(k.split("->")[1] for k in kinds),
                      (last.conflict or {}).get("kind", "free").split("/")[0], (first.fault or {}).get("file") == first.root, last.import_coredefs, pre)
    finally:
        for p_ in (ps, other):
            if p_ is None:
                continue
            for h in list(p_.logger.handlers):
                p_.logger.removeHandler(h)
            logging.Logger.manager.loggerDict.pop(p_.logger.name, None)
        shutil.rmtree(d, ignore_errors=True)


def build_history(ch: G.Chooser, core: bool = False):
    base = G.build_program(ch, import_coredefs=core, skeleton=ch.chance(0.5), min_files=2, allow=ALLOW)
    steps = []
    for _ in range(ch.integer(1, 2)):
        kind = ch.choice(G.FAULT_KINDS + ["conflict"])
        if kind == "conflict":
            pls = [pl for pl in G.PLACEMENTS if G.file_pairs(base, pl)]
            q = G.inject_conflict(base, ch.choice(["msgid/msg-msg", "name/constant-struct", "modid/dup", "msgid/signal-reserved"]), ch.choice(pls), ch)
            q.options["import_coredefs"] = core
        else:
            q = G.inject_fault(base, kind, ch, where=ch.choice([None, "root", "leaf"]))
        steps.append(q)
    if ch.chance(0.5):
        steps.append(base)
    else:
        pls = [pl for pl in G.PLACEMENTS if G.file_pairs(base, pl)]
        kinds = [k for k in G.CONFLICT_KINDS if k not in G.NEEDS_CORE or core]
        q = G.inject_conflict(base, ch.choice(kinds), ch.choice(pls), ch, swap=ch.chance(0.5))
        steps.append(q)
    return steps


def histories(core: bool = False):
    from hypothesis import strategies as st

    G.core_defs()

    @st.composite
    def _h(draw):
        return build_history(G.HypChooser(draw), core)

    return _h()


def build_options_history(ch: G.Chooser, core: bool = False):
    """-> (steps, pre): a conflict-free or single-conflict closure (any conflict kind, placement, order) compiled by the two-step
    sequence parse_compiler_options(root), parse(root) - on one Parser object (root file with or without a compiler_options section)
    or with the options pass on a second object -, as the first thing the Parser does or after one aborted parse."""
    base = G.build_program(ch, import_coredefs=core, skeleton=ch.chance(0.5), min_files=ch.choice([1, 2]), allow=ALLOW)
    pls = [pl for pl in G.PLACEMENTS if G.file_pairs(base, pl)]
    steps = []
    if ch.chance(0.3):
        kind = ch.choice(G.FAULT_KINDS + ["conflict"])
        if kind == "conflict":
            q = G.inject_conflict(base, ch.choice(["msgid/msg-msg", "name/constant-struct", "modid/dup", "msgid/signal-reserved"]), ch.choice(pls), ch)
            q.options["import_coredefs"] = core
        else:
            q = G.inject_fault(base, kind, ch, where=ch.choice([None, "root", "leaf"]))
        if q is not None:
            steps.append(q)
    if ch.chance(0.4):
        steps.append(base)
    else:
        kinds = [k for k in G.CONFLICT_KINDS if k not in G.NEEDS_CORE or core]
        steps.append(G.inject_conflict(base, ch.choice(kinds), ch.choice(pls), ch, swap=ch.chance(0.5)))
    return steps, ch.weighted([("options", 3), ("options-with-section", 3), ("options-other-parser", 1)])


def options_histories(core: bool = False):
    from hypothesis import strategies as st

    G.core_defs()

    @st.composite
    def _h(draw):
        return build_options_history(G.HypChooser(draw), core)

    return _h()


def _history_collect(steps, res: Result, pre=None):
    res.evaluations += 1
    try:
        check_history(steps, res, pre=pre)
    except Violation as v:
        res.add_finding(v.key, v.what, v.trace)


def history_table(res: Result):
    """Every fault kind at the root and at a leaf file, followed by the corrected closure and by three single-conflict closures - parsed
    directly, and by the two-step sequence options pass + parse."""
    base = table_bases()[0]
    for i, kind in enumerate(G.FAULT_KINDS + ["conflict"]):
        for where in ("root", "leaf"):
            ch = G.RandomChooser(100 + i)
            first = (G.inject_fault(base, kind, ch, where=where) if kind != "conflict"
                     else G.inject_conflict(base, "msgid/msg-signal", "cousins", ch))
            for k, last in enumerate((base, G.inject_conflict(base, "msgid/msg-msg", "parent-child", ch), G.inject_conflict(base, "name/alias-message", "siblings", ch),
                                      G.inject_conflict(base, "hostid/dup", "same", ch))):
                _history_collect([first, last], res)
                _history_collect([first, last], res, pre=PRE_MODES[(i + k + (where == "leaf")) % 2])


def options_table(idx: int, nshards: int, res: Result, seed: int = 0, full: bool = True):
    """The enumerated conflict table once more, every case compiled by parse_compiler_options(root) + parse(root) on ONE Parser
    object (root file without and with a compiler_options section, alternating; every 8th case with the options pass on a second
    Parser object): the kinds that need the core definitions with them - all of them in thorough, a quarter (rotating with the seed)
    in quick -, the others without.  Plus the conflict-free table bases in every mode."""
    cases = G.all_conflict_cases()
    bases = table_bases()
    for i, case in enumerate(cases):
        if i % nshards != idx:
            continue
        core = case["kind"] in G.NEEDS_CORE
        if core and not (full or (i // nshards + seed) % 4 == 1):
            continue
        base = bases[2] if core else bases[(i + 1) % 2]
        q = G.inject_conflict(base, case["kind"], case["placement"], G.RandomChooser(i * 7 + 3), swap=case["swap"], variant=case["variant"])
        if q is None:
            raise HarnessError(f"table base has no file pair for placement {case['placement']}")
        q.options["import_coredefs"] = core
        res.count("options-table-cases")
        _history_collect([q], res, pre=PRE_MODES[2] if i % 8 == 7 else PRE_MODES[(i // nshards) % 2])
    if idx < len(bases) * len(PRE_MODES):
        res.count("options-table-cases")
        _history_collect([bases[idx % len(bases)]], res, pre=PRE_MODES[idx // len(bases)])


# ----------------------------------------------------------------------------------------------
# command line sample (thorough)


def cli_case(p: G.Program, res: Result):
    d = G.scratch_dir("c12cli")
    try:
        root = p.write(d)
        outdir = os.path.join(d, "out")
        os.makedirs(outdir)
        args = [sys.executable, "-m", "pyrtma.compile", "-i", root, "--py", "-o", outdir]
        if not p.auto_pad:
            args.append("--no_auto_pad")
        if not p.validate_alignment:
            args.append("--no_val_align")
        if not p.import_coredefs:
            args.append("--no_core_import")
        env = dict(os.environ)
        env["PYTHONPATH"] = os.pathsep.join([os.path.join(os.environ.get("VERIF_REPO", "/repo"), "src")] + ([env["PYTHONPATH"]] if env.get("PYTHONPATH") else []))
        try:
            r = subprocess.run(args, cwd=d, env=env, stdin=subprocess.DEVNULL, capture_output=True, text=True, timeout=120)
        except subprocess.TimeoutExpired:
            res.inconclusive += 1
            return
        want = 1 if p.conflict else 0
        res.count("cli-cases")
        if r.returncode != want:
            kind = p.conflict["kind"] if p.conflict else "conflict-free"
            raise Violation(f"cli/exit-status/{kind}", f"python -m pyrtma.compile exited {r.returncode} for a {kind} closure, expected {want}; "
                            f"output tail: {(r.stdout + r.stderr)[-300:]!r}", {"mode": "cli", "program": p.to_json()})
    finally:
        shutil.rmtree(d, ignore_errors=True)


# ----------------------------------------------------------------------------------------------


def shard(idx: int, nshards: int, seed: int, n_free: int, n_conf: int, n_cli: int, vseed: int = 0, full: bool = True, n_hist: int = 40, n_core_named: int = 6, n_opt: int = 30):
    G.quiet()
    res = Result()
    run_table(idx, nshards, res, seed=vseed, full=full)
    # three quarters of the random closures without the core definitions (a parse costs 2 ms instead of 60 ms), one quarter with
    for k, (core, share) in enumerate(((False, 3), (True, 1))):
        sb = G.ShrinkBudget(15)
        hyp_run(sb.body(lambda p: check_free(p, res)), sb.wrap(G.programs(import_coredefs=core, max_files=6, allow=ALLOW)),
                seed + 10 * k, max(1, n_free * share // 4), res)
        sb = G.ShrinkBudget(15)
        hyp_run(sb.body(lambda p: check_conflict(p, res)), sb.wrap(G.conflict_programs(import_coredefs=core, allow=ALLOW)),
                seed + 10 * k + 1, max(1, n_conf * share // 4), res)
    if idx == 2:
        history_table(res)
    if idx == 3:
        twin_table(res)
    core_named_table(idx, nshards, res)
    sb = G.ShrinkBudget(15)
    hyp_run(sb.body(lambda q: core_named_case(q, res) if q is not None else None), sb.wrap(core_named_programs()), seed + 30, n_core_named, res)
    for k, core in enumerate((False, True)):
        sb = G.ShrinkBudget(15)
        hyp_run(sb.body(lambda st_: check_history(st_, res)), sb.wrap(histories(core)), seed + 20 + k, max(1, n_hist * (1 if core else 4) // 5), res)
    options_table(idx, nshards, res, seed=vseed, full=full)
    for k, core in enumerate((False, True)):
        sb = G.ShrinkBudget(15)
        hyp_run(sb.body(lambda sp: check_history(sp[0], res, pre=sp[1])), sb.wrap(options_histories(core)), seed + 40 + k, max(1, n_opt * (1 if core else 4) // 5), res)
    if n_cli:
        rnd = G.RandomChooser(seed + 2)
        for k in range(n_cli):
            base = G.build_program(rnd, skeleton=True)
            if k % 3:
                kind = rnd.choice(G.CONFLICT_KINDS)
                pl = rnd.choice([x for x in G.PLACEMENTS if G.file_pairs(base, x)])
                base = G.inject_conflict(base, kind, pl, rnd, swap=rnd.chance(0.5))
            res.evaluations += 1
            try:
                cli_case(base, res)
            except Violation as v:
                res.add_finding(v.key, v.what, v.trace)
    return res


def run(ctx: RunContext) -> int:
    t0 = time.time()
    n_free = ctx.scale(200, 2500)
    n_conf = ctx.scale(160, 2500)
    n_cli = 0 if ctx.quick else 6
    res = run_shards(shard, [(i, 16, derive_seed(ctx.seed, i), n_free, n_conf, n_cli, ctx.seed, not ctx.quick, ctx.scale(40, 1500), ctx.scale(6, 300), ctx.scale(30, 1200)) for i in range(16)])
    res.notes.append(f"the conflict table ({len(G.all_conflict_cases())} kind x placement x order x spelling x position x value cases) was enumerated "
                     "completely: kinds that need the core definitions with them, all others without; the latter additionally with the core "
                     + ("for every case" if not ctx.quick else "for a quarter of the cases (rotating with the seed; every case in thorough)"))
    return conclude(ctx, res, RULE, ASSUME, t0)


def replay_trace(trace: dict):
    G.quiet()
    p = G.Program.from_json(trace["program"]) if "program" in trace else None
    if trace["mode"] == "free":
        check_free(p)
    elif trace["mode"] == "conflict":
        check_conflict(p)
    elif trace["mode"] == "history":
        check_history([G.Program.from_json(q) for q in trace["steps"]], pre=trace.get("pre"))
    elif trace["mode"] == "core-named":
        check_core_named(p)
    elif trace["mode"] == "cli":
        cli_case(p, Result())
    else:
        raise HarnessError(f"unknown trace mode {trace['mode']!r}")
