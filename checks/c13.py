"""C13 - the version hash identifies the definition text, everywhere the same.

Metamorphic / differential oracle only (the hash formula is never re-implemented):

(a) the same closure parsed and compiled in two fresh interpreter processes with different PYTHONHASHSEED, working directory,
    location of the closure and output directory gives the same digests and the same hash text in every output;
(b) relocating a message definition into another (possibly new) file or directory of the import graph, reordering or
    respelling imports, an extra import edge, comments, blank lines, indentation, section order, quoting, unrelated new
    definitions, the closure at another absolute location: every untouched message keeps its digest;
(c) every single edit of a message (rename, id, field rename, field type text, insertion, deletion, reordering of two
    fields, signal <-> message) changes its full digest; over all variants of one base closure the digest must be an
    injective function of (name, id, ordered (field name, type text) list); a message written ``fields: OTHER`` has OTHER's
    field list: a single field edit of OTHER (struct or message) must change the digest of every message that copies it;
    the same text parsed with the other alignment options (validate_alignment / auto_pad: automatic padding fields are inserted
    or not) has the same digests;
(d) Python ``type_hash``, C ``HASH_<NAME>``, JavaScript ``RTMA.HASH.<NAME>``, MATLAB ``RTMA.hash.<name>`` all carry the
    first 8 hex digits of the parser's digest, for every message, signal and reserved id - also for identifiers of every
    length in {1, 2, 31, 32, 40, 45, 46, 47, 48, 63} (a covering closure is compiled in every run; the back ends pad names
    to fixed column widths) and for names that start with the name of an output table / prefix of a back end followed by '_'
    (hash_, HASH_, MT_, MID_, HID_, MDF_, SDF_, typedefs_, defines_, constants_, aliases_, ...: vlib.defgen.TABLE_PREFIXES), with
    and without a second definition named like the remainder (covering closure in every run, drawn names in the random ones), and
    for messages / signals whose name is in use in another namespace of the closure or of the imported core definitions (message
    QUICK_LOGGER, signal ALL_HOSTS next to module id RTMA_LOG: covering closure in every run, drawn ones with the core imported);
(e) ``Client.send_message`` stamps the class's ``type_hash`` into the version (``reserved``) field of the outgoing header:
    shipped core classes in process (plain and timecode header), generated classes compiled from generated closures and
    imported in a fresh interpreter; the value on the wire equals the parser's digest prefix.  Hypothesis-drawn sequences
    of 3-10 sends on ONE client (both header layouts) over shipped core classes with and without payload, hand-defined
    classes with explicit type_hash values and hand-written V1-style classes WITHOUT type_hash, send_signal interleaved:
    every class that has a type_hash must be stamped whatever was sent before on that client.  The sequences also register
    (pyrtma.message_def) revisions of a message - classes with the same type_id and different type_hash, also classes using the
    id of a core message - in both orders and send instances of every revision, of classes registered nowhere and of classes
    whose id belongs to another class: the version is the type_hash of the instance's own class and send_message never raises.
    send_signal(id) of a signal definition stamps the hash of the definition registered for the id at the time of the call,
    also when another revision of the signal was registered (and sent) before in the same process.
    EDITIONS: a closure and a copy of it in which 1-2 messages keep name, id and memory layout but get another definition text
    (int -> int32, unsigned int -> uint32, long -> int32, an alias replaced by its native type, char[MAX_LEN] -> char[32],
    int32[8] -> int32[4 * 2]) are compiled to two Python modules; ONE interpreter imports both (either order, several pairs one
    after the other); for every message of every module, after each import, MODULE.MDF_<name>.type_hash and the version field
    of a header sent for MODULE.MDF_<name>() must be the first 32 bits of the parser's digest of THAT edition's text.
"""
from __future__ import annotations

import json
import os
import re
import shutil
import socket
import struct
import subprocess
import sys
import time
from dataclasses import dataclass, field
from typing import List, Optional, Tuple

from hypothesis import strategies as st

from vlib import defgen as G
from vlib import defgen_hist as H
from vlib.common import HarnessError, Result, RunContext, Violation, conclude, derive_seed, hyp_run, run_shards

RULE = ("Hypothesis draws a well-formed base closure (1-6 files, 1-3 directories, every graph shape, messages with native / alias / struct / "
        "message typed fields, arrays with literal and constant-expression lengths, signals, field-list reuse, reserved ids) and a family of "
        "variants of it: 1-2 noise transformations (comments, blank lines, indentation, section order, null sections, key spacing, quoting, "
        "hex ids, id/fields key order, unrelated new definitions, import reordering / respelling / extra import edge), relocation of up to 3 "
        "messages into another existing file or a new file in another directory, and every applicable single edit (rename, id, field rename, "
        "field type text, insertion, deletion, reordering, signal<->message) of up to 2 messages, the same text with validate_alignment switched "
        "(automatic padding inserted on one side only), and up to 2 single field edits (insert, delete, retype, swap, rename) of a struct / message whose "
        "field list other messages copy with 'fields: NAME'; base and variants are parsed by the real "
        "parser (the base at two absolute locations). Oracle: untouched messages keep their full sha256 digest, edited ones change it - a message "
        "that copies the field list of an edited definition counts as edited (its ordered field list changed) -, the alignment options change no digest, and "
        "over the family the digest is an injective function of (name, id, ordered (field name, type text) list) - type texts that differ "
        "only in white space are don't-cares. For a sample the closure is compiled to Python, C, JavaScript and MATLAB and the hash text of "
        "every message in every output must be the first 8 digits of the parser's digest; closures are parsed+compiled in two fresh "
        "processes (different PYTHONHASHSEED, cwd, location, output directory) and must agree; Client.send_message of every shipped core "
        "message class (both header layouts) and of generated classes imported in a fresh interpreter must put type_hash into the header's "
        "version field - also in drawn sequences of 3-10 sends on one client that mix core classes, hand-defined classes with explicit "
        "hashes, hand-written classes without type_hash and send_signal calls (plus a table: each hash-less class followed by every hashed "
        "class and back; every pair of revisions of a message id in both registration orders; every pair of revisions of a SIGNAL id: send_signal, "
        "register the other revision, send_signal again, register the first again, send_signal). EDITIONS: 13+ pairs per run (closure, copy in which 1-2 messages keep name, id and memory layout "
        "and get another definition text: a native type name replaced by one of the same ctypes class - int -> int32, unsigned int -> uint32, long -> int32, short -> int16, byte -> uint8 -, an alias by "
        "its native type, an array length respelled - char[MAX_LEN] -> char[32], int32[8] -> int32[4 * 2]; messages whose fields are all natives / aliases of natives preferred) are compiled to two "
        "Python modules each; one fresh interpreter per shard imports the modules of 3-5 pairs one after the other (either order within a pair) and, after each import, every module's MDF_<name> must "
        "have the type_hash of ITS edition's digest and a header sent for an instance must carry it. Non-trivial = an edit pair, a relocation across files, a send of a class with type_hash after a send of a class "
        "without one on the same client, a send of a class whose type_id is registered (pyrtma.message_def) to another class, or a message of an edition pair whose text differs between the editions; distinct = (edit kind, what changed, message shape) / "
        "(relocation: new file?, directory changed?, message shape) / (output language, core imported, kind of message).")
ASSUME = [
    "a message defined with 'fields: OTHER' has the ordered field list of OTHER (that is what every output declares and what goes on the wire): an edit of OTHER's field list is an edit of the copying message's field list and must change its digest (finding key edit-not-detected/fields-of-copied-definition, recorded without stopping the campaign); the digest of such a message is otherwise only required to be a function of (name, id, OTHER, copied field list)",
    "the alignment options are not among the elements the statement lets the hash depend on: the same definition text parsed with validate_alignment on (automatic padding fields inserted) and off must give the same digests; a closure one of the two settings rejects (size limit) is inconclusive",
    "type texts that differ only in white space ('int32[ N ]' vs 'int32[N]') are don't-cares: neither equality nor difference of the digest is asserted",
    "a collision of the 32-bit prefix between two different definitions (probability 2^-32 per pair) would be reported as a note, not as a violation; the full digest is what must differ",
    "hash texts are extracted from the outputs by regular expressions (no MATLAB exists here; C and JavaScript are not executed by this check); the MATLAB name is the sanitised name (leading '_' and digits stripped)",
    "the C header deliberately omits core definitions, so core messages are compared in the Python, JavaScript and MATLAB outputs only",
    "Client internals _sock and _connected are set directly to attach the client to a socketpair (documented private poke, as in Engine D)",
    "send_signal(id) is covered for ids of signal definitions known to the process (a registered payload-free class): the header must carry the hash of the definition registered for the id when send_signal is called (also after another revision was registered and sent before), as send_message of an instance does; for ids without a definition, or whose definition has a payload, and for classes without type_hash the version field is a don't-care",
    "messages originated by the manager process itself (ACKNOWLEDGE, FAILED_MESSAGE, CLIENT_INFO, ...) are not covered here: C13 is checked on the compiler and on the client API that applications send with",
    "the hand-written classes of the send sequences are built with MessageMeta on MessageData; they are registered with pyrtma.message_def only by explicit 'register' steps, and pyrtma.message._msg_defs is restored after every sequence",
    "editions: two generated modules that define the same message id are both importable into one interpreter (the later registration wins the id in pyrtma.message._msg_defs); each module's class is that module's definition: its type_hash and the version it sends are those of its own definition text, whichever module was imported first",
    "near-miss definitions (a field named type_id, type_name, type_hash, type_source, type_def, type_size or hexdump) are expected to be rejected; a rejection is only counted, an acceptance subjects the definition set to (d) and (e)",
    "a well-formed closure the parser rejects (not expected; generator is sound on the reference tree) is counted as inconclusive, acceptance is not this property",
]


# ----------------------------------------------------------------------------------------------
# signatures from the generator's model


def sig_exact(d: G.Def):
    if d.kind == "signal":
        return (d.name, d.id, "signal")
    if d.reuse is not None:
        return (d.name, d.id, "reuse", d.reuse)
    return (d.name, d.id, "fields", tuple((f.name, f.type_text) for f in d.fields))


def sig_norm(d: G.Def):
    s = sig_exact(d)
    if s[2] == "fields":
        return s[:3] + (tuple((n, re.sub(r"\s+", "", t)) for n, t in s[3]),)
    return s


def message_sigs(p: G.Program):
    """{name: (exact, norm)} for messages, signals and reserved ids of the user files.  For a message written ``fields: OTHER``
    the exact signature also carries the ordered (field name, type text) list it copies from OTHER (equal exact signatures
    must have equal digests whatever is hashed); the norm signature is its written form (name, id, OTHER)."""
    out = {}
    for d in p.defs:
        if d.kind in ("message", "signal"):
            se = sig_exact(d)
            if d.kind == "message" and d.reuse is not None:
                try:
                    se = se + (tuple((f.name, f.type_text) for f in p.user_fields(d.name)),)
                except Exception:  # noqa
                    pass
            out[d.name] = (se, sig_norm(d))
        elif d.kind == "reserved":
            for i in d.reserved_ids():
                n = f"_RESERVED_{i:06d}"
                out[n] = ((n, i, "signal"), (n, i, "signal"))
    return out


def msg_shape(p: G.Program, name: str):
    d = p.by_name(name) if p.has(name) else None
    if d is None:
        return ("reserved",)
    if d.kind == "signal":
        return ("signal",)
    if d.reuse:
        return ("reuse",)
    kinds = sorted({p.resolve_type(f.base).kind for f in d.fields})
    return ("fields", min(len(d.fields), 5), any(f.length is not None for f in d.fields), tuple(kinds))


def digests(p: G.Program, dirpath: Optional[str] = None):
    out = G.parse_program(p, dirpath=dirpath)
    if not out.ok:
        return None, out
    return {n: m.hash for n, m in out.parser.message_defs.items()}, out


# ----------------------------------------------------------------------------------------------
# metamorphic family


ALLOW = ("alias-of-imported-struct", "alias-of-imported-struct-field", "struct-contains-message", "string-special", "prefix-names",
         "long-names")


@dataclass
class MetaCase:
    base: G.Program
    variants: List[Tuple[str, G.Program]] = field(default_factory=list)  # (op, program)


def build_case(ch: G.Chooser, core: Optional[bool] = None) -> MetaCase:
    if core is None:
        core = ch.chance(0.06)  # a parse with the core definitions costs 60 ms instead of 2 ms; the hash does not depend on them
    base = G.build_program(ch, import_coredefs=core, auto_pad=True if ch.chance(0.8) else None, min_messages=2, allow=ALLOW)
    case = MetaCase(base)
    for _ in range(ch.integer(1, 2)):
        case.variants.append(("noise", G.add_noise(base, ch, intensity=ch.integer(1, 5))))
    msgs = base.messages()
    for d in ch.shuffled(msgs)[:3]:
        q = G.relocate(base, d.name, ch)
        if q is not None:
            case.variants.append(("relocate", q))
    for d in ch.shuffled(msgs)[:2]:
        for k in G.applicable_edits(base, d.name):
            q = G.edit(base, d.name, k, ch)
            if q is not None:
                case.variants.append(("edit", q))
    # the same text compiled with the other alignment options (the hash depends on name, id and field texts only)
    q = base.clone()
    q.options["validate_alignment"] = not base.validate_alignment
    if q.options["validate_alignment"]:
        q.options["auto_pad"] = True
    q.edited = q.relocated = None
    case.variants.append(("options", q))
    # one field edit of a struct / message whose field list other messages copy with ``fields: NAME``
    for _ in range(2):
        q = H.edit_reused_fields(base, ch)
        if q is not None:
            case.variants.append(("reuse-edit", q))
    # relocation + noise combined, and an edit on top of a relocation
    if case.variants and ch.chance(0.3):
        op, q = ch.choice(case.variants)
        if op == "relocate":
            case.variants.append(("relocate+noise", G.add_noise(q, ch, 2)))
    return case


@st.composite
def meta_cases(draw, core=None):
    return build_case(G.HypChooser(draw), core)


def check_meta(case: MetaCase, res: Result = None):
    base = case.base
    h0, out0 = digests(base)
    if h0 is None:
        if res is not None:
            res.inconclusive += 1
            res.count("inconclusive/base-rejected/" + out0.outcome)
        return
    sig0 = message_sigs(base)
    missing = [n for n in sig0 if n not in h0]
    if missing:
        raise Violation("message-missing", f"messages {missing[:3]} are not registered by the parser", {"base": base.to_json()})
    # same text at another absolute location (deeper directory)
    d = G.scratch_dir("c13loc")
    try:
        deep = os.path.join(d, "some where", "deeper")
        os.makedirs(deep)
        h1, _ = digests(base, dirpath=deep)
    finally:
        shutil.rmtree(d, ignore_errors=True)
    if h1 != h0:
        diff = [n for n in h0 if (h1 or {}).get(n) != h0[n]]
        raise Violation("hash-changed/location", f"the same closure parsed from another directory gives other digests for {diff[:3]}",
                        {"base": base.to_json(), "op": "location"})
    exact = {}  # sig_exact -> (digest, where)
    by_digest = {}  # digest -> (sig_norm, where)

    def register(p, h, where, trace):
        for n, (se, sn) in message_sigs(p).items():
            dg = h[n]
            if se in exact and exact[se][0] != dg:
                raise Violation("hash-not-a-function-of-elements", f"message {n} has the same name, id and field texts in [{exact[se][1]}] and in "
                                f"[{where}] but digests {exact[se][0][:12]}.. and {dg[:12]}..", trace)
            exact.setdefault(se, (dg, where))
            if dg in by_digest and by_digest[dg][0] != sn:
                raise Violation("hash-collision-of-different-elements", f"digest {dg[:12]}.. belongs to {by_digest[dg][0]} in [{by_digest[dg][1]}] "
                                f"and to {sn} in [{where}]", trace)
            by_digest.setdefault(dg, (sn, where))

    register(base, h0, "base", {"base": base.to_json()})
    if res is not None:
        res.count("base-closures")
        res.count("messages-in-bases", len(sig0))
    for op, q in case.variants:
        trace = {"base": base.to_json(), "op": op, "variant": q.to_json()}
        hq, outq = digests(q)
        if hq is None:
            if res is not None:
                res.inconclusive += 1
                res.count(f"inconclusive/variant-rejected/{op}/{outq.outcome}")
            continue
        sigq = message_sigs(q)
        if op == "options":
            for n in sig0:
                if n not in hq:
                    raise Violation("message-missing/options", f"compiled with {q.options} message {n} is not registered any more", trace)
                if hq[n] != h0[n]:
                    raise Violation("hash-changed/options", f"the same definition text compiled with {base.options} and with {q.options} gives digests "
                                    f"{h0[n][:12]}.. and {hq[n][:12]}.. for {n} ({sig0[n][0]})", trace)
            if res is not None:
                res.count("variants/options")
                padded = _auto_padded(out0 if base.validate_alignment else outq)
                if padded:
                    res.count("options-variants/with-automatic-padding-on-one-side")
                res.shape("options", bool(padded), tuple(sorted(base.options.items())), base.shape)
        elif op == "reuse-edit":
            e = q.edited
            tname = e["old"]
            if tname in hq and tname in h0 and sigq[tname][1] != sig0[tname][1] and hq[tname] == h0[tname]:
                raise Violation("edit-not-detected/" + e["kind"], f"edit [{e['what']}] left the digest of {tname} at {h0[tname][:16]}..", trace)
            _check_copies(sig0, sigq, h0, hq, e, trace, res)
            for n, (se, sn) in sigq.items():
                if n in sig0 and n != tname and sig0[n][0] == se and hq[n] != h0[n]:
                    raise Violation("hash-changed/edit-of-another-definition/" + e["kind"], f"edit [{e['what']}] changed the digest of the untouched message {n}", trace)
            if res is not None:
                res.count("variants/reuse-edit")
                res.count("reuse-edits/" + e["kind"].split("/")[1] + ("/of-struct" if base.by_name(tname).kind == "struct" else "/of-message"))
                res.shape("reuse-edit", e["kind"], base.by_name(tname).kind, min(len(e["users"]), 3), base.import_coredefs)
        elif op in ("noise", "relocate", "relocate+noise"):
            what = f"relocation {q.relocated}" if q.relocated else f"noise {q.noise}"
            if op == "relocate+noise":
                what = f"relocation {q.relocated} and noise {q.noise}"
            for n, (se, sn) in sig0.items():
                if n not in hq:
                    raise Violation(f"message-missing/{op}", f"after {what} message {n} is not registered any more", trace)
                if hq[n] != h0[n]:
                    tag = op if op != "noise" else "noise/" + "+".join(sorted(set(q.noise)))[:60]
                    raise Violation(f"hash-changed/{op}", f"after {what} the digest of {n} ({sig0[n][0]}) changed from {h0[n][:12]}.. to {hq[n][:12]}.. [{tag}]", trace)
            if res is not None:
                res.count("variants/" + op)
                if q.relocated:
                    r = q.relocated
                    res.count("relocations/new-file" if r["new_file"] else "relocations/existing-file")
                    res.shape("relocate", r["new_file"], os.path.dirname(r["from"]) != os.path.dirname(r["to"]), msg_shape(base, r["name"]),
                              base.import_coredefs, op)
                else:
                    for o in set(q.noise):
                        res.count("noise/" + o)
        else:
            e = q.edited
            old, new = e["old"], e["new"]
            if new not in hq:
                raise Violation(f"message-missing/edit/{e['kind']}", f"after edit {e['what']} message {new} is not registered", trace)
            if sigq[new][1] != sig0[old][1] and hq[new] == h0[old]:
                raise Violation(f"edit-not-detected/{e['kind']}", f"edit [{e['kind']}: {e['what']}] of {old}: {sig0[old][0]} -> {sigq[new][0]} "
                                f"left the digest at {h0[old][:16]}..", trace)
            _check_copies(sig0, sigq, h0, hq, e, trace, res)
            for n, (se, sn) in sigq.items():
                if n in sig0 and n != new and sig0[n][0] == se and hq[n] != h0[n]:
                    raise Violation(f"hash-changed/edit-of-another-message/{e['kind']}", f"edit [{e['kind']}: {e['what']}] of {old} changed the digest "
                                    f"of the untouched message {n}", trace)
            if res is not None:
                res.count("variants/edit")
                res.count("edits/" + e["kind"])
                res.shape("edit", e["kind"], _edit_class(e), msg_shape(base, old), base.import_coredefs)
        register(q, hq, f"{op}: {q.edited['what'] if q.edited else (q.relocated or q.noise)}", trace)
    if res is not None and len(res.samples) < 2 and case.variants:
        op, q = case.variants[-1]
        res.sample({"op": op, "edited": q.edited, "relocated": q.relocated, "base_files": base.files, "variant_files": q.files})


def _auto_padded(outcome) -> List[str]:
    """Messages / structs of a successful parse that carry compiler-inserted padding fields."""
    try:
        ps = outcome.parser
        return [n for sec in (ps.message_defs, ps.struct_defs) for n, m in sec.items() if any(re.fullmatch(r"padding_\d+_", f.name) for f in m.fields)]
    except Exception:  # noqa
        return []


COPY_KEY = "edit-not-detected/fields-of-copied-definition"


def _check_copies(sig0, sigq, h0, hq, e, trace, res: Result = None):
    """A message written ``fields: OTHER`` has OTHER's ordered field list.  When an edit of OTHER changes that list (the message's
    name, id and the word OTHER stay), an element the statement names has changed, so the digest must change.  The finding is
    recorded and the campaign goes on (one root cause, listed in KNOWN_FINDINGS.txt while it is open)."""
    for n, (se, sn) in sigq.items():
        if n not in sig0 or n not in hq or n not in h0:
            continue
        se0, sn0 = sig0[n]
        if sn0 == sn and len(sn) > 2 and sn[2] == "reuse" and se0 != se:
            if res is not None:
                res.count("copied-field-lists-changed-by-an-edit")
            if hq[n] == h0[n]:
                what = (f"edit [{e['what']}] changes the ordered field list of {n} (written 'fields: {sn[3]}') from {list(se0[-1])[:4]} to {list(se[-1])[:4]}; "
                        f"its digest stays {h0[n][:16]}..")
                if res is None:
                    raise Violation(COPY_KEY, what, trace)
                res.add_finding(COPY_KEY, what, trace)


def _edit_class(e):
    w = e["what"]
    if e["kind"] == "field-type":
        m = re.search(r": (.*) -> (.*)$", w)
        if m:
            a, b = m.group(1), m.group(2)
            return ("array" if "[" in a else "scalar", "array" if "[" in b else "scalar", a.split("[")[0] == b.split("[")[0])
    if e["kind"] == "id":
        m = re.search(r"id (\d+) -> (\d+)", w)
        if m:
            return (abs(int(m.group(1)) - int(m.group(2))) <= 10,)
    if e["kind"] == "rename":
        return (e["new"].startswith(e["old"]),)
    return ()


# ----------------------------------------------------------------------------------------------
# (d) hash text in every output

PY_RE = re.compile(r"class MDF_(\w+)\(MessageData.*?type_hash: ClassVar\[int\] = (0x[0-9A-Fa-f]*)", re.S)
# token-delimited: the macro name is the whole identifier after "#define ", followed by white space and the value; a line like
# "#define HASH_<name>0x<hash>" defines another (empty) macro and yields no HASH_<name> entry here
C_RE = re.compile(r"^#define[ \t]+HASH_(\w+)[ \t]+(0x[0-9a-fA-F]*)[ \t]*$", re.M)
JS_RE = re.compile(r'RTMA\.HASH\.(\w+) = "([^"]*)";')
ML_RE = re.compile(r'RTMA\.hash\.(\w+) = "([^"]*)";')


def extract_hashes(outdir: str, name: str):
    def rd(ext):
        with open(os.path.join(outdir, name + ext)) as f:
            return f.read()

    return {"python": PY_RE.findall(rd(".py")), "c": C_RE.findall(rd(".h")), "javascript": JS_RE.findall(rd(".js")),
            "matlab": ML_RE.findall(rd(".m"))}


def compare_outputs(p: G.Program, dg: dict, ext: dict, trace, res: Result = None):
    """dg: {message name: full digest} from the parser (core included when imported); ext: extract_hashes()."""
    core = set(G.core_defs()["message_defs"]) if p.import_coredefs else set()
    for lang, pairs in ext.items():
        names = [n for n in dg if not (lang == "c" and n in core)]
        key = (lambda n: n.lstrip("_0123456789")) if lang == "matlab" else (lambda n: n)
        want_names = sorted(key(n) for n in names)
        got_names = sorted(a for a, _ in pairs)
        if got_names != want_names:
            miss = [n for n in want_names if n not in got_names]
            extra = [n for n in got_names if n not in want_names]
            dup = sorted({n for n in got_names if got_names.count(n) > 1})
            key_ = f"output-hash-missing/{lang}"
            if lang == "c" and miss and not extra and all(p.has(n) and "core_defs" in p.by_name(n).file.split("/")[:-1] for n in miss):
                key_ += "/definitions-in-a-directory-named-core_defs"
            raise Violation(key_, f"{lang} output lists hashes for {len(got_names)} messages, expected one for each of the "
                            f"{len(want_names)} messages; missing {miss[:3]}, unexpected {extra[:3]}, repeated {dup[:3]}", trace)
        got = dict(pairs)
        for n in names:
            text = got[key(n)]
            want = dg[n][:8]
            if lang in ("python", "c"):
                ok = re.fullmatch(r"0x[0-9A-Fa-f]{1,8}", text) is not None and int(text, 16) == int(want, 16)
            else:
                ok = text == want
            if not ok:
                raise Violation(f"output-hash-differs/{lang}", f"{lang} output carries {text!r} for message {n}; the first 8 digits of the parser's "
                                f"digest are {want!r}", trace)
            if res is not None:
                kind = "core" if n in core else ("reserved" if n.startswith("_RESERVED_") else "user")
                res.shape("output", lang, p.import_coredefs, kind)
        if res is not None:
            res.count("output-hashes-compared/" + lang, len(names))


def check_outputs(p: G.Program, res: Result = None):
    import pyrtma.compile as pc

    trace = {"outputs": p.to_json()}
    d = G.scratch_dir("c13out")
    try:
        out = G.parse_program(p, dirpath=os.path.join(d, "src"))
        if not out.ok:
            if res is not None:
                res.inconclusive += 1
            return
        dg = {n: m.hash for n, m in out.parser.message_defs.items()}
        outdir = os.path.join(d, "out")
        os.makedirs(outdir)
        try:
            pc.compile(defs_files=[out.root], out_dir=outdir, out_name="gen", python=True, javascript=True, matlab=True, c_lang=True,
                       **p.compile_kwargs())
        except Exception as e:  # noqa  emission failures belong to C15
            if res is not None:
                res.inconclusive += 1
                res.count("inconclusive/compile-failed/" + type(e).__name__)
            return
        compare_outputs(p, dg, extract_hashes(outdir, "gen"), trace, res)
        if res is not None:
            res.count("closures-compiled")
        _recompile_after_edit(p, out, d, outdir, trace, res)
    finally:
        shutil.rmtree(d, ignore_errors=True)


def _recompile_after_edit(p: G.Program, out, d, outdir, trace, res):
    """A definition in ONE file of the closure is edited (preferably in an imported file: only that file is rewritten on disk)
    and the closure is compiled again into the SAME output directory: every output must carry the hashes of the edited text."""
    import pyrtma.compile as pc

    ch = G.RandomChooser(len(p.files) * 31 + len(p.defs))
    msgs = [x for x in p.defs if x.kind in ("message", "signal")]
    msgs.sort(key=lambda x: (x.file == p.root, x.name))  # definitions of imported files first
    q = None
    for m in msgs[:6]:
        for kind in ("field-rename", "field-type", "id", "field-insert", "field-delete"):
            q = G.edit(p, m.name, kind, ch)
            if q is not None:
                break
        if q is not None:
            break
    if q is None:
        return
    changed = [rel for rel, text in q.files.items() if p.files.get(rel) != text]
    if not changed or set(q.files) != set(p.files):
        return
    src = os.path.join(d, "src")
    for rel in changed:
        with open(os.path.join(src, rel), "w") as f:
            f.write(q.files[rel])
    out2 = G.parse_program(q, dirpath=os.path.join(d, "src2"))
    if not out2.ok:
        return
    dg2 = {n: m_.hash for n, m_ in out2.parser.message_defs.items()}
    try:
        pc.compile(defs_files=[out.root], out_dir=outdir, out_name="gen", python=True, javascript=True, matlab=True, c_lang=True,
                   **p.compile_kwargs())
    except Exception as e:  # noqa
        if res is not None:
            res.inconclusive += 1
        return
    trace2 = {"outputs": q.to_json(), "recompiled-into-the-directory-of": p.to_json(), "files-rewritten": changed}
    compare_outputs(q, dg2, extract_hashes(outdir, "gen"), trace2, res)
    if res is not None:
        res.count("closures-recompiled-into-the-same-directory-after-an-edit")
        if p.root not in changed:
            res.count("closures-recompiled-after-an-edit-of-an-imported-file-only")


# ----------------------------------------------------------------------------------------------
# (a) two fresh processes

CHILD_A = r"""
import sys, os, json, logging, re
logging.disable(logging.CRITICAL)
jobs = json.load(open(sys.argv[1]))
import pyrtma.compile as pc
import pyrtma.compilers.python as pyc
from pyrtma.parser import Parser
class _NoBlack:
    @staticmethod
    def run(*a, **k): return None
if not jobs["black"]:
    pyc.subprocess = _NoBlack
pc.print = lambda *a, **k: None
res = []
for job in jobs["jobs"]:
    ps = Parser(**job["opts"]); ps.parse(job["root"])
    dg = {n: m.hash for n, m in ps.message_defs.items()}
    os.makedirs(job["out"], exist_ok=True)
    pc.compile(defs_files=[job["root"]], out_dir=job["out"], out_name="gen", python=True, javascript=True, matlab=True, c_lang=True, **job["opts"])
    texts = {}
    for ext in (".py", ".h", ".js", ".m"):
        t = open(os.path.join(job["out"], "gen" + ext)).read()
        texts[ext] = [l.strip() for l in t.splitlines() if re.search(r"type_hash|HASH_|RTMA\.HASH\.|RTMA\.hash\.", l)]
    res.append({"digests": dg, "hash_lines": texts})
print("RESULT" + json.dumps(res))
"""


def _child_env(hashseed: int):
    env = dict(os.environ)
    env["PYTHONHASHSEED"] = str(hashseed)
    env["PYTHONPATH"] = os.path.join(os.environ.get("VERIF_REPO", "/repo"), "src")
    env.pop("VERIF_SEED", None)
    return env


def check_processes(progs: List[G.Program], res: Result = None, black: bool = False):
    top = G.scratch_dir("c13proc")
    try:
        runs = []
        for k, (seed, sub) in enumerate(((1, "first/place"), (98765, "second place/x/y"))):
            base = os.path.join(top, sub)
            jobs = []
            for i, p in enumerate(progs):
                root = p.write(os.path.join(base, f"closure{i}" if k == 0 else f"c{i}/nested"))
                jobs.append({"root": root, "opts": p.compile_kwargs(), "out": os.path.join(base, f"out{i}" if k == 0 else f"o/{i}/build")})
            jf = os.path.join(base, "jobs.json")
            with open(jf, "w") as f:
                json.dump({"jobs": jobs, "black": black}, f)
            cwd = os.path.join(base, "cwd")
            os.makedirs(cwd)
            try:
                r = subprocess.run([sys.executable, "-c", CHILD_A, jf], cwd=cwd, env=_child_env(seed), capture_output=True, text=True,
                                   stdin=subprocess.DEVNULL, timeout=600)
            except subprocess.TimeoutExpired:
                if res is not None:
                    res.inconclusive += 1
                return
            m = re.search(r"^RESULT(.*)$", r.stdout, re.M)
            if r.returncode != 0 or not m:
                if res is not None:
                    res.inconclusive += 1
                    res.count("inconclusive/child-failed")
                    res.notes.append(("child process failed: " + r.stderr[-300:]).replace("\n", " | "))
                return
            runs.append(json.loads(m.group(1)))
        for i, p in enumerate(progs):
            a, b = runs[0][i], runs[1][i]
            trace = {"processes": p.to_json(), "black": black}
            if a["digests"] != b["digests"]:
                diff = [n for n in a["digests"] if a["digests"][n] != b["digests"].get(n)]
                raise Violation("hash-differs-between-processes/digest", f"two fresh processes (PYTHONHASHSEED 1 / 98765, different cwd, closure "
                                f"location and output directory) computed different digests for {diff[:3]}", trace)
            for ext in a["hash_lines"]:
                if a["hash_lines"][ext] != b["hash_lines"][ext]:
                    d = [(x, y) for x, y in zip(a["hash_lines"][ext], b["hash_lines"][ext]) if x != y][:2]
                    raise Violation(f"hash-differs-between-processes/{ext}", f"the hash lines of the {ext} output differ between two processes: {d}", trace)
            # and they agree with this process
            h0, _ = digests(p)
            if h0 is not None and h0 != a["digests"]:
                raise Violation("hash-differs-between-processes/digest", "a fresh process and the check's own process computed different digests", trace)
            if res is not None:
                res.count("closures-in-two-processes")
                res.shape("processes", p.shape, p.import_coredefs, black)
    finally:
        shutil.rmtree(top, ignore_errors=True)


# ----------------------------------------------------------------------------------------------
# (e) the version field of outgoing headers

HDR = struct.Struct("<iiddhhhhiiiI")


def _attach(client):
    a, b = socket.socketpair()
    for s in (a, b):
        s.setsockopt(socket.SOL_SOCKET, socket.SO_SNDBUF, 1 << 20)
        s.setsockopt(socket.SOL_SOCKET, socket.SO_RCVBUF, 1 << 20)
    try:
        client._sock.close()
    except Exception:  # noqa
        pass
    if not hasattr(client, "_sock") or not hasattr(client, "_connected"):
        raise HarnessError("Client._sock/_connected seam is gone")
    client._sock = a
    client._connected = True
    b.settimeout(20)
    return a, b


def _read(b, n):
    buf = b""
    while len(buf) < n:
        chunk = b.recv(n - len(buf))
        if not chunk:
            raise HarnessError("socketpair peer closed")
        buf += chunk
    return buf


def check_core_stamping(res: Result = None):
    import pyrtma.core_defs as cd
    from pyrtma.client import Client

    # parser digests of the shipped core definitions
    empty = G.Program([G.FileSpec(path="root.yaml", null_sections=["imports"])], "root.yaml",
                      {"auto_pad": True, "validate_alignment": True, "import_coredefs": True})
    dg, out = digests(empty)
    if dg is None:
        raise HarnessError(f"core definitions do not parse: {out.exc}")
    classes = [getattr(cd, n) for n in sorted(dir(cd)) if n.startswith("MDF_") and isinstance(getattr(cd, n), type)]
    if len(classes) < 40:
        raise HarnessError("core message classes not found")
    for timecode in (False, True):
        c = Client(module_id=11, timecode=timecode)
        a, b = _attach(c)
        try:
            hs = 56 if timecode else 48
            for cls in classes:
                obj = cls()
                c.send_message(obj, dest_mod_id=0)
                f = HDR.unpack_from(_read(b, hs))
                _read(b, f[8])
                trace = {"stamp": "core", "cls": cls.__name__, "timecode": timecode}
                if f[0] != cls.type_id or f[8] != cls.type_size:
                    raise HarnessError(f"unexpected header for {cls.__name__}: {f}")
                if f[11] != cls.type_hash:
                    raise Violation("header-version-not-stamped", f"send_message({cls.__name__}) put {f[11]:#010x} into the header's version field "
                                    f"(timecode header: {timecode}); the class's type_hash is {cls.type_hash:#010x}", trace)
                name = cls.__name__[4:]
                if name in dg and int(dg[name][:8], 16) != cls.type_hash:
                    raise Violation("shipped-core-hash-differs-from-parser", f"shipped pyrtma.core_defs.{cls.__name__}.type_hash is {cls.type_hash:#010x}, "
                                    f"the parser's digest of core_defs.yaml starts with {dg[name][:8]}", trace)
                if res is not None:
                    res.count("headers-checked/core")
                    res.shape("stamp", "core", timecode, cls.type_size == 0)
        finally:
            a.close()
            b.close()


# ---- sequences of sends on ONE client ---------------------------------------------------------------------------

CORE_POOL = ["ACKNOWLEDGE", "EXIT", "CONNECT", "SUBSCRIBE", "MODULE_READY", "CLIENT_INFO", "FAILED_MESSAGE", "TIMING_MESSAGE",
             "MESSAGE_TRAFFIC", "RTMA_LOG"]
HAND_HASHES = {"HAND_A": 0x8A51C3D4, "HAND_B": 0x0BADF00D, "HAND_MAX": 0xFFFFFFFF, "HAND_ONE": 1, "HAND_EMPTY": 0x80000000}
V1_NAMES = ["V1_PAYLOAD", "V1_EMPTY"]
# revisions of one message: same type_id, different type_hash (and layout), as after regenerating a definitions module;
# SHADOW_* use the id of a shipped core message
REVISIONS = {"REV_A": ["REV_A1", "REV_A2"], "REV_B": ["REV_B1", "REV_B2", "REV_B3", "REV_B4"], "CONNECT": ["CONNECT", "SHADOW_CONNECT"],
             "ACKNOWLEDGE": ["ACKNOWLEDGE", "SHADOW_ACK"]}
REV_NAMES = ["REV_A1", "REV_A2", "REV_B1", "REV_B2", "REV_B3", "REV_B4", "SHADOW_CONNECT", "SHADOW_ACK"]
# revisions of a SIGNAL definition (payload-free classes sharing an id): send_signal(id) must stamp the hash of the definition
# registered for the id at the time of the call
SIGNAL_REVISIONS = [["REV_B3", "REV_B4"], ["ACKNOWLEDGE", "SHADOW_ACK"]]
# send_signal(id): ids of shipped core signal definitions (EXIT, ACKNOWLEDGE, DISCONNECT, LM_EXIT, DATA_LOGGER_START), ids of
# hand-defined classes (4005 HAND_EMPTY, 4202 REV_B*, 4201 REV_A*: a signal only when registered and payload-free) and ids
# nobody defines (1234, 9999)
SIGNAL_IDS = [0, 2, 14, 55, 73, 1234, 9999, 4005, 4202, 4201]
_POOL = None


def class_pool():
    """{name: class}: shipped core MDFs (with and without payload), hand-defined classes with explicit type_hash values and
    two hand-written V1-style classes that have NO type_hash attribute (MessageData only annotates it).  Not registered."""
    global _POOL
    if _POOL is None:
        import pyrtma.core_defs as cd
        from pyrtma.message_base import MessageMeta
        from pyrtma.message_data import MessageData
        from pyrtma.validators import Double, Int32

        pool = {n: getattr(cd, "MDF_" + n) for n in CORE_POOL}
        for i, (n, h) in enumerate(HAND_HASHES.items()):
            ns = {"type_id": 4001 + i, "type_name": n, "type_hash": h}
            if n != "HAND_EMPTY":
                ns.update({"type_size": 8, "a": Int32(), "b": Int32()} if i % 2 else {"type_size": 8, "val": Double()})
            else:
                ns["type_size"] = 0
            pool[n] = MessageMeta("MDF_" + n, (MessageData,), ns)
        pool["V1_PAYLOAD"] = MessageMeta("MDF_V1_PAYLOAD", (MessageData,), {"type_id": 4101, "type_name": "V1_PAYLOAD", "type_size": 8, "val": Double()})
        pool["V1_EMPTY"] = MessageMeta("MDF_V1_EMPTY", (MessageData,), {"type_id": 4102, "type_name": "V1_EMPTY", "type_size": 0})
        revs = {"REV_A1": (4201, 0x11111111, 8), "REV_A2": (4201, 0x22222222, 8), "REV_B1": (4202, 0xB1B1B1B1, 8), "REV_B2": (4202, 0x0000B2B2, 16),
                "REV_B3": (4202, 0xB3000000, 0), "REV_B4": (4202, 0x00B4B4B4, 0), "SHADOW_CONNECT": (cd.MDF_CONNECT.type_id, 0x5AD0C011, 8), "SHADOW_ACK": (cd.MDF_ACKNOWLEDGE.type_id, 0x5AD00ACC, 0)}
        for n, (tid, h, size) in revs.items():
            ns = {"type_id": tid, "type_name": n, "type_hash": h, "type_size": size}
            if size >= 8:
                ns["val"] = Double()
            if size == 16:
                ns["a"], ns["b"] = Int32(), Int32()
            pool[n] = MessageMeta("MDF_" + n, (MessageData,), ns)
        for n in V1_NAMES:
            if hasattr(pool[n], "type_hash"):
                raise HarnessError(f"hand-written class {n} unexpectedly has a type_hash")
        for n, c in pool.items():
            if n not in V1_NAMES and not hasattr(c, "type_hash"):
                raise HarnessError(f"class {n} has no type_hash")
        _POOL = pool
    return _POOL


SEND_NAMES = CORE_POOL + list(HAND_HASHES) + V1_NAMES + REV_NAMES
REGISTER_NAMES = REV_NAMES + ["CONNECT", "ACKNOWLEDGE", "HAND_A", "HAND_EMPTY"]


def run_sequence(timecode: bool, ops: list, res: Result = None):
    """ops: [["send", class name] | ["signal", id] | ["register", class name], ...] executed on ONE client attached to a
    socketpair; every header is read on the peer end.  ``register`` applies pyrtma.message_def to the class (the registry is
    restored afterwards).  version must equal the type_hash of the instance's OWN class for every class that has one, whatever
    was sent before and whichever class is registered for its type_id (none, itself, another revision); send_message must not
    raise for a valid message.  For a class without type_hash and for send_signal the version field is a don't-care."""
    import ctypes
    import warnings
    import pyrtma
    import pyrtma.message as pm
    from pyrtma.client import Client

    if not hasattr(pm, "_msg_defs"):
        raise HarnessError("seam pyrtma.message._msg_defs is gone")
    pool = class_pool()
    trace = {"stamp": "sequence", "timecode": timecode, "ops": ops}
    saved = dict(pm._msg_defs)
    c = Client(module_id=11, timecode=timecode)
    a, b = _attach(c)
    hs = 56 if timecode else 48
    seen_v1 = False
    try:
        with warnings.catch_warnings():
            warnings.simplefilter("ignore")
            for k, (kind, arg) in enumerate(ops):
                if kind == "signal":
                    holder = pm._msg_defs.get(int(arg))
                    try:
                        c.send_signal(int(arg))
                    except Exception as e:  # noqa
                        raise Violation(f"send-signal-raised/{type(e).__name__}", f"step #{k + 1}: send_signal({arg}) raised {type(e).__name__}: {str(e)[:120]}", trace)
                    f = HDR.unpack_from(_read(b, hs))
                    if f[0] != int(arg) or f[8] != 0:
                        raise HarnessError(f"unexpected header for send_signal({arg}): {f}")
                    # a signal DEFINITION known to this process (registered class without payload) has a version hash; the header
                    # of that signal must carry it whichever call sends it.  Ids without a definition (or whose definition has a
                    # payload: sending a bare header is the caller's mistake) are don't-cares.
                    th = getattr(holder, "type_hash", None) if holder is not None else None
                    if isinstance(th, int) and ctypes.sizeof(holder) == 0:
                        rereg = sum(1 for o in ops[:k] if o[0] == "register" and pool[o[1]].type_id == int(arg))
                        sent_before = any(o[0] == "signal" and int(o[1]) == int(arg) for o in ops[:k])
                        if f[11] != th:
                            # own bucket (and a self-contained trace) for: the id was sent before and registered again since
                            raise Violation("header-version-not-stamped/send_signal" + ("/after-the-id-was-registered-again" if rereg and sent_before else ""), f"step #{k + 1} (timecode header: {timecode}): send_signal({arg}) put "
                                            f"{f[11]:#010x} into the version field; id {arg} is the signal definition {holder.__name__} whose type_hash is "
                                            f"{th:#010x} (send_message({holder.__name__}()) stamps it); before: {[f'{o[0]} {o[1]}' for o in ops[:k]]}", trace)
                        if res is not None:
                            res.count("headers-checked/send_signal-of-defined-signal")
                            if rereg and sent_before:
                                res.count("headers-checked/send_signal-after-its-id-was-registered-again")
                            res.shape("send_signal", timecode, "core" if int(arg) < 100 else "hand", min(k, 4), min(rereg, 2), sent_before)
                    continue
                cls = pool[arg]
                if kind == "register":
                    pyrtma.message_def(cls)
                    continue
                obj = cls()
                holder = pm._msg_defs.get(cls.type_id)
                reg = "unregistered" if holder is None else ("own" if holder is cls else "other")
                history = [f"{o[0]} {o[1]}" for o in ops[:k]]
                try:
                    c.send_message(obj)
                except Exception as e:  # noqa
                    raise Violation(f"send-message-raised/{type(e).__name__}", f"step #{k + 1} on one client: send_message({arg}) raised "
                                    f"{type(e).__name__}: {str(e)[:120]} (class registered for its id {cls.type_id}: {reg}); before: {history}", trace)
                f = HDR.unpack_from(_read(b, hs))
                _read(b, f[8])
                if f[0] != cls.type_id or f[8] != ctypes.sizeof(obj):
                    raise HarnessError(f"unexpected header for {arg}: {f}")
                if arg in V1_NAMES:
                    seen_v1 = True
                    continue
                if f[11] != cls.type_hash:
                    key = ("header-version-not-stamped/another-class-registered-for-the-id" if reg == "other" else
                           "header-version-not-stamped/after-earlier-sends" if k else "header-version-not-stamped")
                    whose = f" (that is the type_hash of {holder.__name__}, the class registered for id {cls.type_id})" if reg == "other" and getattr(holder, "type_hash", None) == f[11] else ""
                    raise Violation(key, f"step #{k + 1} on one client (timecode header: {timecode}): send_message({arg}) put {f[11]:#010x} into the "
                                    f"version field{whose}, its own type_hash is {cls.type_hash:#010x}; before on this client: {history}", trace)
                if res is not None:
                    res.count("headers-checked/sequence")
                    res.count("sequence/send-while-id-registered-to/" + reg)
                    if seen_v1:
                        res.count("sequence/hashed-send-after-hashless-send")
                    if seen_v1 or reg == "other":
                        res.shape("sequence", timecode, "core" if arg in CORE_POOL else ("revision" if arg in REV_NAMES else "hand"), cls.type_size == 0,
                                  sum(1 for o in ops[:k] if o[1] in V1_NAMES) > 1, any(o[0] == "signal" for o in ops[:k]), min(k, 6), reg, seen_v1)
    finally:
        a.close()
        b.close()
        pm._msg_defs.clear()
        pm._msg_defs.update(saved)
    if res is not None:
        res.count("send-sequences")


def st_sequences():
    op = st.one_of(
        st.tuples(st.just("send"), st.sampled_from(SEND_NAMES)),
        st.tuples(st.just("send"), st.sampled_from(V1_NAMES)),  # hash-less classes at a higher rate
        st.tuples(st.just("signal"), st.sampled_from(SIGNAL_IDS)),
        st.tuples(st.just("register"), st.sampled_from(REGISTER_NAMES)),
        st.tuples(st.just("send"), st.sampled_from(REV_NAMES + ["CONNECT", "ACKNOWLEDGE"])),  # classes that share an id
        # re-registration of a signal id between two send_signal calls of it
        st.tuples(st.just("register"), st.sampled_from([n for g in SIGNAL_REVISIONS for n in g])),
        st.tuples(st.just("signal"), st.sampled_from([2, 4202])),
    )
    return st.tuples(st.booleans(), st.lists(op, min_size=3, max_size=10))


def _collect(timecode, ops, res):
    try:
        run_sequence(timecode, ops, res)
    except Violation as v:  # every root cause of the table is reported, not only the first
        res.add_finding(v.key, v.what, v.trace)


def sequence_table(res: Result):
    """Deterministic part: each hash-less class followed by every class with a hash (and the reverse), both header layouts."""
    hashed = CORE_POOL + list(HAND_HASHES)
    for timecode in (False, True):
        for v1 in V1_NAMES:
            ops = [["send", hashed[0]], ["send", v1]] + [["send", n] for n in hashed] + [["signal", 1234], ["send", v1]] + [["send", n] for n in reversed(hashed)]
            res.evaluations += 1
            _collect(timecode, ops, res)
        # revisions sharing a type_id: both registration orders, sends before and after the second registration,
        # plus a class that is registered nowhere
        for group in REVISIONS.values():
            for x in group:
                for y in group:
                    if x == y:
                        continue
                    for ops in ([["register", x], ["register", y], ["send", x], ["send", y], ["send", "HAND_B"], ["send", x]],
                                [["register", x], ["send", x], ["register", y], ["send", x], ["send", y], ["send", "HAND_ONE"]],
                                [["send", x], ["send", y], ["register", y], ["send", x]]):
                        res.evaluations += 1
                        _collect(timecode, ops, res)
        # a signal id whose definition is replaced between two send_signal calls (and back): every header carries the hash of
        # the definition registered at that moment, also after send_message of either revision
        pool = class_pool()
        for group in SIGNAL_REVISIONS:
            for x in group:
                for y in group:
                    if x == y:
                        continue
                    sid = pool[x].type_id
                    for ops in ([["register", x], ["signal", sid], ["register", y], ["signal", sid], ["send", y], ["register", x], ["signal", sid]],
                                [["register", x], ["send", x], ["signal", sid], ["send", "HAND_A"], ["register", y], ["signal", sid], ["signal", sid]]):
                        res.evaluations += 1
                        res.count("signal-revision-sequences")
                        _collect(timecode, ops, res)


CHILD_E = r"""
import sys, json, socket, struct, importlib.util, logging
logging.disable(logging.CRITICAL)
path = sys.argv[1]; timecode = sys.argv[2] == "1"
import pyrtma
from pyrtma.client import Client
spec = importlib.util.spec_from_file_location("gen_defs", path); mod = importlib.util.module_from_spec(spec); sys.modules["gen_defs"] = mod
spec.loader.exec_module(mod)
a, b = socket.socketpair()
for s in (a, b):
    s.setsockopt(socket.SOL_SOCKET, socket.SO_SNDBUF, 1 << 20); s.setsockopt(socket.SOL_SOCKET, socket.SO_RCVBUF, 1 << 20)
b.settimeout(20)
c = Client(module_id=11, timecode=timecode)
c._sock.close(); c._sock = a; c._connected = True
hs = 56 if timecode else 48
out = {}
def rd(n):
    buf = b""
    while len(buf) < n:
        ch = b.recv(n - len(buf))
        if not ch: raise SystemExit("peer closed")
        buf += ch
    return buf
for n in dir(mod):
    cls = getattr(mod, n)
    if n.startswith("MDF_") and isinstance(cls, type) and cls.__module__ == "gen_defs":
        c.send_message(cls())
        f = struct.unpack_from("<iiddhhhhiiiI", rd(hs)); rd(f[8])
        th = cls.__dict__.get("type_hash", getattr(cls, "type_hash", None))
        out[n[4:]] = {"version": f[11], "msg_type": f[0], "type_hash": th if isinstance(th, int) else repr(th), "type_id": cls.type_id}
        import ctypes
        if ctypes.sizeof(cls) == 0 and pyrtma.message._msg_defs.get(cls.type_id) is cls:
            c.send_signal(cls.type_id)
            g = struct.unpack_from("<iiddhhhhiiiI", rd(hs)); rd(g[8])
            out[n[4:]]["signal_version"] = g[11]
print("RESULT" + json.dumps(out))
"""


def check_generated_stamping(p: G.Program, res: Result = None, timecode: bool = False):
    import pyrtma.compile as pc

    trace = {"stamp": "generated", "program": p.to_json(), "timecode": timecode}
    d = G.scratch_dir("c13stamp")
    try:
        out = G.parse_program(p, dirpath=os.path.join(d, "src"))
        if not out.ok:
            if res is not None:
                res.inconclusive += 1
            return
        dg = {n: m.hash for n, m in out.parser.message_defs.items()}
        outdir = os.path.join(d, "out")
        os.makedirs(outdir)
        try:
            pc.compile(defs_files=[out.root], out_dir=outdir, out_name="gen", python=True, **p.compile_kwargs())
            r = subprocess.run([sys.executable, "-c", CHILD_E, os.path.join(outdir, "gen.py"), "1" if timecode else "0"], cwd=d,
                               env=_child_env(7), capture_output=True, text=True, stdin=subprocess.DEVNULL, timeout=300)
        except subprocess.TimeoutExpired:
            if res is not None:
                res.inconclusive += 1
            return
        except Exception as e:  # noqa
            if res is not None:
                res.inconclusive += 1
                res.count("inconclusive/compile-failed/" + type(e).__name__)
            return
        m = re.search(r"^RESULT(.*)$", r.stdout, re.M)
        if r.returncode != 0 or not m:
            # the generated module does not load: that is C15's subject
            if res is not None:
                res.inconclusive += 1
                res.count("inconclusive/generated-module-not-loadable")
            return
        got = json.loads(m.group(1))
        user = [n for n in message_sigs(p)]
        for n in user:
            if n not in got:
                raise Violation("generated-class-missing", f"the generated Python module has no class MDF_{n}", trace)
        for n, g in got.items():
            want = int(dg[n][:8], 16)
            if g["version"] != want:
                th = f"{g['type_hash']:#010x}" if isinstance(g["type_hash"], int) else g["type_hash"]
                raise Violation("header-version-not-stamped", f"send_message(MDF_{n}) of the generated module put {g['version']:#010x} into the "
                                f"header's version field (class attribute type_hash: {th}); the parser's digest starts with {dg[n][:8]}", trace)
            if "signal_version" in g and g["signal_version"] != want:
                raise Violation("header-version-not-stamped/send_signal", f"send_signal({g['type_id']}) for the generated signal definition {n} put "
                                f"{g['signal_version']:#010x} into the header's version field; the parser's digest starts with {dg[n][:8]} "
                                f"(send_message(MDF_{n}()) stamps {g['version']:#010x})", trace)
            if res is not None:
                res.count("headers-checked/generated")
                res.shape("stamp", "generated", timecode, msg_shape(p, n) if n in user else ("core",))
    finally:
        shutil.rmtree(d, ignore_errors=True)


# ---- editions of one definition loaded into ONE interpreter ----------------------------------------------------------------------

CHILD_ED = r"""
import sys, json, socket, struct, importlib.util, logging, warnings
logging.disable(logging.CRITICAL)
warnings.simplefilter("ignore")
jobs = json.load(open(sys.argv[1]))
import pyrtma
from pyrtma.client import Client
a, b = socket.socketpair()
for s in (a, b):
    s.setsockopt(socket.SOL_SOCKET, socket.SO_SNDBUF, 1 << 20); s.setsockopt(socket.SOL_SOCKET, socket.SO_RCVBUF, 1 << 20)
b.settimeout(20)
c = Client(module_id=11, timecode=bool(jobs["timecode"]))
c._sock.close(); c._sock = a; c._connected = True
hs = 56 if jobs["timecode"] else 48
def rd(n):
    buf = b""
    while len(buf) < n:
        ch = b.recv(n - len(buf))
        if not ch: raise SystemExit("peer closed")
        buf += ch
    return buf
def look(mod, names):
    out = {}
    for n in names:
        cls = getattr(mod, "MDF_" + n, None)
        if not isinstance(cls, type):
            out[n] = None
            continue
        th = getattr(cls, "type_hash", None)
        e = {"type_hash": th if isinstance(th, int) else repr(th), "type_id": getattr(cls, "type_id", None), "module": cls.__module__}
        try:
            c.send_message(cls())
            f = struct.unpack_from("<iiddhhhhiiiI", rd(hs)); rd(f[8])
            e["version"], e["msg_type"] = f[11], f[0]
        except Exception as x:
            e["error"] = type(x).__name__ + ": " + str(x)[:120]
        out[n] = e
    return out
res = []
loaded = []
for k, job in enumerate(jobs["modules"]):
    try:
        spec = importlib.util.spec_from_file_location(job["mod"], job["path"]); mod = importlib.util.module_from_spec(spec); sys.modules[job["mod"]] = mod
        spec.loader.exec_module(mod)
    except BaseException as x:
        res.append({"mod": job["mod"], "import_error": type(x).__name__ + ": " + str(x)[:200]})
        continue
    loaded.append((job, mod))
    # the module just imported, and every module imported before it (their classes must still be what they were)
    res.append({"mod": job["mod"], "after": job["mod"], "seen": look(mod, job["names"])})
    for j2, m2 in loaded[:-1]:
        if j2["pair"] == job["pair"]:
            res.append({"mod": j2["mod"], "after": job["mod"], "seen": look(m2, j2["names"])})
print("RESULT" + json.dumps(res))
"""


def make_editions(ch: G.Chooser, core: bool = False):
    """-> (first, second) or None: a closure and its layout-preserving re-edition (vlib.defgen_hist.layout_preserving_edit)."""
    for _ in range(6):
        base = G.build_program(ch, import_coredefs=core, auto_pad=True, validate_alignment=True, min_messages=2, max_files=3, allow=ALLOW[:4])
        q = H.layout_preserving_edit(base, ch)
        if q is not None:
            return base, q
    return None


def demo_editions():
    """The smallest pair: one message, every field retyped by a synonym (int -> int32, unsigned -> uint32, short -> int16)."""
    F = G.FieldSpec
    def prog(t1, t2, t3, ln):
        d = G.Def("message", "SAMPLE_COUNT", "root.yaml", id=4321, fields=[F("first", t1, t1), F("count", t1, t1), F("mask", t2, t2), F("step", f"{t3}[{ln}]", t3, 4, ln)])
        c = G.Def("constant", "N_STEP", "root.yaml", value=4, text="4")
        return G.Program([G.FileSpec(path="root.yaml", defs=[c, d])], "root.yaml", {"auto_pad": True, "validate_alignment": True, "import_coredefs": False})
    a, b = prog("int", "unsigned int", "short", "N_STEP"), prog("int32", "uint32", "int16", "4")
    b.edited = {"kind": "layout-preserving", "names": ["SAMPLE_COUNT"], "old": "SAMPLE_COUNT", "new": "SAMPLE_COUNT", "what": "int -> int32, unsigned int -> uint32, short[N_STEP] -> int16[4]"}
    return a, b


def check_editions(pairs, res: Result = None, timecode: bool = False):
    """pairs: [(first, second, second_is_imported_first)]; every pair is two editions of one closure that differ in the definition
    text of 1-2 messages only (same names, ids, sizes, ctypes layouts).  All modules are imported by ONE fresh interpreter, pair after
    pair; a module's MDF_<name> must carry (type_hash) and send (header.version) the digest prefix of its OWN edition."""
    import pyrtma.compile as pc

    d = G.scratch_dir("c13ed")
    try:
        modules, want, traces = [], {}, {}
        for k, (p1, p2, swap) in enumerate(pairs):
            trace = {"stamp": "editions", "first": p1.to_json(), "second": p2.to_json(), "swap": bool(swap), "timecode": timecode}
            ok = True
            jobs = []
            for tag, p in (("first", p1), ("second", p2)):
                out = G.parse_program(p, dirpath=os.path.join(d, f"src{k}_{tag}"))
                if not out.ok:
                    ok = False
                    break
                mod = f"ed{k}_{tag}"
                outdir = os.path.join(d, f"out{k}_{tag}")
                os.makedirs(outdir)
                try:
                    pc.compile(defs_files=[out.root], out_dir=outdir, out_name=mod, python=True, **p.compile_kwargs())
                except Exception as e:  # noqa  emission failures belong to C15
                    ok = False
                    if res is not None:
                        res.count("inconclusive/compile-failed/" + type(e).__name__)
                    break
                names = sorted(message_sigs(p))
                want[mod] = {n: int(out.parser.message_defs[n].hash[:8], 16) for n in names}
                traces[mod] = (trace, p2.edited or {}, tag)
                jobs.append({"mod": mod, "path": os.path.join(outdir, mod + ".py"), "names": names, "pair": k})
            if not ok:
                if res is not None:
                    res.inconclusive += 1
                continue
            modules += list(reversed(jobs)) if swap else jobs
        if not modules:
            return
        jf = os.path.join(d, "jobs.json")
        with open(jf, "w") as f:
            json.dump({"modules": modules, "timecode": timecode}, f)
        try:
            r = subprocess.run([sys.executable, "-c", CHILD_ED, jf], cwd=d, env=_child_env(11), capture_output=True, text=True, stdin=subprocess.DEVNULL, timeout=300)
        except subprocess.TimeoutExpired:
            if res is not None:
                res.inconclusive += 1
            return
        m = re.search(r"^RESULT(.*)$", r.stdout, re.M)
        if r.returncode != 0 or not m:
            if res is not None:
                res.inconclusive += 1
                res.count("inconclusive/editions-child-failed")
                res.notes.append(("editions child failed: " + r.stderr[-300:]).replace("\n", " | "))
            return
        for rec in json.loads(m.group(1)):
            mod = rec["mod"]
            trace, edited, tag = traces[mod]
            if "import_error" in rec:
                if res is not None:  # a module that does not load is C15's subject
                    res.inconclusive += 1
                    res.count("inconclusive/generated-module-not-loadable")
                continue
            other = rec["after"] != mod
            pair = next(j["pair"] for j in modules if j["mod"] == mod)
            first_mod = next(j["mod"] for j in modules if j["pair"] == pair)
            situation = "earlier-module-after-the-later-import" if other else ("imported-first" if mod == first_mod else "imported-second")
            when = {"earlier-module-after-the-later-import": f"imported first, looked at again after the module of the other edition ({rec['after']}) was imported",
                    "imported-first": "imported first", "imported-second": f"imported after the module of the other edition ({first_mod})"}[situation]
            second_loaded = situation != "imported-first"
            for n, g in rec["seen"].items():
                w = want[mod][n]
                touched = n in (edited.get("names") or [])
                tail = f" [editions differ in: {edited.get('what', '')[:200]}]" if touched else ""
                if g is None:
                    raise Violation("generated-class-missing", f"module {mod} ({tag} edition, {when}) has no class MDF_{n}", trace)
                if g.get("error"):
                    raise Violation("send-message-raised/editions", f"send_message({mod}.MDF_{n}()) raised {g['error']} ({tag} edition, {when})", trace)
                if g["type_hash"] != w:
                    th = f"{g['type_hash']:#010x}" if isinstance(g["type_hash"], int) else g["type_hash"]
                    raise Violation("type-hash-of-another-edition" if second_loaded else "generated-type-hash-differs", f"{mod}.MDF_{n}.type_hash is {th} ({tag} edition, {when}; the class "
                                    f"object belongs to module {g['module']}); the parser's digest of this edition's definition starts with {w:08x}{tail}", trace)
                if g["version"] != w:
                    raise Violation("header-version-of-another-edition" if second_loaded else "header-version-not-stamped", f"send_message({mod}.MDF_{n}()) put {g['version']:#010x} into the "
                                    f"header's version field ({tag} edition, {when}); the parser's digest of this edition's definition starts with {w:08x}{tail}", trace)
                if res is not None:
                    res.count("headers-checked/editions")
                    if touched:
                        res.count("headers-checked/editions/of-a-message-whose-text-differs-between-the-editions")
                        res.shape("editions", tag, situation, timecode)
                        res.count("editions/" + situation)
        if res is not None:
            res.count("edition-pairs", len(pairs))
    finally:
        shutil.rmtree(d, ignore_errors=True)


# ----------------------------------------------------------------------------------------------
# near misses: definitions that must be rejected because a field uses a reserved name


def check_nearmiss(p: G.Program, res: Result = None):
    """p is expected to be rejected (p.expected_error).  A rejection is only counted.  If the compiler ACCEPTS it, the accepted
    definition set is subject to the property like any other: (d) the four outputs carry the parser's digest prefix for every
    message, (e) instances of the generated classes carry it in the header's version field."""
    out = G.parse_program(p)
    cls = next((c for c in p.classes if c.startswith("reserved-field-name/")), "near-miss")
    if not out.ok:
        if res is not None:
            res.count("near-miss/rejected" if out.outcome == p.expected_error else f"near-miss/rejected-with-{out.outcome}")
            res.count("near-miss/" + cls)
        return
    if res is not None:
        res.count("near-miss/ACCEPTED/" + cls)
    try:
        check_outputs(p, res)
        check_generated_stamping(p, res)
    except Violation as v:
        raise Violation(v.key, f"[a definition with a field named {p.expect.get('field')!r} in {p.expect.get('at')} - a reserved name, rejected "
                        f"by the reference compiler - was accepted] {v.what}", {"stamp": "near-miss", "program": p.to_json()})


def core_defs_dir_program(core: bool) -> G.Program:
    """A user closure whose own directories are called ``core_defs`` (like the package's): root imports ./core_defs/extra.yaml,
    which imports ../lib/core_defs/more.yaml; every message of every file must appear with its hash in all four outputs."""
    F = G.FieldSpec
    more = G.FileSpec(path="lib/core_defs/more.yaml", defs=[G.Def("message", "DEEP_SAMPLE", "lib/core_defs/more.yaml", id=1203, fields=[F("a", "double", "double")]),
                                                            G.Def("signal", "DEEP_SIGNAL", "lib/core_defs/more.yaml", id=1204)])
    extra = G.FileSpec(path="core_defs/extra.yaml", imports=[["../lib/core_defs/more.yaml", "lib/core_defs/more.yaml"]],
                       defs=[G.Def("constant", "EXTRA_LEN", "core_defs/extra.yaml", value=4, text="4"),
                             G.Def("struct", "EXTRA_REC", "core_defs/extra.yaml", fields=[F("v", "int32[EXTRA_LEN]", "int32", 4, "EXTRA_LEN")]),
                             G.Def("message", "EXTRA_DATA", "core_defs/extra.yaml", id=1201, fields=[F("r", "EXTRA_REC", "EXTRA_REC"), F("d", "DEEP_SAMPLE", "DEEP_SAMPLE")]),
                             G.Def("signal", "EXTRA_GO", "core_defs/extra.yaml", id=1202)])
    root = G.FileSpec(path="root.yaml", imports=[["./core_defs/extra.yaml", "core_defs/extra.yaml"]],
                      defs=[G.Def("message", "ROOT_MSG", "root.yaml", id=1200, fields=[F("e", "EXTRA_DATA", "EXTRA_DATA"), F("n", "uint8[8]", "uint8", 8, "8")])])
    p = G.Program([root, extra, more], "root.yaml", {"auto_pad": True, "validate_alignment": True, "import_coredefs": core}, "chain", {"dir-core_defs"})
    if p.problems():
        raise HarnessError("core_defs directory closure is not well-formed: " + "; ".join(p.problems()[:3]))
    return p


def nearmiss_case(k: int) -> G.Program:
    names = list(G.RESERVED_FIELD_NAMES)
    base = G.random_program(500 + k, import_coredefs=False, auto_pad=True, validate_alignment=True, min_messages=2, max_files=3)
    return G.add_reserved_field_name(base, G.RandomChooser(k), name=names[k % len(names)], kinds=("message",) if k < len(names) else ("struct",))


# ----------------------------------------------------------------------------------------------


def shard(idx: int, seed: int, n_meta: int, out_every: int, n_proc: int, n_stamp: int, black: bool, n_seq: int = 100, quick: bool = True):
    G.quiet()
    res = Result()
    counter = {"n": 0}

    def body(case):
        counter["n"] += 1
        check_meta(case, res)
        res.evaluations += len(case.variants)  # every variant is one evaluated metamorphic pair (base, variant)
        if counter["n"] % out_every == 0:
            check_outputs(case.base, res)
            if case.variants:
                check_outputs(case.variants[-1][1], res)

    sb = G.ShrinkBudget(15)
    hyp_run(sb.body(body), sb.wrap(meta_cases()), seed, n_meta, res)
    rnd = G.RandomChooser(seed + 5)
    collect = []
    try:
        # outputs with the core definitions imported (core messages appear in Python / JS / MATLAB)
        for k in range(1 if idx % 4 else 2):
            res.evaluations += 1
            check_outputs(G.build_program(rnd, import_coredefs=True, min_messages=2, allow=ALLOW + ("cross-namespace-names",)), res)
        if idx in (5, 6):
            # messages and signals called like core module ids / host ids, module and host ids called like core messages (names are
            # unique per namespace): every one of them has its hash in all four outputs
            res.evaluations += 1
            check_outputs(G.build_cross_namespace_cover_program(idx == 5), res)
            res.count("cross-namespace-cover-closures-compiled")
        if idx % 4 == 3 or not quick:
            # identifiers of every length in the covering set {1, 2, 31, 32, 40, 45, 46, 47, 48, 63} (and two drawn ones) for
            # messages, signals, structs, constants, module and host ids: the outputs pad names to fixed column widths
            res.evaluations += 1
            cover = G.build_name_cover_program(rnd, import_coredefs=(idx == 3))
            check_outputs(cover, res)
            res.count("name-cover-closures-compiled")
            for n in G.COVER_NAME_LENGTHS:
                res.shape("output-name-length", n, idx == 3)
        progs = [G.build_program(rnd, import_coredefs=(k % 3 == 0), min_messages=2, allow=ALLOW) for k in range(n_proc)]
        if progs:
            res.evaluations += len(progs)
            check_processes(progs, res, black=False)
            if black:
                check_processes(progs[:1], res, black=True)
        for k in range(n_stamp):
            res.evaluations += 1
            check_generated_stamping(G.build_program(rnd, import_coredefs=(k % 2 == 0), auto_pad=True, min_messages=2, allow=ALLOW), res, timecode=bool((k + idx) % 2))
        if idx == 0:
            res.evaluations += 1
            check_core_stamping(res)
        if idx == 1:
            sequence_table(res)
        if idx % 4 == 0 or not quick:
            # two editions of a closure (same names, ids and memory layouts, other definition text of 1-2 messages) imported by ONE
            # interpreter, several pairs one after the other, either import order
            pairs = []
            if idx == 0:
                a, b = demo_editions()
                pairs += [(a, b, False), (a, b, True)]
            for k in range(3 if quick else 8):
                e = make_editions(rnd, core=(k == 0 and idx % 8 == 0))
                if e is not None:
                    pairs.append((e[0], e[1], k % 2 == 1))
            res.evaluations += len(pairs)
            check_editions(pairs, res, timecode=bool(idx % 8))
        # every reserved field name in a message (shards 0-6) and in a struct (7-13)
        if idx % 4 == 2 or not quick:
            # definitions named <table>_<rest> for every output table / prefix of the four back ends (hash_, HASH_, MT_, MID_, HID_,
            # MDF_, SDF_, typedefs_, defines_, constants_, aliases_ ...), with and without another definition named <rest>
            res.evaluations += 1
            check_outputs(G.build_prefix_cover_program(rnd, import_coredefs=(idx == 2)), res)
            res.count("prefix-cover-closures-compiled")
            for pre in G.TABLE_PREFIXES:
                res.shape("output-table-prefix", pre, idx == 2)
        if idx % 4 == 0:
            res.evaluations += 1
            check_outputs(core_defs_dir_program(idx == 0), res)
            res.count("core_defs-directory-closures-compiled")
        if idx < 2 * len(G.RESERVED_FIELD_NAMES):
            res.evaluations += 1
            q = nearmiss_case(idx)
            if q is not None:
                check_nearmiss(q, res)
    except Violation as v:
        res.add_finding(v.key, v.what, v.trace)
    hyp_run(lambda v: run_sequence(v[0], [list(o) for o in v[1]], res), st_sequences(), seed + 9, n_seq, res)
    sb = G.ShrinkBudget(10)
    hyp_run(sb.body(lambda p: check_nearmiss(p, res) if p.expected_error else None),
            sb.wrap(G.programs(allow=("reserved-field-name",), import_coredefs=False, auto_pad=True, max_files=3)), seed + 11, max(1, n_seq // 10), res)
    return res


def run(ctx: RunContext) -> int:
    t0 = time.time()
    n_meta = ctx.scale(40, 1500)
    q = ctx.quick
    # subprocess cases (two fresh interpreters per batch; a fresh interpreter per generated module) are kept to a handful in quick
    res = run_shards(shard, [(i, derive_seed(ctx.seed, i), n_meta, 6 if q else 3, (3 if i % 4 == 1 else 0) if q else ctx.scale(3, 20),
                              (1 if i % 4 >= 2 else 0) if q else ctx.scale(2, 12), (not q) and i < 4, ctx.scale(100, 5000), q) for i in range(16)])
    return conclude(ctx, res, RULE, ASSUME, t0)


def replay_trace(trace: dict):
    G.quiet()
    if "outputs" in trace:
        # (a failure of the recompilation step is replayed from the closure that was compiled first)
        check_outputs(G.Program.from_json(trace.get("recompiled-into-the-directory-of") or trace["outputs"]))
    elif "processes" in trace:
        check_processes([G.Program.from_json(trace["processes"])], black=trace.get("black", False))
    elif trace.get("stamp") == "near-miss":
        check_nearmiss(G.Program.from_json(trace["program"]))
    elif trace.get("stamp") == "sequence":
        run_sequence(trace["timecode"], trace["ops"])
    elif trace.get("stamp") == "core":
        check_core_stamping()
    elif trace.get("stamp") == "editions":
        check_editions([(G.Program.from_json(trace["first"]), G.Program.from_json(trace["second"]), trace.get("swap", False))], timecode=trace.get("timecode", False))
    elif trace.get("stamp") == "generated":
        check_generated_stamping(G.Program.from_json(trace["program"]), timecode=trace.get("timecode", False))
    elif "base" in trace:
        base = G.Program.from_json(trace["base"])
        vs = [(trace["op"], G.Program.from_json(trace["variant"]))] if "variant" in trace else []
        check_meta(MetaCase(base, vs))
    else:
        raise HarnessError("unknown trace")
