"""C05 - per-connection order, whole frames, gap-free sequence numbers."""
from vlib.mgen import CLOSE, CONNECT, DISCONNECT, FAULT, OPEN, PUB, READY, SETNAME, SLOW, STEP, SUB, Profile
from vlib.simcheck import SimCheck

RULE = ("Hypothesis-generated histories (profile 'ordering': bursts from several publishers, payload sizes 0/small/65535, "
        "acknowledged control traffic, unwritable subscribers producing FAILED_MESSAGE, clock jumps producing TIMING/TRAFFIC/"
        "ACTIVE_CLIENTS on the same connections; and profile 'ordering-faults': the same while writes to other subscribers fail "
        "in the middle of a fan-out - peer gone with EPIPE/ECONNRESET/delayed failure, injected failure at a byte offset) run on the real manager over the in-memory network. Oracles: every byte stream "
        "the manager wrote parses into whole frames with nothing left over after every round; msg_count is 1,2,3,... per connection "
        "over all frame kinds; per receiver the messages of one sender arrive in send order; any two receivers see their common "
        "messages in the same relative order (manager-originated messages with a payload - log records at debug/info level, notices - "
        "included, identified by their bytes; profile 'ordering-notices': three observers of all types, two of them logger modules, while "
        "subscribers are frequently outside the writable snapshot - a message and the FAILED_MESSAGE notices about it in the same order everywhere). Plus long runs: one connection receives 66000 (thorough 140000) frames in each header "
        "layout and msg_count must still count 1..n. Non-trivial = a connection that received >=3 frames of >=2 kinds, or two receivers "
        "sharing >=2 messages from >=2 senders; distinct = (kinds multiset class, count class) / (common count, sender count).")

ORDERING = Profile(
    name="ordering",
    oracles={"order", "framing", "routing"},
    weights={STEP: 8, PUB: 16, SUB: 6, CONNECT: 2, OPEN: 1, DISCONNECT: 1, CLOSE: 1, READY: 1, SETNAME: 1, SLOW: 2},
    types=[1234, 5000, 8, 80, 33, 32, 30, 31, 0, 2, 9999, 10000, -1, 42, 45, 44],
    sizes=[0, 8, 65535, 1, 64, 4096, 7, 100000, 65536],  # the manager accepts payloads up to 1 MiB
    max_pending_pubs=12,
    writable_all_bias=2,
    p_logger=4,
)


# the same oracles while writes to *other* connections fail in the middle of a fan-out (peer gone, injected
# failure at a byte offset): every surviving connection must still see whole frames, gap-free numbers, order
ORDERING_FAULTS = Profile(
    name="ordering-faults",
    oracles={"order", "framing", "routing"},
    weights={STEP: 8, PUB: 16, SUB: 6, CONNECT: 3, OPEN: 2, DISCONNECT: 1, CLOSE: 5, FAULT: 2, READY: 1},
    types=[1234, 5000, 33, 8, 32, 0, 9999],
    sizes=[0, 8, 64, 4096, 1, 7],
    close_modes=["epipe", "reset", "first-ok", "silent"],
    max_pending_pubs=10,
    writable_all_bias=2,
    p_logger=4,
    dts=[0.0],
    max_conns=8,
)


# notices next to the messages they are about: three observers of everything (two of them logger modules, which the manager
# waits for when they are not writable) while other subscribers are frequently outside the writable snapshot - every receiver
# must see a message and the FAILED_MESSAGE notices it caused in the same relative order
_ALLT = 0x7FFFFFFF
_OBSERVERS = []
for _c, (_id, _lg) in enumerate([(90, 1), (91, 1), (92, 0)]):
    _OBSERVERS += [{"op": "open"}, {"op": "connect", "c": _c, "ver": "v2v1", "id": _id, "logger": _lg, "daemon": 0, "multi": 0,
                                    "name": f"obs{_c}", "pid": 900 + _c},
                   {"op": "sub", "c": _c, "kind": "SUBSCRIBE", "type": _ALLT}]
ORDERING_NOTICES = Profile(
    name="ordering-notices",
    oracles={"order", "framing", "routing"},
    weights={STEP: 10, PUB: 16, SUB: 7, CONNECT: 3, OPEN: 2, READY: 1, SLOW: 3},
    types=[1234, 5000, 8, 33, 0, 9999],
    sizes=[0, 8, 64, 1, 7, 4096],
    max_pending_pubs=10,
    writable_all_bias=1,
    p_logger=3,
    dts=[0.0],
    max_conns=8,
    setup_ops=_OBSERVERS,
)


def nontrivial(w, res):
    for s in w.shapes:
        if s[0] == "pair-order":
            res.shape(*s)
    for i, frames in w.frames_per_conn.items():
        if frames["n"] >= 3 and len(frames["kinds"]) >= 2:
            res.shape("conn", tuple(sorted(frames["kinds"]))[:6], min(frames["n"], 40) // 4)
            res.count("conns-nontrivial")


# ---- long runs: sequence numbers far beyond the 8/15/16-bit boundaries on one connection ------------------------
def long_run(cfg, n_frames, res=None):
    """One subscriber connection receives n_frames frames of three kinds (messages of two publishers, acknowledgements of
    its own repeated SUBSCRIBE requests, CLIENT_INFO of connecting modules); msg_count must be 1..n without a gap."""
    import logging

    from vlib import proto as P
    from vlib.common import Violation
    from vlib.simnet import LISTENER, Sim

    tc = cfg["timecode"]
    trace = {"kind": "long-run", "cfg": cfg, "frames": n_frames}
    sim = Sim(timecode=tc, send_msg_timing=False, log_level=logging.CRITICAL + 10)
    try:
        def connect(mid):
            c = sim.open()
            c.send(P.build(P.MT_CONNECT_V2, P.CONNECT_V2.pack(0, 0, 0, mid, 1, P.cstr(b"m%d" % mid)), src_mod=mid, timecode=tc))
            return c

        def pump():
            while True:
                ready = ([LISTENER] if sim.listener.backlog else []) + [c for c in sim.conns if sim.readable(c)]
                if not ready:
                    return
                sim.step(ready, list(sim.conns), 0.0)
                if sim.dead:
                    raise Violation("manager-died/" + type(sim.dead_exc).__name__, sim.dead.strip().splitlines()[-1], trace)

        sub = connect(10)
        pubs = [connect(11), connect(12)]
        sub.send(P.build(P.MT_SUBSCRIBE, P.SUBSCRIBE.pack(1234), src_mod=10, timecode=tc))
        sub.send(P.build(P.MT_SUBSCRIBE, P.SUBSCRIBE.pack(P.MT_CLIENT_INFO), src_mod=10, timecode=tc))
        pump()
        expected = 0
        sent = 0
        kinds = set()
        while expected < n_frames:
            for k in range(512):
                pubs[k % 2].send(P.build(1234, P.tag_payload(sent, 8 if k % 7 else 0), src_mod=11 + k % 2, timecode=tc))
                sent += 1
                if k % 64 == 63:
                    sub.send(P.build(P.MT_SUBSCRIBE, P.SUBSCRIBE.pack(1234), src_mod=10, timecode=tc))
                    pump()
            pump()
            sub.rxbuf += sub.take()
            for c in pubs:
                c.take()
            for fr in P.parse_stream(sub.rxbuf, tc):
                expected += 1
                kinds.add(fr.msg_type)
                if fr.msg_count != expected:
                    raise Violation("seqno/gap-or-repeat", f"frame #{expected} on a long-lived connection (type {fr.msg_type}) carries "
                                    f"msg_count {fr.msg_count}", trace)
        if sub.rxbuf:
            raise Violation("framing/partial-frame", f"{len(sub.rxbuf)} bytes of an incomplete frame left after the manager finished", trace)
        if res is not None:
            res.count("long-run-frames", expected)
            res.shape("long-run", tc, expected >> 15, len(kinds))
            res.evaluations += 1
    finally:
        sim.close()


def stall_case(tc, vsub, nrounds, res=None):
    """A subscriber stops being writable for `nrounds` consecutive deliveries while two other receivers (one served before it,
    one after it in either fan-out order) keep receiving; the oracles are the ordinary ones (order, framing, routing)."""
    from vlib.common import Violation
    from vlib.world import World

    ALLT = 0x7FFFFFFF
    cfg = {"timecode": tc, "timing": True, "log": "silent"}
    ops = []
    for c, (mid, subs) in enumerate([(10, [1234, 33]), (11, vsub), (12, [ALLT]), (13, [1234, 33, 8])]):
        ops += [{"op": "open"}, {"op": "connect", "c": c, "ver": "v2", "id": mid, "logger": 0, "daemon": 0, "multi": 0, "name": "", "pid": c}]
        ops.append({"op": "_drain"})
        ops += [{"op": "sub", "c": c, "kind": "SUBSCRIBE", "type": t} for t in subs]
        ops.append({"op": "_drain"})
    ops += [{"op": "open"}, {"op": "connect", "c": 4, "ver": "v2", "id": 20, "logger": 0, "daemon": 0, "multi": 0, "name": "", "pid": 9}, {"op": "_drain"}]
    for k in range(nrounds):
        ops.append({"op": "pub", "c": 4, "type": 1234, "dm": 0, "dh": 0, "size": 8, "src": 20})
        ops.append({"op": "step", "ready": [4], "writable": [0, 2, 3, 4], "dt": 0.0})
    ops += [{"op": "pub", "c": 4, "type": 1234, "dm": 0, "dh": 0, "size": 8, "src": 20}, {"op": "_drain"}]
    trace = {"kind": "stall", "tc": tc, "vsub": vsub, "nrounds": nrounds}
    w = World(cfg, {"order", "framing", "routing"}, "C05")
    try:
        try:
            for op in ops:
                if op["op"] == "_drain":
                    w.drain()
                else:
                    w.apply(op)
            w.drain()
            w.final_checks()
        except Violation as v:
            raise Violation(v.key, v.what, trace)
        if res is not None:
            res.shape("stall", tc, tuple(vsub), nrounds // 20)
            res.count("stalled-subscriber-deliveries", nrounds)
            res.evaluations += 1
    finally:
        w.close()


def shard_stall(tc, vsub, nrounds):
    from vlib.common import Result, Violation

    res = Result()
    try:
        stall_case(tc, vsub, nrounds, res)
    except Violation as v:
        res.add_finding(v.key, v.what, v.trace)
    return res


def shard_extra(kind, *a):
    return shard_long(*a) if kind == "long" else shard_stall(*a)


def shard_long(cfg, n_frames):
    from vlib.common import Result, Violation

    res = Result()
    try:
        long_run(cfg, n_frames, res)
    except Violation as v:
        res.add_finding(v.key, v.what, v.trace)
    return res


def extra(ctx):
    from vlib.common import run_shards

    n = 66000 if ctx.quick else 140000
    jobs = [("long", {"timecode": tc}, n) for tc in (False, True)]
    for tc in (False, True):
        for vsub in ([0x7FFFFFFF], [1234], [1234, 33]):
            for nr in ((30, 70) if ctx.quick else (30, 70, 130, 300)):
                jobs.append(("stall", tc, vsub, nr))
    res = run_shards(shard_extra, jobs)
    res.notes.append("stalled subscriber: one of four receivers is outside the writable snapshot for 30..300 consecutive deliveries of one "
                     "publisher, subscribed to everything / the type / the type and CLIENT_CLOSED, both header layouts; order, framing and "
                     "routing oracles as in the generated histories")
    res.notes.append(f"long runs: one connection receives {n} frames (messages, acknowledgements) in both header layouts; msg_count must "
                     "count 1..n across the 2^8, 2^15 and 2^16 (thorough: 2^17) boundaries")
    return res


def _replay_extra(tr):
    if tr.get("kind") == "stall":
        stall_case(tr["tc"], tr["vsub"], tr["nrounds"])
    else:
        long_run(tr["cfg"], tr["frames"])


CHECK = SimCheck(
    "C05", [ORDERING, ORDERING_NOTICES, ORDERING_FAULTS, ORDERING],
    {"ordering": [{"timecode": False, "timing": True, "log": "error"}, {"timecode": True, "timing": True, "log": "info"},
                  {"timecode": False, "timing": False, "log": "silent"}, {"timecode": False, "timing": True, "log": "debug"}],
     "ordering-notices": [{"timecode": False, "timing": False, "log": "silent"}, {"timecode": True, "timing": False, "log": "error"}],
     "ordering-faults": [{"timecode": False, "timing": True, "log": "silent"}, {"timecode": True, "timing": False, "log": "silent"}]},
    RULE, ["per-sender order uses the harness' global publish counter, which increases in send order on each connection"],
    quick=(700, 60), thorough=(15000, 160), nontrivial=nontrivial, extra=extra,
)
CHECK.replay_extra = _replay_extra
run, replay_trace, shard = CHECK.run, CHECK.replay_trace, CHECK.shard
